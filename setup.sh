#!/bin/sh
# Offline setup: parse every TLA+ module with SANY, create output directories.
cd "$(dirname "$0")" || exit 1
mkdir -p evidence replays
fail=0
for f in spec/*.tla; do
  m=$(basename "$f" .tla)
  out=$(cd spec && java -cp /opt/veriftools/tla/tla2tools.jar:/opt/veriftools/tla/CommunityModules-deps.jar tla2sany.SANY "$m.tla" 2>&1)
  if echo "$out" | grep -q -e "Semantic errors" -e "Parse Error" -e "Fatal errors" -e "Could not"; then
    echo "SANY FAILED: $m"; echo "$out" | tail -20; fail=1
  fi
done
/venv/bin/python -c "import textx, arpeggio, click" || fail=1
[ $fail = 0 ] && echo "setup ok: $(ls spec/*.tla | wc -l) modules parsed"
exit $fail
