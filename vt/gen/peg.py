"""Abstract grammars for spec/Peg.tla: seeded-random generation of well-formed PEGs
(DESIGN.md section 7), rendering to textX grammar text, sentence derivation and mutation.

The generator only *proposes* cases; what a grammar accepts and which model it
builds is decided by TLC evaluating Peg.tla.
"""
from __future__ import annotations

import random
import re

BASE = ["ID", "INT", "BOOL", "STRING"]


def codes(s):
    return [ord(c) for c in s]


def text(cs):
    return "".join(chr(c) for c in cs)


# ----------------------------------------------------------------------------- constructors
def Str(lit, sup=False):
    return dict(k="str", lit=codes(lit), sup=sup)


def Re(pre="", cset="ab", mn=1, post="", grp=False, sup=False):
    return dict(k="re", pre=codes(pre), set=codes(cset), min=mn, post=codes(post), grp=grp, sup=sup)


def Ref(name, sup=False):
    return dict(k="ref", name=name, sup=sup)


def Seq(es, sup=False):
    return dict(k="seq", es=list(es), sup=sup)


def Alt(es, sup=False):
    return dict(k="alt", es=list(es), sup=sup)


def Opt(e, sup=False):
    return dict(k="opt", e=e, sup=sup)


NOSEP = dict(k="none")


def Star(e, sep=None, eol=False, sup=False):
    return dict(k="star", e=e, sep=sep or NOSEP, eol=eol, sup=sup)


def Plus(e, sep=None, eol=False, sup=False):
    return dict(k="plus", e=e, sep=sep or NOSEP, eol=eol, sup=sup)


def Unord(es, sep=None, eol=False, sup=False):
    return dict(k="unord", es=list(es), sep=sep or NOSEP, eol=eol, sup=sup)


def And(e):
    return dict(k="and", e=e, sup=False)


def Not(e):
    return dict(k="not", e=e, sup=False)


def Asg(attr, op, rhs, sep=None, eol=False):
    return dict(k="asg", attr=attr, op=op, rhs=rhs, sep=sep or NOSEP, eol=eol, sup=False)


def RuleD(name, body, skipws="inherit", ws=""):
    return dict(name=name, skipws=skipws, ws=codes(ws), body=body)


def number(g):
    """Assign unique expression ids (identity of parsing expressions)."""
    n = [0]

    def walk(e):
        n[0] += 1
        e["eid"] = n[0]
        for c in kids(e):
            walk(c)
        if e.get("sep") and e["sep"]["k"] != "none":
            walk(e["sep"])

    for r in g["rules"]:
        walk(r["body"])
    return g


def kids(e):
    k = e["k"]
    if k in ("seq", "alt", "unord"):
        return e["es"]
    if k in ("opt", "star", "plus", "and", "not"):
        return [e["e"]]
    if k == "asg":
        return [e["rhs"]]
    return []


def walk_all(e):
    yield e
    for c in kids(e):
        yield from walk_all(c)
    if e.get("sep") and e["sep"]["k"] != "none":
        yield e["sep"]


# ----------------------------------------------------------------------------- rendering
def _lit(cs, esc=False):
    """String literal. Newlines are written as the escape \\n; with esc the first character is written
    as a \\xNN escape (another spelling of the same literal)."""
    s = text(cs)
    assert "'" not in s and "\\" not in s, s
    out = ""
    for i, ch in enumerate(s):
        if ch == "\n":
            out += "\\n"
        elif esc and i == 0 and ord(ch) < 256:
            out += "\\x%02x" % ord(ch)
        else:
            out += ch
    return "'" + out + "'"


def _re_cls(cs):
    out = ""
    for c in text(cs):
        out += "\\" + c if c in "]\\^-/" else c
    return "[" + out + "]"


def _re_lit(cs):
    return "".join("\\/" if c == "/" else re.escape(c) for c in text(cs))


def render_re(e):
    q = "+" if e["min"] >= 1 else "*"
    if e["set"]:
        core = _re_cls(e["set"]) + q
        if e["grp"]:
            core = "(" + core + ")"
    else:
        assert e["min"] == 0 and not e["grp"] and e["pre"]
        core = ""                          # a plain word written as a regex: /warn/
    pre = _re_lit(e["pre"])
    if e.get("ncg") and pre:
        pre = "(?:" + pre + ")"          # another spelling of the same regex (non-capturing group first)
    return "/" + pre + core + _re_lit(e["post"]) + "/"


def _mods(e):
    ms = []
    if e["sep"]["k"] != "none":
        ms.append(render(e["sep"]))
    if e["eol"]:
        ms.append("eolterm")
    return "[" + " ".join(ms) + "]" if ms else ""


def render(e, top=False):
    k = e["k"]
    sup = "-" if e.get("sup") else ""
    if k == "str":
        return _lit(e["lit"], e.get("esc", False)) + sup
    if k == "re":
        return render_re(e) + sup
    if k == "ref":
        return e["name"] + sup
    if k == "seq":
        inner = " ".join(render(x) for x in e["es"])
        return inner if (top and not sup) else "(" + inner + ")" + sup
    if k == "alt":
        inner = " | ".join(render(x, top=False) for x in e["es"])
        return inner if (top and not sup) else "(" + inner + ")" + sup
    if k in ("opt", "star", "plus"):
        op = {"opt": "?", "star": "*", "plus": "+"}[k]
        inner = render(e["e"])
        if e["e"]["k"] in ("and", "not", "asg") or (e["e"]["k"] in ("opt", "star", "plus", "unord")) or e["e"].get("sup"):
            inner = "(" + inner + ")"
        return inner + op + (_mods(e) if k != "opt" else "") + sup
    if k == "unord":
        # "(a b c)#" and "(a | b | c)#" are the same group (docs: applied to a sequence or an ordered choice)
        glue = " | " if e.get("altform") else " "
        return "(" + glue.join(render(x) for x in e["es"]) + ")#" + _mods(e) + sup
    if k == "and":
        return "&" + _pred_arg(e["e"])
    if k == "not":
        return "!" + _pred_arg(e["e"])
    if k == "asg":
        rhs = render(e["rhs"])
        return e["attr"] + e["op"] + rhs + (_mods(e) if e["op"] in ("+=", "*=") else "")
    raise ValueError(k)


def _pred_arg(e):
    if e["k"] in ("str", "re", "ref") and not e.get("sup"):
        return render(e)
    return "(" + render(e, top=True) + ")" if e["k"] in ("seq", "alt") and not e.get("sup") else "(" + render(e) + ")"


def _ws_param(cs):
    return "".join({"\n": "\\n", "\t": "\\t", "\r": "\\r"}.get(c, c) for c in text(cs))


def render_grammar(g):
    out = []
    for r in g["rules"]:
        ps = []
        if r["skipws"] == "on":
            ps.append("skipws")
        elif r["skipws"] == "off":
            ps.append("noskipws")
        if r["ws"]:
            ps.append("ws='" + _ws_param(r["ws"]) + "'")
        hdr = r["name"] + ("[" + ", ".join(ps) + "]" if ps else "")
        out.append(hdr + ": " + render(r["body"], top=True) + ";")
    return "\n".join(out) + "\n"


# ----------------------------------------------------------------------------- static analysis used for well-formedness
def may_resultless(g, e, seen=()):
    """Can e succeed without producing a parse-tree node?"""
    k = e["k"]
    if e.get("sup"):
        return True
    if k == "str":
        return False
    if k == "re":
        return e["min"] == 0 and not e["pre"] and not e["post"]
    if k == "ref":
        if e["name"] in BASE:
            return False
        if e["name"] in seen:
            return False
        return may_resultless(g, rule(g, e["name"])["body"], seen + (e["name"],))
    if k == "seq":
        return all(may_resultless(g, x, seen) for x in e["es"])
    if k == "alt":
        return any(may_resultless(g, x, seen) for x in e["es"])
    if k in ("opt", "star", "and", "not"):
        return True
    if k == "plus":
        return may_resultless(g, e["e"], seen)
    if k == "unord":
        return all(may_resultless(g, x, seen) for x in e["es"])
    if k == "asg":
        return e["op"] in ("?=", "*=") or may_resultless(g, e["rhs"], seen)
    raise ValueError(k)


def rule(g, name):
    for r in g["rules"]:
        if r["name"] == name:
            return r
    raise KeyError(name)


def well_formed(g):
    """The fragment on which the documented semantics is unambiguous (DESIGN section 7)."""
    names = [r["name"] for r in g["rules"]]
    for r in g["rules"]:
        if may_resultless(g, r["body"]):
            return False
        boolattrs, other = set(), set()
        for e in walk_all(r["body"]):
            k = e["k"]
            if k == "alt" and any(may_resultless(g, x) for x in e["es"]):
                return False
            if k in ("star", "plus", "opt") and may_resultless(g, e["e"]):
                return False
            if k in ("star", "plus") and any(x["k"] == "asg" and x["op"] == "?=" for x in walk_all(e["e"])):
                return False   # the compiler refuses a bool assignment inside a repetition
            if k == "unord":
                if len(e["es"]) < 2 or any(x.get("sup") for x in e["es"]):
                    return False
                for x in e["es"]:
                    if may_resultless(g, x) and not (
                            (x["k"] in ("opt", "star") and not may_resultless(g, x["e"]))
                            or (x["k"] == "asg" and x["op"] in ("?=", "*="))):
                        return False
            if k == "asg":
                if may_resultless(g, e["rhs"]):
                    return False
                (boolattrs if e["op"] == "?=" else other).add(e["attr"])
            if k == "ref" and e["name"] not in BASE and e["name"] not in names:
                return False
            if k in ("and", "not"):
                if any(x["k"] == "asg" for x in walk_all(e["e"])):
                    return False
        if boolattrs & other:
            return False
        # a ?= attribute is assigned once
        cnt = {}
        for e in walk_all(r["body"]):
            if e["k"] == "asg" and e["op"] == "?=":
                cnt[e["attr"]] = cnt.get(e["attr"], 0) + 1
        if any(v > 1 for v in cnt.values()):
            return False
    return not left_recursive(g)


def left_recursive(g):
    """Conservative: a rule can reach itself without consuming a terminal first."""
    def first_refs(e):
        k = e["k"]
        if k == "ref":
            return set() if e["name"] in BASE else {e["name"]}
        if k in ("str", "re"):
            return set()
        if k == "seq":
            out = set()
            for x in e["es"]:
                out |= first_refs(x)
                if not nullable(x):
                    break
            return out
        if k in ("alt", "unord"):
            out = set()
            for x in e["es"]:
                out |= first_refs(x)
            return out
        if k in ("opt", "star", "plus", "and", "not"):
            return first_refs(e["e"])
        if k == "asg":
            return first_refs(e["rhs"])
        return set()

    def nullable(e):
        k = e["k"]
        if k == "str":
            return not e["lit"]
        if k == "re":
            return e["min"] == 0 and not e["pre"] and not e["post"]
        if k == "ref":
            return False if e["name"] in BASE else False
        if k == "seq":
            return all(nullable(x) for x in e["es"])
        if k == "alt":
            return any(nullable(x) for x in e["es"])
        if k in ("opt", "star", "and", "not"):
            return True
        if k == "plus":
            return nullable(e["e"])
        if k == "unord":
            return all(nullable(x) for x in e["es"])
        if k == "asg":
            return e["op"] in ("?=", "*=") or nullable(e["rhs"])
        return False

    fr = {r["name"]: first_refs(r["body"]) for r in g["rules"]}
    for start in fr:
        seen, todo = set(), list(fr[start])
        while todo:
            n = todo.pop()
            if n == start:
                return True
            if n in seen or n not in fr:
                continue
            seen.add(n)
            todo.extend(fr[n])
    return False


# ----------------------------------------------------------------------------- random grammars
LITS = ["a", "b", "ab", "+", ",", ";", "k1", "if", "-", ":"]
SEPS = [",", ";", "+"]
RSETS = ["ab", "a", "c", "01", "xy"]
ATTRS = ["x", "y", "z"]


class GrammarGen:
    def __init__(self, rng, opts=None):
        self.rng = rng
        o = dict(max_rules=3, depth=3, comment=0.25, modifiers=0.3, unord=0.15, preds=0.15, sup=0.12,
                 eol=0.15, sep=0.35, base=BASE, lits=LITS, regroup=0.2, ws_mod=0.1)
        o.update(opts or {})
        self.o = o

    def pick(self, xs):
        return xs[self.rng.randrange(len(xs))]

    def chance(self, p):
        return self.rng.random() < p

    def terminal(self, names_below, allow_ref=True):
        r = self.rng.random()
        if r < 0.4:
            t = Str(self.pick(self.o["lits"]))
            if self.chance(self.o.get("esc", 0.0)):
                t["esc"] = True
            return t
        if r < 0.55 and self.chance(0.12):
            # a plain word written as a regex (same words as the string literals)
            w = [x for x in self.o["lits"] if x.isalnum()]
            if w:
                return Re(self.pick(w), "", 0, "")
        if r < 0.55:
            st = self.pick(RSETS)
            pre = self.pick(["", "", "#", "x"])
            post = self.pick(["", "", ";", "!"])
            mn = self.pick([0, 1, 1])
            if mn == 0 and not pre and not post:
                mn = 1
            t = Re(pre, st, mn, post, grp=self.chance(self.o["regroup"]))
            if pre and self.chance(self.o.get("ncg", 0.0)):
                t["ncg"] = True
            return t
        if r < 0.8 or not names_below or not allow_ref:
            return Ref(self.pick(self.o["base"]))
        return Ref(self.pick(names_below))

    def sep(self):
        if not self.chance(self.o["sep"]):
            return None
        r = self.rng.random()
        if r < 0.6:
            return Str(self.pick(SEPS))
        if r < 0.75:
            return Re("", ",;", 1, "")
        return Re("", ",", 0, "")          # an optional separator: may match the empty string (no node then)

    def rhs(self, names_below):
        return self.terminal(names_below)

    def expr(self, d, names_below, assign, attrs):
        """A random expression; `assign` says whether assignments may appear."""
        r = self.rng.random()
        if d <= 0 or r < 0.3:
            if assign and self.chance(0.6):
                op = self.pick(["=", "=", "+=", "*=", "?="])
                a = self.pick(attrs)
                if op in ("+=", "*="):
                    return Asg(a, op, self.rhs(names_below), self.sep(), self.chance(self.o["eol"]))
                return Asg(a, op, self.rhs(names_below))
            t = self.terminal(names_below)
            if self.chance(self.o["sup"]):
                t["sup"] = True
            return t
        if names_below and assign and self.chance(self.o.get("tworole", 0.05)):
            # the same rule tried at one position in two roles: suppressed in the first alternative, as the value
            # of an assignment in the second
            x = self.pick(names_below)
            l1 = self.pick(self.o["lits"])
            l2 = self.pick([l for l in self.o["lits"] if l != l1] or ["!"])
            return Alt([Seq([Ref(x, sup=True), Str(l1)]),
                        Seq([Asg(self.pick(attrs), "=", Ref(x)), Str(l2)])])
        if r < 0.55:
            n = self.rng.randrange(2, 4)
            return Seq([self.expr(d - 1, names_below, assign, attrs) for _ in range(n)])
        if r < 0.7:
            n = self.rng.randrange(2, 4)
            return Alt([self.expr(d - 1, names_below, assign, attrs) for _ in range(n)])
        if r < 0.78:
            return Opt(self.expr(d - 1, names_below, assign, attrs))
        if r < 0.86:
            inner = self.expr(d - 1, names_below, assign, attrs)
            f = Star if self.chance(0.5) else Plus
            return f(inner, self.sep(), self.chance(self.o["eol"]))
        if r < 0.86 + self.o["unord"]:
            n = self.rng.randrange(2, 4)
            es = [self.expr(d - 1, names_below, assign, attrs) for _ in range(n)]
            if self.chance(0.3):
                # mutually exclusive options as ONE element of the group: (a | (b | c) | d)#
                j = self.rng.randrange(len(es))
                es[j] = Alt([self.expr(0, names_below, assign, attrs) for _ in range(2)])
            u = Unord(es, self.sep(), self.chance(self.o["eol"]))
            if self.chance(0.4):
                u["altform"] = True      # written as an ordered choice: the same group
            return u
        if self.chance(self.o["preds"] * 3):
            f = And if self.chance(0.5) else Not
            return Seq([f(self.expr(0, names_below, False, attrs)), self.expr(d - 1, names_below, assign, attrs)])
        return Seq([self.expr(d - 1, names_below, assign, attrs) for _ in range(2)])

    def grammar(self):
        for _ in range(200):
            nr = self.rng.randrange(1, self.o["max_rules"] + 1)
            names = ["M", "A", "B", "C", "D", "F"][:nr]
            rules = []
            for i, n in enumerate(names):
                below = names[i + 1:]
                kind = self.pick(["common", "common", "match", "abstract"]) if i else self.pick(["common", "common", "abstract", "match"])
                if kind == "abstract" and not below:
                    kind = "common"
                if kind == "common":
                    body = self.expr(self.o["depth"], below, True, ATTRS)
                elif kind == "match":
                    body = self.expr(self.o["depth"] - 1, [], False, ATTRS)
                else:
                    alts = [Ref(b) for b in below]
                    self.rng.shuffle(alts)
                    alts = alts[: self.rng.randrange(1, len(alts) + 1)]
                    if self.chance(0.4):
                        alts.insert(self.rng.randrange(len(alts) + 1), self.terminal([], allow_ref=False))
                    if self.chance(0.3) and len(below) >= 1:
                        alts.append(Seq([Str(self.pick(self.o["lits"])), Ref(self.pick(below))]))
                    if self.chance(0.35):
                        # an alternative made of plain matches only: yields the concatenated text
                        alts.insert(self.rng.randrange(len(alts) + 1),
                                    Seq([Str(self.pick(["[", "<", "un"])), Str(self.pick(["]", ">", "int"]))]))
                    if self.chance(0.2):
                        # ... and one made of base-type matches only (the text as written, not the converted values)
                        alts.insert(self.rng.randrange(len(alts) + 1),
                                    Seq([Ref(self.pick(["INT", "STRING"])), Ref(self.pick(["BOOL", "INT", "STRING"]))]))
                    body = Alt(alts) if len(alts) > 1 else alts[0]
                if kind == "common" and i > 0 and self.chance(0.3):
                    # recursion back to this or an earlier rule (possibly an alias rule), guarded by a terminal
                    body = Seq([body, Opt(Seq([Str("("), Asg("rec", "=", Ref(self.pick(names[:i + 1]))), Str(")")]))])
                if kind != "common" and below and self.chance(0.12):
                    body = Ref(self.pick(below))          # an alias rule: the body is a single rule reference
                r = RuleD(n, body)
                if self.chance(self.o["modifiers"]):
                    r["skipws"] = self.pick(["on", "off", "off"])
                if self.chance(self.o["ws_mod"]):
                    r["ws"] = codes(self.pick([" ", "\n", " \t", "\n "]))
                rules.append(r)
            if self.chance(self.o["comment"]):
                form = self.rng.random()
                line = Re("#", " ab", 0, "")
                if form < 0.6:
                    rules.append(RuleD("Comment", line))
                elif form < 0.8:        # a single rule reference
                    rules.append(RuleD("Comment", Ref("LineC")))
                    rules.append(RuleD("LineC", line))
                else:                   # a choice of a reference and a regex
                    rules.append(RuleD("Comment", Alt([Ref("LineC"), Re("%", "ab", 1, "%")])))
                    rules.append(RuleD("LineC", line))
            if len(rules) > 1 and self.chance(0.12):
                # 'sep' is an ordinary rule name (the separator of a repetition modifier is not a rule)
                victim = self.pick([r["name"] for r in rules[1:] if r["name"] not in ("Comment", "LineC")] or [None])
                if victim:
                    rename_rule(rules, victim, "sep")
            if self.chance(0.3):
                # the order in which rules are defined (after the first) carries no meaning
                tail = rules[1:]
                self.rng.shuffle(tail)
                rules = rules[:1] + tail
            g = dict(rules=rules)
            # every non-root rule must be referenced, or it is dead weight: fine, textX allows it.
            if well_formed(g):
                return number(g)
        raise RuntimeError("could not generate a well-formed grammar")


def rename_rule(rules, old, new):
    """Renames a rule and every reference to it (in place)."""
    def go(x):
        if isinstance(x, dict):
            if x.get("k") == "ref" and x.get("name") == old:
                x["name"] = new
            for v in x.values():
                go(v)
        elif isinstance(x, list):
            for v in x:
                go(v)
    for r in rules:
        if r["name"] == old:
            r["name"] = new
        go(r["body"])


# ----------------------------------------------------------------------------- sentences
class SentenceGen:
    """Derives token lists from a grammar (not exact: acceptance is decided by the oracle)."""

    def __init__(self, rng, g):
        self.rng, self.g = rng, g

    def tok_str(self, e):
        return text(e["lit"])

    def tok_re(self, e):
        cs = text(e["set"])
        n = self.rng.randrange(e["min"], e["min"] + 3) if cs else 0
        return text(e["pre"]) + "".join(self.rng.choice(cs) for _ in range(n)) + text(e["post"])

    def tok_base(self, name):
        r = self.rng
        if name == "ID":
            return r.choice(["a", "b", "ab", "foo", "_x1", "if", "k1", "true", "\u00e9a"])
        if name == "INT":
            return r.choice(["0", "1", "42", "-7", "+3", "007"])
        if name == "BOOL":
            return r.choice(["true", "false", "True", "False", "0", "1"])
        if name == "STRING":
            return r.choice(['"a b"', "'x'", '""', "'a\"b'", '"#c"'])
        raise KeyError(name)

    def gen(self, e, depth=0):
        k = e["k"]
        r = self.rng
        if k == "str":
            return [self.tok_str(e)]
        if k == "re":
            t = self.tok_re(e)
            return [t] if t else []
        if k == "ref":
            if e["name"] in BASE:
                return [self.tok_base(e["name"])]
            if depth > 6:
                return ["a"]
            return self.gen(rule(self.g, e["name"])["body"], depth + 1)
        if k == "seq":
            out = []
            for x in e["es"]:
                out += self.gen(x, depth)
            return out
        if k == "alt":
            return self.gen(r.choice(e["es"]), depth)
        if k == "opt":
            return self.gen(e["e"], depth) if r.random() < 0.6 else []
        if k in ("star", "plus"):
            n = r.randrange(0 if k == "star" else 1, 4)
            return self._rep(e["e"], e["sep"], n, depth)
        if k == "unord":
            es = list(e["es"])
            r.shuffle(es)
            out = []
            first = True
            for x in es:
                t = self.gen(x, depth)
                if t:
                    if not first and e["sep"]["k"] != "none":
                        out += self.gen(e["sep"], depth)
                    out += t
                    first = False
            return out
        if k in ("and", "not"):
            return []
        if k == "asg":
            if e["op"] == "=":
                return self.gen(e["rhs"], depth)
            if e["op"] == "?=":
                return self.gen(e["rhs"], depth) if r.random() < 0.5 else []
            n = r.randrange(0 if e["op"] == "*=" else 1, 4)
            return self._rep(e["rhs"], e["sep"], n, depth)
        raise ValueError(k)

    def _rep(self, e, sep, n, depth):
        out = []
        for i in range(n):
            if i and sep["k"] != "none":
                out += self.gen(sep, depth)
            out += self.gen(e, depth)
        return out

    def sentence(self):
        toks = self.gen(rule(self.g, self.g["rules"][0]["name"])["body"])
        return toks


WS_CHOICES = [" ", " ", " ", "", "\n", "  ", "\t", " \n ", "\r\n", "\r"]


def join(rng, toks, comment=False, glue=0.15):
    out = rng.choice(["", "", " ", "\n"])
    for i, t in enumerate(toks):
        out += t
        if i < len(toks) - 1:
            if rng.random() < glue:
                w = ""
            else:
                w = rng.choice(WS_CHOICES) or " "
            if comment and rng.random() < 0.15:
                w += "#" + rng.choice(["", " a", "ab", " b a"]) + "\n"
            out += w
    out += rng.choice(["", "", " ", "\n", " #a\n" if comment else ""])
    return out


def mutate(rng, s, toks):
    r = rng.random()
    if not s:
        return rng.choice(["a", " ", "1"])
    if r < 0.25:
        i = rng.randrange(len(s))
        return s[:i] + s[i + 1:]
    if r < 0.5:
        i = rng.randrange(len(s) + 1)
        return s[:i] + rng.choice("ab1 ,;+#\n-\u00e9") + s[i:]
    if r < 0.7 and toks:
        t = list(toks)
        i = rng.randrange(len(t))
        if rng.random() < 0.5:
            del t[i]
        else:
            t.insert(i, t[i])
        return " ".join(t)
    if r < 0.85 and len(toks) > 1:
        t = list(toks)
        i = rng.randrange(len(t) - 1)
        t[i], t[i + 1] = t[i + 1], t[i]
        return " ".join(t)
    i = rng.randrange(len(s))
    return s[:i] + rng.choice("ab1 ,;+#\n") + s[i + 1:]
