"""C06 -- object source spans and locations are exact."""
from __future__ import annotations

import os
import random
import shutil

from .. import common, tlc
from ..drive import peg as D
from ..gen import peg as G
from . import c01
from . import pegcommon as P

PID = "C06"
OPTS = dict(max_rules=3, depth=3, comment=0.6, modifiers=0.15, unord=0.1, preds=0.08, sup=0.2, eol=0.1, sep=0.4,
            regroup=0.1, ws_mod=0.05)


def cases_for(rng, n, per):
    gg = G.GrammarGen(rng, OPTS)
    cases = []
    for _ in range(n):
        g = gg.grammar()
        # make sure objects nest: M gets contained objects when possible
        cfg = D.default_cfg(skipws=True)
        if rng.random() < 0.35:
            cfg["userclasses"] = True      # spans of user-class objects are prescribed alike
        sg = G.SentenceGen(rng, g)
        has_c = any(r["name"] == "Comment" for r in g["rules"])
        for k in range(per):
            toks = sg.sentence()
            s = G.join(rng, toks, has_c, glue=0.05)
            s = rng.choice(["", " ", "\n\n", "\t ", "#a\n" if has_c else " "]) + s + rng.choice(["", "\n", "  \n", "# b\n" if has_c else ""])
            cases.append(dict(id=len(cases), g=g, cfg=cfg, s=G.codes(s)))
    return cases


def file_pass(rep, cases, info):
    """The same inputs loaded from files: spans/locations equal the string load, filename is the file."""
    from textx import get_location
    work = tlc.scratch("vt-c06-")
    cache = P.MMCache()
    n = 0
    try:
        for c in cases:
            i = info.get(c["id"])
            if not i or i["exp"]["accept"] is not True or i["exp"]["model"].get("t") != "obj":
                continue
            if 13 in c["s"]:
                continue    # reading a file in text mode translates \r\n and \r: the parsed text is another one
            b = cache.get(c["g"], c["cfg"])
            if isinstance(b, Exception):
                continue
            path = os.path.join(work, f"m{c['id']}.txt")
            with open(path, "w", newline="") as f:
                f.write(G.text(c["s"]))
            if i["real"].get("accept") is not True:
                continue    # the string load already disagrees with the module: judged there
            try:
                m = b.mm.model_from_file(path)
            except Exception as e:
                rep.violation(dict(P.describe(c), error=str(e)), f"file load fails where string load succeeds: {e}")
                continue
            got = D.project_value(m)
            # where the string load is explained by a listed finding, the file load must show the same model
            want = i["real"]["model"] if i.get("verdict") == "known" else i["exp"]["model"]
            n += 1
            loc = get_location(m)
            if common.canon(got) != common.canon(want):
                rep.violation(dict(P.describe(c), raw=dict(g=c["g"], cfg=c["cfg"], s=c["s"]), observed=got, expected=want),
                              "model loaded from a file has different spans/locations than Peg.tla prescribes")
            elif loc["filename"] != path:
                rep.violation(dict(P.describe(c), filename=loc["filename"], expected=path),
                              f"get_location reports filename {loc['filename']!r} for a model loaded from {path!r}")
            else:
                rep.passed(None)
        # string loads report no file name
    finally:
        shutil.rmtree(work, ignore_errors=True)
    return n


def string_filename(rep, cases, info):
    from textx import get_location
    cache = P.MMCache()
    for c in cases[:200]:
        i = info.get(c["id"])
        if not i or i["exp"]["accept"] is not True or i["exp"]["model"].get("t") != "obj":
            continue
        b = cache.get(c["g"], c["cfg"])
        if isinstance(b, Exception):
            continue
        try:
            m = b.mm.model_from_str(G.text(c["s"]))
        except Exception:
            continue        # already judged by judge_cases
        if get_location(m)["filename"] is not None:
            rep.violation(dict(P.describe(c)), "get_location reports a file name for a model loaded from a string")
        else:
            rep.passed(None)


def run(rep):
    rng = random.Random(rep.seed)
    quick = rep.tier == "quick"
    P.replay_witnesses(rep, PID)
    rep.rule = ("I->S: seeded-random grammars with Comment rule, suppression and separators; inputs with leading, "
                "trailing and interleaved whitespace and comments; loaded from strings and from files. Compared for "
                "every object: _tx_position, _tx_position_end, get_location line/col/nchar/filename against the "
                "spans Peg!BuildNode derives from the first and last non-suppressed leaf. S->I: 'asg' and 'kinds' "
                "universes. Non-trivial: accepted inputs with at least one object.")
    rep.assumptions = ["spans are defined from non-suppressed leaves (DESIGN.md section 7)", "Peg!WellFormed fragment",
                       "file loads are compared for inputs without carriage returns (text-mode reading translates them, "
                       "so the parsed text is not the text written)"]
    P.judge_universe(rep, PID, "asg", 1, compare=D.strip_far)
    if not quick:
        P.judge_universe(rep, PID, "kinds", 2)
    n, per = (120, 6) if quick else (1500, 8)
    cases = cases_for(rng, n, per)
    # nested containment through abstract rules (wrapped alternatives like '(' X ')')
    from . import c03
    for c in c03.cases_for(rng, 60 if quick else 600, 6):
        c["id"] = len(cases)
        if rng.random() < 0.3:
            c["cfg"] = dict(c["cfg"], userclasses=True)
        cases.append(c)
    info, stats = P.judge_cases(rep, PID, cases, label="random-spans")
    stats["file_loads"] = file_pass(rep, cases, info)
    string_filename(rep, cases, info)
    rep.bounds["random"] = stats


def replay(path):
    return P.replay_case(path, PID)


META = dict(
    modules=["Peg", "PegOracle", "MC_Peg"],
    level_text=("Peg!BuildNode gives every object the span of its first to last non-suppressed leaf and the line/column "
                "of its start; MC_Peg checks nesting, ordering and non-emptiness of spans on the bounded universes "
                "(SpansExact); real _tx_position/_tx_position_end/get_location are compared for string and file loads."),
    level_note="Fragment Peg!WellFormed; spans defined from non-suppressed leaves; renderer/projector trusted.",
    technique="TLC-evaluated span semantics as oracle + TLC-checked span theorems",
)
