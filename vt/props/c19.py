"""C19 -- memoization never changes parse results."""
from __future__ import annotations

import random

from .. import common
from ..drive import peg as D
from ..gen import peg as G
from . import c01
from . import pegcommon as P

PID = "C19"
# few distinct literals, many of them suppressed or used as separators: the same literal text plays several roles in
# one grammar (value, suppressed match, separator), which a memoizing parser must keep apart
OPTS = dict(max_rules=4, depth=3, comment=0.3, modifiers=0.5, unord=0.1, preds=0.12, sup=0.25, eol=0.2, sep=0.4,
            ws_mod=0.2, lits=["a", "b", ",", ";", "+", "if"], tworole=0.3)


def with_memo(cases, memo):
    out = []
    for c in cases:
        d = dict(c)
        d["cfg"] = dict(c["cfg"], memo=memo)
        out.append(d)
    return out


def differential(rep, cases, info_on, info_off):
    """The relation as stated: same acceptance, same model, same error position."""
    n = 0
    for c in cases:
        a, b = info_on.get(c["id"]), info_off.get(c["id"])
        if not a or not b:
            continue
        n += 1
        ra, rb = a["real"], b["real"]
        if common.canon(ra) != common.canon(rb):
            # explained by the module (a listed deviation reproduces exactly the memoized result)?
            if a.get("verdict") == "known":
                continue
            rep.violation(dict(P.describe(c), raw=dict(g=c["g"], cfg=c["cfg"], s=c["s"]), memo_on=ra, memo_off=rb),
                          f"memoization changes the result: on {common.canon(ra)[:200]} off {common.canon(rb)[:200]} for "
                          f"grammar {G.render_grammar(c['g']).strip()!r} input {G.text(c['s'])!r}")
        else:
            rep.passed(None)
    return n


def chain_cases(rng, n, per):
    """Grammars whose rules form a chain main -> mid -> leaf of grammar files (cfg split3): the rules of the
    indirectly imported file are reached through the middle one. Several inputs per metamodel, so results
    memoized for one input would be visible in the next."""
    gg = G.GrammarGen(rng, dict(OPTS, comment=0.0, max_rules=4))
    cases, tries = [], 0
    while len({id(c["g"]) for c in cases}) < n and tries < 40 * n:
        tries += 1
        g = gg.grammar()
        rules = g["rules"]
        if len(rules) < 3:
            continue
        names = [r["name"] for r in rules]
        # redirect references so that every rule refers to the next file only
        for i, r in enumerate(rules[:2]):
            allowed = [names[1]] if i == 0 else names[2:]
            for e in G.walk_all(r["body"]):
                if e["k"] == "ref" and e["name"] in names and e["name"] not in allowed and e["name"] != r["name"]:
                    e["name"] = rng.choice(allowed)
        if not G.well_formed(g) or D.Built.split3(g) is None:
            continue
        reach = any(e["k"] == "ref" and e["name"] == names[1] for e in G.walk_all(rules[0]["body"])) and \
            any(e["k"] == "ref" and e["name"] in names[2:] for e in G.walk_all(rules[1]["body"]))
        if not reach:
            continue
        g = G.number(g)
        cfg = D.default_cfg(skipws=rng.random() < 0.8, split3=True)
        sg = G.SentenceGen(rng, g)
        for k in range(per):
            toks = sg.sentence()
            s = G.join(rng, toks, False)
            if k % 3 == 2:
                s = G.mutate(rng, s, toks)
            cases.append(dict(id=len(cases), g=g, cfg=cfg, s=G.codes(s)))
    return cases


def run(rep):
    rng = random.Random(rep.seed)
    quick = rep.tier == "quick"
    P.replay_witnesses(rep, PID)
    rep.rule = ("S->I: the MC_Peg 'mods' universe (rules with noskipws / ws modifiers, eolterm repetitions, with and "
                "without a Comment rule: rules reachable under different whitespace modes) and 'ops' universe, each "
                "grammar parsed with memoization on and off; I->S: seeded-random grammars with many rule modifiers. "
                "Verdict: textX(memo on) and textX(memo off) each equal Peg!Outcome (whose memo tables are keyed by "
                "expression, position and context -- MemoTransparent is checked by TLC), and the two real results are "
                "equal including the reported error position. Non-trivial: accepted inputs.")
    rep.assumptions = ["Peg!WellFormed fragment"]
    for fam, depth in ([("mods", 1)] if quick else [("mods", 2), ("ops", 2)]):
        P.judge_universe_memo(rep, PID, fam, depth, maxlen=4 if quick else "")
    rep.exhaustive = True
    n, per = (100, 8) if quick else (1200, 10)
    base = c01.random_cases(rng, n, per, OPTS)
    for c in chain_cases(rng, 25 if quick else 250, 8):
        c["id"] = len(base)
        base.append(c)
    on, off = with_memo(base, True), with_memo(base, False)
    info_on, st1 = P.judge_cases(rep, PID, on, label="random memo=on", compare=lambda o: o)
    info_off, st2 = P.judge_cases(rep, PID, off, label="random memo=off", compare=lambda o: o)
    st1["differential"] = differential(rep, base, info_on, info_off)
    rep.bounds["random"] = st1


def replay(path):
    return P.replay_case(path, PID, compare=lambda o: o)


META = dict(
    modules=["Peg", "PegOracle", "MC_Peg"],
    level_text=("Peg.tla threads the packrat table through the parse; with tables keyed by (expression, position, "
                "context) TLC checks on the bounded universes that memoization is transparent (MemoTransparent = C19 on "
                "the module); textX with memoization on and off is compared with the module and with itself, including "
                "the error position."),
    level_note="Fragment Peg!WellFormed; bounded sizes; renderer/projector trusted.",
    technique="TLC model checking of memo transparency + differential replay judged by the TLA+ oracle",
)
