"""C23 -- invalid grammars are always reported as TextXError subclasses.

(M)    spec/MetaGrammar.tla (generator + recogniser + the documented checks of the grammar
       compiler as Class / Allowed); TLC checks on every generated text that generator and
       recogniser agree and that Allowed(text, Dev) admits nothing but a metamodel, a
       TextXError, or the documented AssertionError of an import statement (NoLeak).
(S->I) every TLC-generated text, its one-token deletions / duplications / replacements /
       comment insertions, targeted semantic breakage and seeded token soups are given to
       metamodel_from_str in worker processes (per-text timeout).
Verdict: the observed outcome kind ('ok', 'textx' = TextXError subclass with a message, or the
name of any other exception class) must be in Allowed(text, {}) as evaluated by TLC; an outcome
admitted only by a *listed* C23 deviation clause is a KNOWN-FINDING; anything else a VIOLATION.
The module's predicted class (ok / syntax / semantic / ...) is compared too, as a binding note.
"""
from __future__ import annotations

import json
import os
import random
from concurrent.futures import ThreadPoolExecutor

from .. import common, tlc
from ..drive import metagrammar as mg

PID = "C23"
C23_DEVS = ["BadRegexTypeError", "BadEscapeUnicodeError", "AliasCycleRecursionError",
            "UnorderedGroupOnRuleRef", "AsgnPrefixedRuleName", "WsParamWithoutValue"]


def _open_findings():
    """The listed open findings; VT_FINDINGS_OFF=1 tries none (to confirm repairs: every
    former KNOWN-FINDING case must then pass, or it is a VIOLATION)."""
    return [] if os.environ.get("VT_FINDINGS_OFF") else common.open_findings(PID)


def _judge_one(c, o, r, fid_of):
    out = o["mm"]["out"]
    if out in r["allowed"]:
        return "pass"
    for d, e in sorted(map(tuple, r["leaks"])):
        if e == out and d in fid_of:
            return ("known", fid_of[d])
    return ("violation", f"metamodel_from_str({mg.text_of(c)!r}) -> {o['mm']['detail'] or out}; "
                         f"C23 admits {sorted(r['allowed'])} here (module class: {r['cls']})")


def run(rep):
    quick = rep.tier == "quick"
    rng = random.Random(rep.seed)
    findings = _open_findings()
    fid_of = {f["deviation"]: f["id"] for f in findings if f["deviation"] in C23_DEVS}
    rep.rule = ("corpus = every token sequence TLC derives from MetaGrammar's productions within the budgets + "
                "one-token deletions, duplications, replacements, comment insertions + targeted semantic breakage "
                "+ seeded token soups; each is given to metamodel_from_str. Non-trivial: the text is not a plain "
                "parse error, i.e. it reaches the grammar visitor (metamodel built, or an error raised by a "
                "visitor / resolution check); distinct by text.")
    rep.assumptions = [
        "texts are token sequences over MetaGrammar's alphabet rendered with one blank between tokens "
        "(targeted cases may use a surface variant of the same token kinds)",
        "a TextXError counts only with a non-empty message; AssertionError is admitted only when the parsed text "
        "contains an import statement (the documented exception)",
        "per-text timeout 10 s; RecursionError is observed with Python's default recursion limit",
    ]
    res_emit, res_inv = mg.tlc_generate(rep.tier)
    tlc.require_ok(res_emit, "MC_MetaGrammar_Emit (enumeration, coverage)")
    tlc.require_ok(res_inv, "MC_MetaGrammar (invariants)")
    rep.add_mc("MC_MetaGrammar_Emit", res_emit, ["Collect", "EmitFinal", "CoverageComplete (postcondition)"])
    rep.add_mc("MC_MetaGrammar", res_inv, mg.M_INVARIANTS)
    base = mg.base_from(res_emit)
    if not base:
        raise tlc.MachineryError("the generator printed nothing")
    if not quick:
        for d in C23_DEVS:     # the module is not vacuous: each clause breaks NoLeak
            rv = mg.tlc_invariants(rep.tier, d)
            if rv.violated != "NoLeak":
                raise tlc.MachineryError(f"deviation {d} does not violate NoLeak in the model ({rv.violated}, {rv.error})")
            rep.note(f"Dev={{{d}}}: NoLeak violated in the model, as it must be")
    cases, total_mut = mg.build_cases(base, rng, rep.tier, PID)
    cases = mg.witness_cases(findings) + cases
    rep.bounds.update(budgets=mg.BUDGETS[rep.tier], generated=len(base), mutants_total=total_mut, corpus=len(cases),
                      by_kind={k: sum(1 for c in cases if c["kind"] == k) for k in sorted({c["kind"] for c in cases})})
    rep.exhaustive = not quick
    with ThreadPoolExecutor(max_workers=2) as ex:
        f_or = ex.submit(mg.oracle, cases, sorted(fid_of))
        f_ob = ex.submit(mg.observe, cases, ("mm",))
        orc, st = f_or.result()
        obs = f_ob.result()
    rep.add_oracle("MetaGrammarOracle", st)
    class_notes, outcomes, viols = [], {}, []
    for c in cases:
        o, r = obs[c["id"]], orc[c["id"]]
        v = _judge_one(c, o, r, fid_of)
        oc = o["mm"]["cls"]
        outcomes[oc] = outcomes.get(oc, 0) + 1
        shown = dict(text=mg.text_of(c), outcome=o["mm"]["detail"] or "metamodel")
        if v == "pass":
            rep.passed(shown, nontrivial=r["l"])
            if c.get("text") is None and not c.get("kw") and r["cls"] != "unknown" and r["cls"] != oc:
                class_notes.append(dict(text=mg.text_of(c), module=r["cls"], observed=oc))
        elif v[0] == "known":
            rep.known_finding(v[1], shown)
            rep.nontrivial.add(common.digest(shown))
        else:
            viols.append((c, o, r, v[1]))
    viols.sort(key=lambda z: (len(z[0]["toks"]), z[0]["id"]))
    if viols:
        c0 = viols[0][0]
        bad_out = viols[0][1]["mm"]["out"]

        def still_bad(cands):
            oc_, _ = mg.oracle(cands, sorted(fid_of))
            ob_ = mg.observe(cands, ("mm",))
            res = []
            for k in cands:
                v_ = _judge_one(k, ob_[k["id"]], oc_[k["id"]], fid_of)
                res.append(isinstance(v_, tuple) and v_[0] == "violation" and ob_[k["id"]]["mm"]["out"] == bad_out)
            return res
        small = mg.shrink(c0, still_bad, max_rounds=2)
        if small["toks"] != c0["toks"]:
            s2 = dict(small, id="shrunk")
            oc_, _ = mg.oracle([s2], sorted(fid_of))
            ob_ = mg.observe([s2], ("mm",))
            v = _judge_one(s2, ob_["shrunk"], oc_["shrunk"], fid_of)
            if isinstance(v, tuple) and v[0] == "violation":
                viols.insert(0, (s2, ob_["shrunk"], oc_["shrunk"], v[1] + " [shrunk]"))
    for c, o, r, why in viols:
        rep.violation(dict(toks=c["toks"], text=c.get("text"), kw=c.get("kw"), kind=c["kind"], observed=o["mm"],
                           module=dict(allowed=sorted(r["allowed"]), cls=r["cls"], leaks=sorted(map(tuple, r["leaks"])))), why)
    rep.extra["outcomes"] = outcomes
    rep.extra["class_notes"] = dict(count=len(class_notes), sample=class_notes[:10])
    rep.extra["production_coverage"] = dict(labels=len(mg.coverage_union(orc)))
    if class_notes:
        rep.note(f"{len(class_notes)} texts where the module's documented class differs from the raised class "
                 "(binding note, not a C23 violation): see class_notes")


def replay(path):
    with open(path) as f:
        rec = json.load(f)
    case = rec["case"]
    c = dict(id="replay", kind="replay", toks=case["toks"])
    if case.get("text") is not None:
        c["text"] = case["text"]
    if case.get("kw"):
        c["kw"] = case["kw"]
    findings = _open_findings()
    fid_of = {f["deviation"]: f["id"] for f in findings if f["deviation"] in C23_DEVS}
    o = mg.observe_one(c, ("mm",))
    orc, _ = mg.oracle([c], sorted(fid_of))
    r = orc["replay"]
    print("text    :", repr(mg.text_of(c)))
    print("outcome :", o["mm"])
    print("module  : allowed", sorted(r["allowed"]), " class", r["cls"], " listed clauses admit", sorted(map(tuple, r["leaks"])))
    v = _judge_one(c, o, r, fid_of)
    print("verdict :", v)
    return 0 if v == "pass" else 1


META = dict(
    modules=["MetaGrammar", "MetaGrammarGen", "MC_MetaGrammar", "MetaGrammarOracle"],
    level_text=("MetaGrammar.tla states the textX meta-language as production data with a PEG recogniser, a bounded "
                "generator and the documented checks of the grammar compiler (Class, Allowed); TLC enumerates every "
                "derivable token sequence within the budgets and checks that nothing but a metamodel, a TextXError "
                "or the documented import assertion is admitted; every generated text, its one-token mutations, "
                "targeted breakage and token soups are compiled with metamodel_from_str and the exception class is "
                "judged against Allowed as evaluated by TLC."),
    level_note=("Token level over a fixed alphabet; budgets bound the enumeration; replacement mutations sampled per "
                "position; the six listed leaks are named deviation clauses whose trigger conditions the module "
                "states on the parse tree; the predicted error class is compared as a note only."),
    technique="TLC enumeration over MetaGrammar.tla + exception-class conformance judged by TLC-evaluated Allowed",
)
