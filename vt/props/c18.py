"""C18 -- a failing multi-file load leaves the model repositories clean.

(M)    spec/LoaderRepo.tla over the family FamC18 (EnumLoaderRepo.tla): import graphs x which reachable
       file fails x phase {syntax, unknown reference, object processor, model processor} x global
       repository on/off x a previously cached unrelated or related file; session: [pre-load,] failing
       load, repair of the file, reload, reload again; invariants C18_CleanRepos, C18_RepairedReload
       (+ C17 identities on the repaired reload);
(S->I) every scenario executed on the real loader; metamodel._tx_model_repository contents after the
       failure and outcome/identities of the repaired reload compared with the TLC behaviours;
(I->S) seeded-random sessions with faults recorded and validated by TLC (TraceLoaderRepo.tla).
Main models from files, from strings without file name (GlobalRepo providers, import-less models) and
loaded into a repository owned by the application (GlobalRepo.load_models_in_model_repo).
Deviation clauses NoCleanupOnModelProcessorFailure (F-C18-1, fixed) and
NoCleanupOnStringModelProcessorFailure (F-C18-2, fixed) and NoCleanupOfApplicationRepository (F-C18-3: a
model processor failing for a model loaded into an application-owned repository).
"""
from ..drive import multifile as mf

PID = "C18"


def _nontrivial(sc, hist):
    return any(not h["res"]["ok"] for h in hist)

def run(rep):
    mf.run_property(rep, PID, _nontrivial,
                    "S->I: every scenario of the TLC-enumerated family FamC18 (quick: a seeded sample when larger than "
                    "1500): [pre-load,] failing load, repair, reload(s); compared after every load: result, global "
                    "repository contents (file -> model identity), included/local models, opens, reference targets. "
                    "I->S: seeded-random fault sessions as event traces. Non-trivial: some load of the session failed; "
                    "distinct by content.")


def replay(path):
    from .. import common
    return mf.replay_case(path, common.open_findings(PID))


META = dict(
    modules=["LoaderRepo", "MC_LoaderRepo", "EnumLoaderRepo", "TraceLoaderRepo"],
    level_text=("LoaderRepo.tla states nested model loading with its failure paths and the cleanup of the repositories; "
                "TLC checks for every import graph, failing file and phase of the bounded family that after a failure no "
                "model of the attempt is in a surviving repository, earlier cached models are untouched and the repaired "
                "reload succeeds with C17's identities; every scenario is replayed against the real loader and seeded-"
                "random fault sessions recorded from it are validated by TLC."),
    level_note=("Bounded: <= 3 files (+ one unrelated file) exhaustively for <= 2 files, 5 shapes of 3 files in quick; "
                "3-6 files seeded-random; phases syntax / unknown reference / object processor / model processor."),
    technique="TLC model checking of LoaderRepo.tla + scenario replay against TLC-printed behaviours + TLC trace validation",
)
