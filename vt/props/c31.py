"""C31 -- generated output files are all-or-nothing.

(M)    spec/GenFile.tla (Start/Skip/Open/Write/Flush/Close/Fault/Abandon/End/Observe/
       Rerun) model-checked; all-or-nothing, nothing-partial-left, never-skip-
       a-partial-file, overwrite-respected are invariants / action properties;
(I->S) the three built-in generators are run on several grammars/models with
       a failure (OSError, ValueError, TypeError, AttributeError, RuntimeError,
       KeyboardInterrupt, SystemExit, GeneratorExit) injected at every I/O
       call observed in a clean run (open, each write, flush, close) and a
       second one at every call the code makes after the first, for
       overwrite on/off and a target that is absent, an old complete output,
       a symlink to one, or a dangling symlink; the output directory is listed
       afterwards, the generator is re-run without overwrite, and every run
       is recorded as a trace that TLC validates against GenFile!Next
       (TraceGenFile.tla), once per deviation set.
"""
from __future__ import annotations

import json
import os
import shutil
from concurrent.futures import ThreadPoolExecutor

from .. import common, tlc
from ..drive import genfile as drv

PID = "C31"
INVS = ["TypeOK", "AllOrNothing", "NothingPartialLeft", "NoSkipOfPartial", "DoneIsComplete", "RerunEndsWhole",
        "OverwriteRespected"]
KNOWN_DEVS = {"OpenTruncatesTarget", "NoCleanup"}


def _validate(traces, dev):
    """{index: (reached, len)} for every trace, validated with Dev = {dev} ("" = documented)."""
    if not traces:
        return {}, []
    nshard = max(1, min(tlc.NCPU, (len(traces) + 149) // 150))
    work = tlc.scratch("vt-c31-")
    chunks = [list(range(i, len(traces), nshard)) for i in range(nshard)]

    def one(k):
        path = os.path.join(work, f"traces{k}.json")
        with open(path, "w") as f:
            json.dump([traces[i] for i in chunks[k]], f)
        r = tlc.model_check("TraceGenFile", env={"VT_TRACES": path, "VT_DEV": dev}, workers=1, timeout=3000)
        tlc.require_ok(r, f"trace validation (Dev={dev or '{}'}) shard {k}")
        got = {x["tid"]: x for x in r.results("TRACE")}
        if len(got) != len(chunks[k]):
            raise tlc.MachineryError("trace validation did not report every trace")
        return r, {chunks[k][t - 1]: (x["reached"], x["len"]) for t, x in got.items()}

    try:
        with ThreadPoolExecutor(max_workers=nshard) as ex:
            outs = list(ex.map(one, range(nshard)))
    finally:
        shutil.rmtree(work, ignore_errors=True)
    res = {}
    for _, g in outs:
        res.update(g)
    return res, [r for r, _ in outs]


IO_EVENTS = ("Open", "Write", "Flush", "Close")
SMALL = ["g1", "g2", "g3", "g4", "g5", "g6"]


def _inputs(with_big):
    """Names of the grammars/models used.  thorough: textX's own grammar as a larger subject (about 100 writes
    per metamodel export, 160 for the export of a grammar parsed as a model of it)."""
    names = list(SMALL)
    big = os.path.join(common.REPO, "textx", "textx.tx")
    if with_big and os.path.exists(big):
        with open(big, encoding="utf-8") as f:
            drv.GRAMMARS["textx"] = (f.read(), drv.GRAMMARS["g5"][0])
        names.append("textx")
    return names


def _first_run(trace):
    """The I/O events (calls and faults) of the first run of a trace."""
    out = []
    for e in trace["events"][1:]:
        if e["name"] == "End":
            break
        if e["name"] in IO_EVENTS or e["name"] == "Fault":
            out.append(e)
    return out


PRIMARY = {(False, "absent"), (True, "old")}


def _record(rep, gens, gnames, kinds, full):
    """For every (generator, input, overwrite, kind of target): a clean run; one run per I/O call observed in
    that clean run and kind of failure, with the failure injected at that call; and, for every such run, one
    more run per I/O call the code still made after the failure (cleanup, retry, fallback) with a second
    failure injected there.  quick: every kind of failure at every call for the two primary combinations
    (first generation, re-generation with --overwrite), OSError at every call for all combinations, second
    failures after an OSError; thorough (`full`): the whole product."""
    work = tlc.scratch("vt-c31-run-")
    traces, meta = [], []

    def add(s, ow, pre, faults, tr, ops):
        shown = [[k, kind, ops.get(k, "?")] for k, kind in sorted(faults.items())]
        traces.append(tr)
        meta.append(dict(subject=s.name, overwrite=ow, pre=pre, faults=shown, writes=s.n))

    try:
        for gen in gens:
            for g in gnames:
                s = drv.Subject(gen, g, work)
                s.calibrate()
                if s.blind:
                    rep.note(f"{s.name}: the generator's I/O is not observable through `open` in textx.export / "
                             f"textx.generators; only clean runs are validated (silent I/O steps)")
                count = 0
                for ow in (False, True):
                    for pre in sorted(drv.TARGET_KINDS):
                        clean = s.scenario(ow, pre, None)
                        ops = {e["i"]: e["name"] for e in _first_run(clean)}
                        add(s, ow, pre, {}, clean, ops)
                        count += 1
                        ks = kinds if (full or (ow, pre) in PRIMARY) else ["OSError"]
                        for k in sorted(ops):
                            for kind in ks:
                                tr = s.scenario(ow, pre, {k: kind})
                                add(s, ow, pre, {k: kind}, tr, ops)
                                count += 1
                                if not (full or kind == "OSError"):
                                    continue
                                after = {e["i"]: e["name"] for e in _first_run(tr) if e["i"] > k}
                                for j in sorted(after):
                                    f2 = {k: kind, j: kind}
                                    add(s, ow, pre, f2, s.scenario(ow, pre, f2), {**ops, **after})
                                    count += 1
                rep.bounds.setdefault("subjects", {})[s.name] = dict(io_calls=s.nops, writes=s.n, scenarios=count)
    finally:
        shutil.rmtree(work, ignore_errors=True)
    return traces, meta


def _judge(rep, traces, meta, devs):
    base, runs = _validate(traces, "")
    for r in runs:
        rep.add_mc("TraceGenFile[Dev={}]", r, ["TraceNext consumes every event"])
    rejected = [i for i, (a, b) in base.items() if a < b]
    alt = {}
    if rejected:
        sub = [traces[i] for i in rejected]
        for d, fid in devs.items():
            g, runs2 = _validate(sub, d)
            for r in runs2:
                rep.add_mc(f"TraceGenFile[Dev={{{d}}}]", r, ["TraceNext consumes every event"])
            alt[fid] = {rejected[j]: v for j, v in g.items()}
    for i in sorted(base):
        reached, ln = base[i]
        m, tr = meta[i], traces[i]
        case = dict(m, trace=drv.short(tr))
        if reached == ln:
            rep.passed(case, nontrivial=bool(m["faults"]))
            continue
        fid = next((f for f, g in alt.items() if g[i][0] == g[i][1]), None)
        if fid:
            rep.known_finding(fid, case)
        else:
            e = tr["events"][reached]
            rep.violation(dict(kind="trace", meta=m, trace=tr, shown=drv.short(tr, reached + 1)),
                          f"{m['subject']} overwrite={m['overwrite']} target {m['pre']} failures "
                          f"{m['faults']}: event {reached + 1} {e} is not a step of GenFile!Next after "
                          f"{drv.short(tr, reached)}")


def run(rep):
    quick = rep.tier == "quick"
    rep.rule = ("I->S: for each built-in generator x input (incl. a multi-file model exported with its model "
                "repository), one run per (overwrite, kind of target: absent / old complete / symlink to an old "
                "complete output / dangling symlink, failing I/O call, kind of failure: OSError, ValueError "
                "(UnicodeEncodeError), TypeError, AttributeError, RuntimeError, KeyboardInterrupt, SystemExit, "
                "GeneratorExit) with the failure injected at every open/write/flush/close call observed in a clean "
                "run, plus a second failure at every call the code still makes after the first one; the output "
                "directory and the file behind the link inspected, and a re-run without overwrite; each recorded as "
                "a trace and validated by TLC against GenFile!Next. Non-trivial: a run with an injected failure.")
    rep.assumptions = [
        "the generators' output I/O is observed and failed through a wrapper installed as `open` in textx.export and "
        "textx.generators; a failing call has no effect on the file (the bytes of the failing write are not written)",
        "a target holds 'complete' content iff it equals what a clean run of the same generator on the same loaded "
        "model writes; 'old' iff it equals the pre-created older output; anything else is 'partial'",
        "the model / metamodel is loaded once per (generator, input); node names derived from id(object) are numbered "
        "by first appearance before contents are compared",
        "I/O calls made after an injected failure (closing the broken output, a retry or fallback) are recorded too; "
        "a Close of a broken output is its abandonment; the commit (Close of an intact output) is the last I/O step "
        "of a run and a run writes one output file",
        "a symlinked target points into a second scratch directory; `file` is the content seen through the path "
        "(links followed, as gen_file's os.path.exists does), `dest` the content of the file behind the link; whether "
        "a successful run writes through the link or replaces it is not judged",
    ]
    r = tlc.model_check("MC_GenFile", cfg="MC_GenFile.cfg", coverage=not quick)
    tlc.require_ok(r, "MC_GenFile")
    rep.add_mc("MC_GenFile", r, INVS)
    devs = {f["deviation"]: f["id"] for f in common.open_findings(PID) if f["deviation"] in KNOWN_DEVS}
    gnames = _inputs(with_big=not quick)
    kinds = sorted(drv.FAILURES)
    traces, meta = _record(rep, drv.GENERATORS, gnames, kinds, full=not quick)
    rep.bounds["failure_kinds"] = kinds
    rep.bounds["target_kinds"] = sorted(drv.TARGET_KINDS)
    _judge(rep, traces, meta, devs)
    rep.exhaustive = True
    rep.bounds["traces"] = dict(count=len(traces), events=sum(len(t["events"]) for t in traces))
    if not quick:
        for d, inv in (("Truncates", "AllOrNothing"), ("NoCleanup", "NothingPartialLeft")):
            r = tlc.model_check("MC_GenFile", cfg=f"MC_GenFile_Dev{d}.cfg")
            if r.violated is None:
                raise tlc.MachineryError(f"MC_GenFile with deviation {d} violated nothing")
            rep.note(f"Dev={d}: TLC reports {r.violated} violated")


def replay(path):
    with open(path) as f:
        rec = json.load(f)
    case = rec["case"]
    m = case["meta"]
    gen, g = m["subject"].split("/")
    _inputs(with_big=(g == "textx"))
    work = tlc.scratch("vt-c31-replay-")
    try:
        s = drv.Subject(gen, g, work)
        s.calibrate()
        tr = s.scenario(m["overwrite"], m["pre"], {int(k): kind for k, kind, _ in m["faults"]})
    finally:
        shutil.rmtree(work, ignore_errors=True)
    got, _ = _validate([tr], "")
    reached, ln = got[0]
    print("scenario", m)
    print("trace   ", drv.short(tr))
    print(f"GenFile accepts {reached} of {ln} events" + ("" if reached == ln else f"; stuck at {tr['events'][reached]}"))
    if reached < ln:
        for d, fid in sorted({f["deviation"]: f["id"] for f in common.open_findings(PID)
                              if f["deviation"] in KNOWN_DEVS}.items()):
            g, _ = _validate([tr], d)
            if g[0][0] == g[0][1]:
                print(f"explained by the listed deviation {d} ({fid})")
    return 0 if reached == ln else 1


META = dict(
    modules=["GenFile", "MC_GenFile", "TraceGenFile"],
    level_text=("GenFile.tla states the output-file protocol of a generator (skip unless overwrite, write elsewhere, "
                "commit on close, discard on failure) as a state machine; TLC checks all-or-nothing, nothing partial "
                "left behind, never skipping a partial file and overwrite-respected in every reachable state; every "
                "run of the three built-in generators with an I/O failure injected at each open/write/close call, "
                "followed by a directory listing and a re-run without overwrite, is recorded and validated by TLC as "
                "a behaviour of the specification."),
    level_note=("Failures are injected at the `open` wrapper level (a failing call writes nothing); 5 small "
                "grammars/models per generator (thorough: plus textX's own grammar); process kills and partial writes inside one write call are not "
                "modelled."),
    technique="TLC model checking of GenFile.tla + TLC trace validation of fault-injected generator runs",
)
