"""C34 -- editor-support positions identify references and objects exactly.

(M)    spec/LoaderProc.tla model-checked over every shape with <= 4 objects in 1-2 files x
       every assignment of targets, 1-3 part reference texts and postponement schedules to
       its references: C34_XrefSorted, C34_XrefOnce, C34_XrefExact, C34_DictInnermost,
       C34_DictInnerFirst, C34_DictByStart in every final state, and the machine agrees with
       the functions used as oracle;
(S->I) the TLC-enumerated scenarios (seeded sample in the quick tier) and seeded-random bigger
       forests (<= 14 objects, 1-3 files, <= 3 postponements) are rendered, loaded by the real
       textX with textx_tools_support=True, a scope provider that postpones per the schedule
       and resolves multi-part names, and model._pos_crossref_list / model._pos_rule_dict of
       every model of the load are compared with Xrefs / RuleDict evaluated by TLC on the
       rendered case.  Cases explained exactly by a listed deviation clause are KNOWN-FINDINGs.
"""
from __future__ import annotations

import itertools
import json
import random
import shutil

from .. import common, tlc
from ..drive import procs as D

PID = "C34"
INVS = ["ScenarioOK", "C34_XrefSorted", "C34_XrefOnce", "C34_XrefExact", "C34_DictInnermost",
        "C34_DictInnerFirst", "C34_DictByStart", "C34_Functions"]
XREF_DEVS = ["XrefsInResolutionOrder", "XrefEndFromTargetName"]
DICT_DEVS = ["RuleDictReverseSort", "RuleDictOuterOverwrites"]


def _mc(rep, max_objs, max_refs, max_postpone):
    """(M) over the scenario universe; the same run hands the universe out for the replay."""
    env = D.mc_env("c34", max_objs, 2, max_refs, max_postpone, emit=True)
    r = tlc.model_check("MC_LoaderProc", cfg="MC_LoaderProc_C34.cfg", env=env, timeout=3000)
    tlc.require_ok(r, "MC_LoaderProc_C34")
    rep.add_mc("MC_LoaderProc_C34", r, INVS)
    return r.results("SCEN")


def _subsets(names):
    out = []
    for k in range(1, len(names) + 1):
        out += [list(c) for c in itertools.combinations(names, k)]
    return out


def _devsets(open_devs):
    """[[]] + non-empty subsets of the listed xref clauses + of the listed dict clauses."""
    xs = _subsets([d for d in XREF_DEVS if d in open_devs])
    ds = _subsets([d for d in DICT_DEVS if d in open_devs])
    return [[]] + xs + ds, xs, ds


def _stored(case):
    return dict(rendered=dict(objs=case["objs"], refs=case["refs"], files=case["files"],
                              texts={str(k): v for k, v in case["texts"].items()}, matches=[]),
                user=bool(case.get("user")))


def _restore(c):
    case = dict(c["rendered"])
    case["texts"] = {int(k): v for k, v in case["texts"].items()}
    case["procs"], case["repl"] = [], []
    return case


def _judge_part(rep, case, part, observed, results, devsets, subsets, fid_of, nontrivial):
    """observed vs Expected(case, {}) ; else the smallest listed deviation set that explains it."""
    stored = dict(_stored(case), part=part)
    if common.canon(observed) == common.canon(results[0][part]):
        rep.passed(dict(part=part, texts=case["texts"]), nontrivial)
        return "pass"
    for d in subsets:
        k = devsets.index(d)
        if common.canon(observed) == common.canon(results[k][part]):
            for name in d:
                rep.known_finding(fid_of[name], stored)
            if nontrivial:      # a reproduced finding is a compared, non-trivial case as well
                rep.nontrivial.add(common.digest(dict(part=part, texts=case["texts"])))
            return "known"
    exp = results[0][part]
    why = f"{'_pos_crossref_list' if part == 'xrefs' else '_pos_rule_dict'} is {observed} but LoaderProc prescribes {exp}"
    for f, (o, e) in enumerate(zip(observed, exp), 1):
        if common.canon(o) != common.canon(e):
            what = "_pos_crossref_list" if part == "xrefs" else "_pos_rule_dict"
            why = f"{what} of file {f} is {o} but LoaderProc prescribes {e}"
            break
    rep.violation(dict(stored, observed=observed, expected=exp), why)
    return "violation"


def _run_batch(rep, batch, open_devs, fid_of):
    devsets, xs, ds = _devsets(open_devs)
    cases = [D.spec_view(c, id=str(i), want="c34", devsets=devsets) for i, (c, _) in enumerate(batch)]
    res, st = tlc.oracle("OracleLoaderProc", cases)
    rep.add_oracle("OracleLoaderProc[c34]", st)
    for i, (case, obs) in enumerate(batch):
        results = res[str(i)]["res"]
        if not obs["ok"] or "xrefs" not in obs:
            rep.violation(dict(_stored(case), observed=obs.get("err")),
                          f"loading failed: {obs.get('err')} {obs.get('exc', '')}")
            continue
        objs, refs = case["objs"], case["refs"]
        qualified = any(r["parts"] > 1 for r in refs) or any(r["sched"] > 0 for r in refs)
        starts = [(o["file"], o["start"]) for o in objs if o["kind"] != "Plain"]
        shared = len(set(starts)) < len(starts)
        _judge_part(rep, case, "xrefs", obs["xrefs"], results, devsets, xs, fid_of, nontrivial=qualified)
        _judge_part(rep, case, "rdict", obs["rdict"], results, devsets, ds, fid_of, nontrivial=shared and len(objs) >= 3)


def run(rep):
    quick = rep.tier == "quick"
    rng = random.Random(rep.seed)
    findings = common.open_findings(PID)
    open_devs = sorted({f["deviation"] for f in findings})
    fid_of = {f["deviation"]: f["id"] for f in findings}
    rep.rule = ("S->I: scenarios = TLC-enumerated shapes (<= 4 objects, 1-2 files) x targets x 1-3 part reference "
                "texts x postponement schedules (seeded sample of 900 in the quick tier, all in the thorough tier), "
                "plus seeded-random forests (<= 14 objects, 1-3 files, <= 3 postponements); each is rendered with "
                "seeded white space/comments, loaded with textx_tools_support=True, and _pos_crossref_list and "
                "_pos_rule_dict of every model of the load are each compared with TLC's evaluation of LoaderProc "
                "(two comparisons per load). Non-trivial: a qualified or postponed reference (cross-reference list); "
                ">= 3 objects with two objects starting at the same offset (rule dictionary); distinct by content.")
    rep.assumptions = [
        "carrier grammar and renderer of vt/drive/procs.py: a Model without header and a Grp start where their first "
        "content starts, a Box has exactly the span of its Cell; offsets are counted while the text is written",
        "the scope provider resolves a (possibly qualified) name by the suffix of the package path and answers "
        "Postponed as often as the schedule says; every round of the schedule resolves at least one reference; "
        "qualified names are also written with blanks around the dots (p2 . a), which belong to the reference text",
        "the rule dictionary's order is judged as a total order: later start first and, among spans starting "
        "together, the contained (shorter) one first -- the only order that is sorted by position as the shipped "
        "test_textx_tools_support requires and lists a span before every different span containing it",
        "entries are compared as (start, end, definition file base name, definition span); the name field is not judged",
        "no object processors are registered in this check",
        "in every other scenario definitions (DefA and DefB objects, i.e. of two classes) may share names: the same "
        "reference text then means different targets and the scenario says which one the provider answers",
        "a quarter to a third of the loads use user classes for Pkg, DefA and Use; the DefA class is container-like "
        "(__len__ = number of extended definitions), so a referenced DefA that extends nothing is a falsy object. "
        "User classes are not named in the property's quantifier; they only vary what a resolved target looks like",
    ]
    scns = _mc(rep, 4, 2, 1) if quick else _mc(rep, 4, 3, 2)
    scns = [s for s in scns if len(s["objs"]) >= 2]
    total = len(scns)
    if quick and len(scns) > 900:
        # the sample favours scenarios with references; every scenario in which three nested
        # objects have the same span is kept
        def triple(s):
            spans = [(o["file"], o["start"], o["end"]) for o in s["objs"] if o["kind"] != "Plain"]
            return any(spans.count(x) >= 3 for x in spans)
        forced = [s for s in scns if triple(s)]
        rest = [s for s in scns if not triple(s)]
        with_refs = [s for s in rest if s["refs"]]
        without = [s for s in rest if not s["refs"]]
        scns = forced + rng.sample(with_refs, min(len(with_refs), 700)) + rng.sample(without, min(len(without), 120))
    rep.exhaustive = len(scns) == total
    nrand = 250 if quick else 3000
    rep.bounds["scenarios"] = dict(enumerated=total, replayed=len(scns), random=nrand)
    work = tlc.scratch("vt-c34-")
    batch = []
    try:
        for k, s in enumerate(scns):
            # every other scenario: definitions (of both classes) may share names, so that equal
            # reference texts mean different targets; every fourth: user classes, whose DefA objects
            # are container-like and falsy when they extend nothing
            case = D.render(s, rng, collide=0.6 if k % 2 else 0.0)
            case["procs"], case["repl"], case["user"] = [], [], k % 4 == 0
            batch.append((case, D.load(case, work, tools=True, user=case["user"])))
        for k in range(nrand):
            s = D.random_scenario(rng, max_objs=rng.randint(4, 14), nfiles=rng.choice([1, 2, 2, 3]),
                                  max_postpone=rng.choice([0, 1, 2, 3]))
            case = D.render(s, rng, collide=0.5 if k % 2 else 0.0)
            case["procs"], case["repl"], case["user"] = [], [], k % 3 == 0
            batch.append((case, D.load(case, work, tools=True, user=case["user"])))
    finally:
        shutil.rmtree(work, ignore_errors=True)
    _run_batch(rep, batch, open_devs, fid_of)


def replay(path):
    with open(path) as f:
        rec = json.load(f)
    c = rec["case"]
    case = _restore(c)
    work = tlc.scratch("vt-c34-")
    try:
        obs = D.load(case, work, tools=True, user=bool(c.get("user")))
    finally:
        shutil.rmtree(work, ignore_errors=True)
    open_devs = sorted({f["deviation"] for f in common.open_findings(PID)})
    devsets, xs, ds = _devsets(open_devs)
    res, _ = tlc.oracle("OracleLoaderProc", [D.spec_view(case, id="0", want="c34", devsets=devsets)])
    results = res["0"]["res"]
    for k, v in sorted(case["texts"].items()):
        print(f"--- file {k}\n{v}")
    rc = 0
    for part, subsets in (("xrefs", xs), ("rdict", ds)):
        print(part, "observed:", obs.get(part))
        print(part, "expected:", results[0][part])
        if c.get("part", part) != part or common.canon(obs.get(part)) == common.canon(results[0][part]):
            continue
        known = [d for d in subsets if common.canon(obs.get(part)) == common.canon(results[devsets.index(d)][part])]
        if known:
            print(part, "explained by the listed deviation(s)", known[0], "(known finding)")
        else:
            rc = 1
    return rc


META = dict(
    modules=["LoaderProc", "LoaderProcCarrier", "MC_LoaderProc", "OracleLoaderProc"],
    level_text=("LoaderProc.tla models reference resolution rounds with postponement, the collection of "
                "cross-reference positions and the construction of the position map; TLC checks in every final "
                "state of every scenario of a bounded universe that each resolved reference is listed once, sorted "
                "by start, delimited by its text and pointing at the target's file and span, and that the position "
                "map holds the innermost object per span with every span before all different spans containing it. "
                "Real loads with textx_tools_support=True are compared entry by entry with TLC's evaluation of the "
                "same functions on the rendered case; the four known departures are named deviation clauses."),
    level_note=("Fixed carrier grammar with containers that share their start (and span) with their first content; "
                "bounded scenarios (<= 4 objects, <= 2/3 references, <= 2 postponements exhaustively in TLC; <= 14 "
                "objects seeded-random); the total order of the position map is fixed as later-start-first, "
                "contained-first; the entry's name field is not judged."),
    technique="TLC model checking of LoaderProc.tla + TLC-enumerated scenario replay with TLC oracle and named deviation clauses",
)
