"""C33 -- errors raised by processors carry the location of the processed text.

(M)    spec/LoaderProc.tla model-checked over every shape with <= 2 (quick) / 3 (thorough)
       objects x every failing site (each object processor call, each name match) x every row
       of the decision table (TextXError without location / with each subset of supplied
       fields / other exception) x textxerror_wrap on/off x string/file: C33_Located,
       C33_Nchar, C33_StopsAtFault;
(S->I) TLC-enumerated shapes and seeded-random bigger forests (1-3 files) are rendered, a
       seeded object or match is made to fail in each row of the table, the model is loaded by
       the real textX from a string and from files, and the raised error's class, filename,
       line, col and nchar are compared with ErrLoc evaluated by TLC on the rendered case
       (positions, lines and columns are read off the rendered text).
"""
from __future__ import annotations

import json
import random
import shutil

from .. import common, tlc
from ..drive import procs as D

PID = "C33"
INVS = ["ScenarioOK", "C33_Located", "C33_Nchar", "C33_StopsAtFault", "C13_Order"]
# which location fields the raised TextXError carries (at least one)
HAS = [(l, c, n, f) for l in (False, True) for c in (False, True) for n in (False, True) for f in (False, True)
       if l or c or n or f]


def _mc(rep, max_objs):
    env = D.mc_env("c33", max_objs, 2, 1, 0)
    r = tlc.model_check("MC_LoaderProc", cfg="MC_LoaderProc_C33.cfg", env=env, timeout=3000)
    tlc.require_ok(r, "MC_LoaderProc_C33")
    rep.add_mc("MC_LoaderProc_C33", r, INVS)


def _sites(case, rng, k):
    """Seeded failing sites of a rendered case: object processor calls and unambiguous matches."""
    objs = case["objs"]
    sites = []
    for i, o in enumerate(objs, 1):
        decl = o["kind"] if o["parent"] == 0 else \
            dict((s[0], s[2]) for s in D.SLOTS[objs[o["parent"] - 1]["kind"]])[o["slot"]]
        # a plain value is seen by the processor of the declared (abstract) rule only
        for r in sorted({decl} if o["kind"] == "Plain" else {o["kind"], decl}):
            sites.append(dict(proc="obj", obj=i, rule=r, mfile=o["file"], mline=0, mcol=0, mtext="", mocc=0))
    # a match is the mocc-th match of its rule with that text: names, every part of a (possibly
    # qualified) reference, whole references, plain Tag values
    ms = [dict(proc="match", obj=0, rule=m["rule"], mfile=m["file"], mline=m["line"], mcol=m["col"], mtext=m["text"],
               mocc=m["occ"]) for m in case["matches"]]
    plain = [x for x in sites if objs[x["obj"] - 1]["kind"] == "Plain"]
    # second and later parts of qualified references: inner matches of a composite match rule
    inner = [dict(proc="match", obj=0, rule="ID", mfile=m["file"], mline=m["line"], mcol=m["col"], mtext=m["text"],
                  mocc=m["occ"]) for m in case["matches"] if m.get("part", 0) >= 1]
    rng.shuffle(sites)
    rng.shuffle(ms)
    rng.shuffle(inner)
    half = max(1, k // 2)
    chosen = sites[:k - min(half, len(ms))] + (inner[:1] + ms)[:half]
    return chosen + plain[:1]


def _rows(rng, one_file):
    has = rng.choice(HAS)
    falsy = rng.random() < 0.4          # supplied values that are falsy in Python are values all the same
    vals = (0, 0, 0, "") if falsy else (77, 88, 99, "supplied.x")
    for exc in ("txnoloc", "txsome", "other"):
        for wrap in (False, True):
            for from_file in ((False, True) if one_file else (True,)):
                h = has if exc == "txsome" else (False, False, False, False)
                yield dict(exc=exc, wrap=wrap, hline=h[0], hcol=h[1], hnchar=h[2], hfile=h[3],
                           sline=vals[0], scol=vals[1], snchar=vals[2], sfile=vals[3]), from_file


def _observe(case, work, fault, grammar_file=False):
    obs = D.load(case, work, D.RULES, [], fault=fault, grammar_file=grammar_file)
    if obs["ok"]:
        return dict(cls="-", filename=D.NONE_FILE, line=D.NONE_NUM, col=D.NONE_NUM, nchar=D.NONE_NUM)
    return obs["err"]


def _norm(observed, expected):
    """Fields the module marks as not judged (nchar of match-processor errors, the location of a
    plain value) are taken out of the comparison."""
    o = dict(observed)
    for k in ("line", "col", "nchar"):
        if expected.get(k) == -1:
            o[k] = -1
    if expected.get("filename") == "<not judged>":
        o["filename"] = "<not judged>"
    return o


def _stored(case, fault, grammar_file=False):
    return dict(rendered=dict(objs=case["objs"], refs=case["refs"], files=case["files"],
                              texts={str(k): v for k, v in case["texts"].items()}, matches=[]), fault=fault,
                grammar_file=grammar_file)


def run(rep):
    quick = rep.tier == "quick"
    rng = random.Random(rep.seed)
    devs = {f["id"]: f["deviation"] for f in common.open_findings(PID)}
    rep.rule = ("S->I: for every rendered model (each TLC-enumerated shape with >= 2 objects, plus seeded-random "
                "forests of <= 12 objects in 1-3 files and three fixed forests with 2-3 part references) seeded failing sites (object processor of the own or the "
                "declared rule of an object; an ID or QName match whose text occurs once) x {TextXError without "
                "location, TextXError with a seeded non-empty subset of line/col/nchar/filename, ValueError} x "
                "textxerror_wrap on/off x load from string/file (string only for single-file models); the raised "
                "error's class, filename, line, col, nchar compared with ErrLoc evaluated by TLC. Non-trivial: the "
                "failing object or match is not at offset 0 of line 1, or fields were supplied; distinct by content.")
    rep.assumptions = [
        "carrier grammar and renderer of vt/drive/procs.py; line/column of every token are counted while the text "
        "is written",
        "every rule has a recording object processor, so both the own-rule and the declared-rule processor of any "
        "object are called; the failing processor raises TextXSemanticError (a TextXError) or ValueError",
        "a match site is an ID, QName or Tag match identified by its text and its occurrence number in processing "
        "order (files in load order, textual order within a file); parts of a qualified reference are ID matches "
        "located at their own start; about half of the failing sites are run with the grammar taken from a file",
        "supplied fields may be falsy values (0, ''): they are values, not 'no location'; an error raised for a plain "
        "value (match-rule alternative of an abstract rule) has no location to be judged",
        "nchar of errors from match-rule processors is not judged (the property speaks of object processors); "
        "a non-TextXError without textxerror_wrap is expected to propagate unchanged",
        "filename is compared by base name; a string load has no file name",
        "the metamodel (one built from the grammar string, one from the grammar file) is reused for all loads of "
        "the run, as an application does: every load, not only the first one with a metamodel, must locate its error",
    ]
    _mc(rep, 2 if quick else 3)
    r, shapes = D.emit_shapes(tlc, 3 if quick else 4, max_refs=2)
    rep.add_mc("MC_LoaderProc_Emit[shapes]", r, ["(scenario emission)"])
    shapes = [s for s in shapes if len(s["objs"]) >= 2]
    nshape, nrand, per_model = (36, 18, 2) if quick else (400, 120, 4)
    if len(shapes) > nshape:
        shapes = rng.sample(shapes, nshape)
    scns = D.qualified_templates() + list(shapes) + [D.random_scenario(rng, max_objs=rng.randint(5, 12), nfiles=rng.choice([1, 2, 3]),
                                             max_postpone=1) for _ in range(nrand)]
    work = tlc.scratch("vt-c33-")
    batch = []
    try:
        for s in scns:
            nfiles = max(o["file"] for o in s["objs"])
            base = D.render(dict(s, files=["main.m"]), random.Random(rng.randrange(1 << 30)))
            for sno, site in enumerate(_sites(base, rng, per_model)):
                gfile = rng.random() < 0.5      # for about half of the sites the grammar comes from a file
                for row, from_file in _rows(rng, nfiles == 1):
                    case = dict(base, files=["main.m" if from_file else ""] + base["files"][1:])
                    fault = dict(D.NO_FAULT, on=True, **row)
                    fault.update(site)
                    case["procs"], case["repl"], case["fault"] = list(D.RULES), [], fault
                    batch.append((case, fault, _observe(case, work, fault, gfile), gfile))
    finally:
        shutil.rmtree(work, ignore_errors=True)
    devsets = [[]] + [[d] for d in sorted(set(devs.values()))]
    cases = [D.spec_view(c, id=str(i), want="c33", devsets=devsets) for i, (c, _, _, _) in enumerate(batch)]
    res, st = tlc.oracle("OracleLoaderProc", cases)
    rep.add_oracle("OracleLoaderProc[c33]", st)
    for i, (case, fault, obs, gfile) in enumerate(batch):
        e = res[str(i)]["res"]
        expected = e[0]
        devexp = {fid: e[1 + sorted(set(devs.values())).index(d)] for fid, d in devs.items()}
        site = case["objs"][fault["obj"] - 1] if fault["proc"] == "obj" else dict(line=fault["mline"], col=fault["mcol"])
        nontrivial = (site["line"], site["col"]) != (1, 1) or fault["exc"] == "txsome"
        o = _norm(obs, expected)
        common.judge(rep, dict(_stored(case, fault, gfile), expected=expected), o, expected,
                     {fid: x for fid, x in devexp.items()}, nontrivial=nontrivial,
                     why=f"{fault['proc']} processor of {fault['rule']} "
                         f"({'object ' + str(fault['obj']) if fault['proc'] == 'obj' else repr(fault['mtext'])}) raising "
                         f"{fault['exc']}{' through textxerror_wrap' if fault['wrap'] else ''} "
                         f"({'file' if case['files'][0] else 'string'} load): error is {o} but ErrLoc prescribes {expected}")
    rep.bounds["loads"] = dict(models=len(scns), sites_per_model=per_model, rows=12, loads=len(batch))
    rep.exhaustive = False


def replay(path):
    with open(path) as f:
        rec = json.load(f)
    c = rec["case"]["case"] if "case" in rec["case"] else rec["case"]
    case = dict(c["rendered"])
    case["texts"] = {int(k): v for k, v in case["texts"].items()}
    fault = c["fault"]
    case["procs"], case["repl"], case["fault"] = list(D.RULES), [], fault
    work = tlc.scratch("vt-c33-")
    try:
        obs = _observe(case, work, fault, c.get("grammar_file", False))
    finally:
        shutil.rmtree(work, ignore_errors=True)
    devs = sorted({f["deviation"] for f in common.open_findings(PID)})
    res, _ = tlc.oracle("OracleLoaderProc", [D.spec_view(case, id="0", want="c33", devsets=[[]] + [[d] for d in devs])])
    exp = res["0"]["res"][0]
    for k, v in sorted(case["texts"].items()):
        print(f"--- file {k}\n{v}")
    print("fault:", fault)
    print("observed:", obs)
    print("expected:", exp)
    if common.canon(_norm(obs, exp)) == common.canon(exp):
        return 0
    for d, e in zip(devs, res["0"]["res"][1:]):
        if common.canon(_norm(obs, e)) == common.canon(e):
            print(f"explained by the listed deviation {d} (known finding): {e}")
            return 0
    return 1


META = dict(
    modules=["LoaderProc", "LoaderProcCarrier", "MC_LoaderProc", "OracleLoaderProc"],
    level_text=("LoaderProc.tla contains the error-location decision table ErrLoc ({object, match processor} x "
                "{TextXError without location, with some fields, other exception} x textxerror_wrap x string/file) "
                "and the processor phase in which it is applied; TLC checks over every failing site of every small "
                "shape and every table row that the error is located at the processed object or match, that supplied "
                "fields are kept and that nchar is the object's length. Real loads with a seeded failing processor "
                "are compared field by field with ErrLoc evaluated by TLC on the rendered case."),
    level_note=("Fixed carrier grammar; failing sites and table rows are seeded samples per model in S->I (the TLC "
                "run covers all sites and rows for <= 2/3 objects); nchar of match-processor errors not judged; "
                "line/column expectations come from the renderer's own token bookkeeping."),
    technique="TLC model checking of LoaderProc.tla + fault injection into real loads compared with a TLC-evaluated decision table",
)
