"""C04 -- built-in base types convert text to values faithfully.

(M)    spec/BaseTypes.tla (regexes of textx/lang.py as Regex.tla ASTs, NUMBER/BASETYPE as ordered
       choice, symbolic conversions) with the design theorems of MC_BaseTypes.tla checked by TLC on
       every case of four bounded universes: STRING round trip (all strings over {a, space, ', ",
       \\, newline} up to a length bound, both quotes, a second string following on the same line),
       BOOL spellings, numeric literal forms (INT / FLOAT / STRICTFLOAT / NUMBER: which matches, how far);
(S->I) the same TLC runs print every case with the module's answer; each is pushed through real
       textX meta-models (`v*=STRING`, `x=INT`, `x=NUMBER`, `a=NUMBER b=ID`, ...) and accept/reject,
       matched extent, Python type and value are compared with the module's answer;
(I->S) seeded-random long / unicode strings, ints up to 10**40 and floats in every printed form are
       run through textX and judged by TLC evaluating the module (OracleBaseTypes.tla).
"""
from __future__ import annotations

import gc
import hashlib
import json
import os
import random
import time
from concurrent.futures import ThreadPoolExecutor

from .. import common, tlc
from ..drive.basetypes import Carriers, codes_of, expected_shape, observe, text_of

PID = "C04"
THEOREMS = ["StringRoundTrip", "BoolSpellingsThm", "IntLiterals", "FloatLiterals", "StrictNeverInt",
            "LookbehindRedundant"]
NUM_RULES = ["INT", "FLOAT", "STRICTFLOAT", "NUMBER", "BASETYPE"]     # = NumRules of MC_BaseTypes
BOOL_RULES = ["BOOL", "BASETYPE", "ID"]                               # = BoolRules
# deviation clause of BaseTypes -> theorem it breaks (module not vacuous; rule 6)
DEV_BREAKS = {"UnescapeBothQuotes": ("str", "StringRoundTrip"), "NumberIntFirst": ("num", "FloatLiterals"),
              "BoolNoLower": ("bool", "BoolSpellingsThm")}


# ------------------------------------------------------------------ TLC-enumerated universes
def _spec_digest():
    h = hashlib.sha1()
    for m in META["modules"]:
        for ext in (".tla", ".cfg"):
            f = os.path.join(tlc.SPEC, m + ext)
            if os.path.exists(f):
                h.update(open(f, "rb").read())
    return h.hexdigest()[:16]


def _cached(key, compute):
    """TLC answers do not depend on the code under test; with VT_TLC_CACHE=<dir> they are kept between
    runs (used for the sensitivity runs against mutated copies of textX).  Keyed by the spec text."""
    d = os.environ.get("VT_TLC_CACHE")
    if not d:
        return compute()
    os.makedirs(d, exist_ok=True)
    f = os.path.join(d, f"{PID}-{_spec_digest()}-{common.digest(key)}.json")
    if os.path.exists(f):
        with open(f) as fh:
            return json.load(fh)
    out = compute()
    with open(f + ".tmp", "w") as fh:
        json.dump(out, fh)
    os.replace(f + ".tmp", f)
    return out


def _universe_runs(plan, dev=""):
    """plan: [(kind, l1, l2, nshards)] -> {kind: [cases, stats]}; all shards in parallel."""
    jobs = [(kind, l1, l2, n, s) for (kind, l1, l2, n) in plan for s in range(n)]

    def one(job):
        kind, l1, l2, n, s = job
        return tlc.model_check("MC_BaseTypes", env=dict(VT_KIND=kind, VT_L1=l1, VT_L2=l2, VT_SHARD=s,
                                                        VT_NSHARDS=n, VT_DEV=dev), workers=1, timeout=3000)

    def compute():
        with ThreadPoolExecutor(max_workers=tlc.NCPU) as ex:
            rs = list(ex.map(one, jobs))
        out = {}
        for job, r in zip(jobs, rs):
            tlc.require_ok(r, f"MC_BaseTypes kind={job[0]} shard={job[4]}/{job[3]}")
            cases = r.results("CASE")
            if len(cases) != r.distinct:
                raise tlc.MachineryError(f"MC_BaseTypes {job}: {r.distinct} states but {len(cases)} printed cases")
            e = out.setdefault(job[0], [[], dict(distinct=0, generated=0, depth=0, wall_s=0.0, cmd="", shards=0)])
            e[0].extend(cases)
            st = e[1]
            st.update(distinct=st["distinct"] + r.distinct, generated=st["generated"] + r.generated,
                      depth=max(st["depth"], r.depth), wall_s=max(st["wall_s"], r.wall_s), cmd=r.cmd,
                      shards=st["shards"] + 1)
        return out

    return _cached(["universe", plan, dev], compute)


class _Agg:
    """several single-worker TLC runs of one universe reported as one (M) entry"""

    def __init__(self, st):
        self.distinct, self.generated, self.depth, self.wall_s = st["distinct"], st["generated"], st["depth"], st["wall_s"]
        self.cmd = st["cmd"] + f"   (x{st['shards']} shards, VT_SHARD=0..{st['shards'] - 1})"
        self.coverage = {}


# ------------------------------------------------------------------ comparing one case
def _judge(rep, cars, mode, rules, text_codes, exp_ok, exp_ms, nontrivial, what, extra=None):
    text = text_of(text_codes)
    run = cars.run(mode, rules, text)
    obs = observe(run, exp_ms)
    exp = expected_shape(exp_ok, exp_ms if exp_ok else [], with_plain=(mode == "many" and exp_ok is True))
    case = dict(mode=mode, rules=rules, text=text_codes)
    if cars.opts:
        case["opts"] = cars.opts
    if extra:
        case.update(extra)
    with_ = f" [meta-model options {cars.opts}]" if cars.opts else ""
    return common.judge(rep, case, obs, exp, None, nontrivial=nontrivial,
                        why=f"{what}{with_}: textX on {text!r} with {mode}({','.join(rules)}) gave {_short(obs)} "
                            f"but BaseTypes.tla prescribes {_short(exp)}")


def _short(o):
    def val(m):
        return dict(m, val=bool(m["val"][0]) if m.get("type") == "bool" and m["val"] else text_of(m["val"]))
    return json.dumps(dict(o, ms=[val(m) for m in o["ms"]]), ensure_ascii=True)[:300]


def _interesting(codes):
    return any(c in (34, 39, 92, 10) for c in codes)


# The base types are documented independently of the meta-model options, so the same answers are
# demanded under each of these (use_regexp_group consults the capturing groups of the very regexes
# under test).  Two options change what the *carrier* does, and only there cases are left out:
#   skipws=False  nothing is skipped between matches -> only texts whose matches are contiguous;
#   ignore_case   the BOOL spellings become case-insensitive by design -> the BOOL universe is left out.
OPTION_SETS = [
    ("use_regexp_group", dict(use_regexp_group=True)),
    ("ignore_case", dict(ignore_case=True)),
    ("autokwd", dict(autokwd=True)),
    ("skipws_off", dict(skipws=False)),
    ("memoization", dict(memoization=True)),
    ("group+autokwd+memo", dict(use_regexp_group=True, autokwd=True, memoization=True)),
]


def _contiguous(text_codes, ok, ms):
    """the module's matches cover the text without gaps (no white space needs skipping)"""
    if not ok:
        return not text_codes or text_codes[0] not in (9, 10, 13, 32)
    pos = 0
    for m in ms:
        if m["beg"] != pos:
            return False
        pos = m["end"]
    return pos == len(text_codes)


def _applies(cars, mode, text_codes, ok, ms):
    if cars.opts.get("skipws", True) is False:
        if mode == "one":       # whatever follows the match is taken by the carrier's Tail rule
            return not text_codes or text_codes[0] not in (9, 10, 13, 32)
        return _contiguous(text_codes, ok, ms)
    return True


def _replay_universes(rep, cars, uni, frac=None, rng=None):
    """frac: {"strings": f, "num": f}: seeded sample of the universes (None = all)"""
    n = {}
    label = "" if not cars.opts else " under options"

    def take(kind):
        return frac is None or rng.random() < frac[kind]

    for c in uni.get("str", ([], []))[0] + uni.get("pair", ([], []))[0]:
        if not take("strings") or not _applies(cars, "many", c["text"], c["ok"], c["ms"]):
            continue
        _judge(rep, cars, "many", ["STRING"], c["text"], c["ok"], c["ms"],
               nontrivial=c["ok"] and any(_interesting(w) for w in c["want"]), what="STRING universe" + label,
               extra=dict(want=c["want"]))
        n["strings"] = n.get("strings", 0) + 1
    for c in uni.get("num", ([], []))[0]:
        if not take("num"):
            continue
        for rule, m in zip(NUM_RULES, c["one"]):
            if _applies(cars, "one", c["text"], m["ok"], [m]):
                _judge(rep, cars, "one", [rule], c["text"], m["ok"], [m], nontrivial=m["ok"],
                       what="literal form" + label)
        if _applies(cars, "seq", c["text"], c["seqok"], c["seq"]):
            _judge(rep, cars, "seq", ["NUMBER", "ID"], c["text"], c["seqok"], c["seq"], nontrivial=c["seqok"],
                   what="literal form then ID" + label)
        n["literal_forms"] = n.get("literal_forms", 0) + 1
    if not cars.opts.get("ignore_case"):
        for c in uni.get("bool", ([], []))[0]:
            for rule, m in zip(BOOL_RULES, c["one"]):
                if _applies(cars, "one", c["text"], m["ok"], [m]):
                    _judge(rep, cars, "one", [rule], c["text"], m["ok"], [m], nontrivial=m["ok"],
                           what="BOOL spelling" + label)
            n["bool_forms"] = n.get("bool_forms", 0) + 1
    return n


# ------------------------------------------------------------------ seeded-random cases (I->S)
_POOL = ([34, 39, 92] * 6 + [10, 32, 9, 97, 98, 122, 48, 95, 46] * 2 +
         [0xE9, 0x3A9, 0x4E2D, 0x1F600, 0xA0, 0x2028, 0x7F, 0x1, 0x10FFFF, 0xFF3C, 0x2019, 0x201C, 13, 0, 0x85])


def _rand_string(rng, maxlen, unicode_heavy):
    n = rng.randrange(0, maxlen + 1)
    if unicode_heavy:
        w = [rng.choice(_POOL) if rng.random() < 0.6 else rng.choice([rng.randrange(0x20, 0x7F),
                                                                       rng.randrange(0xA0, 0x3000),
                                                                       rng.randrange(0x10000, 0x10400)])
             for _ in range(n)]
    else:
        w = [rng.choice(_POOL[:36]) for _ in range(n)]
    while w and w[-1] == 92:          # the property excludes strings ending in a backslash
        w.pop()
    return w


def _string_cases(rng, count, maxlen):
    cases = []
    for k in range(count):
        nparts = rng.choice([1, 1, 2, 3])
        parts = [dict(q=rng.choice([34, 39]), s=_rand_string(rng, maxlen, rng.random() < 0.5))
                 for _ in range(nparts)]
        sep = rng.choice([[32], [32], [], [9], [32, 32]])
        cases.append(dict(id=f"s{k}", mode="enc", rules=["STRING"], parts=parts, sep=sep))
    return cases


def _float_forms(rng, v):
    forms = [repr(v), "%e" % v, "%E" % v, "%.17g" % v, "%g" % v, "%r" % v, "%.3e" % v, "%+.10e" % v]
    if abs(v) < 1e60:
        forms += ["%f" % v, "%.1f" % v, "%+f" % v]
    if v == int(v) and abs(v) < 1e15:
        forms += ["%d." % int(v), "%de0" % int(v), "%dE+0" % int(v)]
    if 0 < abs(v) < 1 and "e" not in repr(v):
        forms.append(repr(v).replace("0.", ".", 1))
    return forms


def _rand_float(rng):
    k = rng.randrange(6)
    if k == 0:
        return rng.uniform(-1e3, 1e3)
    if k == 1:
        return rng.uniform(-1, 1) * 10.0 ** rng.randrange(-320, 308)
    if k == 2:
        return float(rng.randrange(-10 ** 6, 10 ** 6))
    if k == 3:
        return rng.choice([0.0, -0.0, 5e-324, 1.7976931348623157e308, 2.2250738585072014e-308, 0.1, 1e22, 1e23,
                           1e16, 123456789012345678.0, 1e-5, 0.0001])
    if k == 4:
        return rng.randrange(1, 10 ** 17) / 10.0 ** rng.randrange(0, 30)
    import struct
    while True:
        x = struct.unpack("<d", struct.pack("<Q", rng.getrandbits(64)))[0]
        if x == x and x not in (float("inf"), float("-inf")):
            return x


def _number_cases(rng, n_int, n_float):
    """(oracle case, python value the text was printed from, the rule it goes through)"""
    out = []
    k = 0
    for _ in range(n_int):
        mag = rng.choice([rng.randrange(0, 10), rng.randrange(0, 10 ** 6), rng.randrange(0, 2 ** 70),
                          rng.randrange(0, 10 ** 40), 10 ** rng.randrange(0, 41), 2 ** 31, 2 ** 63])
        v = mag if rng.random() < 0.5 else -mag
        txt = str(v)
        if rng.random() < 0.15 and v >= 0:
            txt = "+" + txt
        if rng.random() < 0.1:
            txt = (txt[0] if txt[0] in "+-" else "") + "00" + txt.lstrip("+-")
        fol = rng.choice(["", "", " ", "\n", " x", ","])
        for rule in ("INT", "NUMBER", "BASETYPE", "FLOAT"):
            out.append((dict(id=f"n{k}", mode="one", rules=[rule], text=codes_of(txt + fol)), v, txt))
            k += 1
        out.append((dict(id=f"n{k}", mode="seq", rules=["NUMBER", "ID"], text=codes_of(txt + " " + "abc")), v, txt))
        k += 1
    for _ in range(n_float):
        v = _rand_float(rng)
        forms = _float_forms(rng, v)
        for txt in rng.sample(forms, min(3, len(forms))):
            fol = rng.choice(["", "", " ", "\n", " x", ","])
            for rule in ("FLOAT", "STRICTFLOAT", "NUMBER", "BASETYPE"):
                out.append((dict(id=f"n{k}", mode="one", rules=[rule], text=codes_of(txt + fol)), float(txt), txt))
                k += 1
    return out


def _random_cases(rep, rng, n_str, maxlen, n_int, n_float):
    scases = _string_cases(rng, n_str, maxlen)
    ncases = _number_cases(rng, n_int, n_float)
    allc = scases + [c for c, _, _ in ncases]
    res, st = _cached(["random", allc], lambda: list(tlc.oracle("OracleBaseTypes", allc, env=dict(VT_DEV=""))))
    rep.add_oracle("OracleBaseTypes", st)
    return scases, ncases, res


def _random_judge(rep, cars, scases, ncases, res, frac=None, rng=None):
    label = "" if not cars.opts else " under options"
    ns = nn = 0
    for c in scases:
        r = res[c["id"]]
        want = [p["s"] for p in c["parts"]]
        if not r["thm"]:
            if not cars.opts:
                rep.violation(dict(case=c, module=r), "BaseTypes.tla itself does not read this string back "
                                                      "(round-trip theorem fails on the case)")
            continue
        if (frac is not None and rng.random() >= frac) or not _applies(cars, "many", r["text"], r["ok"], r["ms"]):
            continue
        _judge(rep, cars, "many", ["STRING"], r["text"], r["ok"], r["ms"],
               nontrivial=any(_interesting(w) for w in want), what="random strings" + label, extra=dict(want=want))
        ns += 1
    for c, v, lit in ncases:
        r = res[c["id"]]
        if (frac is not None and rng.random() >= frac) or not _applies(cars, c["mode"], c["text"], r["ok"], r["ms"]):
            continue
        nn += 1
        verdict = _judge(rep, cars, c["mode"], c["rules"], c["text"], r["ok"], r["ms"], nontrivial=r["ok"],
                         what="random number" + label, extra=dict(literal=lit))
        # the property itself: the literal read whole by a rule of its kind gives back the value it was
        # printed from (harness comparison, DESIGN.md section 8)
        if verdict == "pass" and r["ok"] and r["ms"][0]["end"] == len(lit):
            got = cars.run(c["mode"], c["rules"], text_of(c["text"]))["ms"][0]["v"]
            same = (got == v) and (isinstance(got, float) == (r["ms"][0]["rule"] in ("FLOAT", "STRICTFLOAT")))
            if isinstance(v, int) and r["ms"][0]["rule"] in ("FLOAT", "STRICTFLOAT"):
                same = got == float(lit)
            if not same:
                rep.violation(dict(case=dict(c, opts=cars.opts), literal=lit, value=repr(v), got=repr(got)),
                              f"literal {lit!r} printed from {v!r} came back as {got!r}" +
                              (f" [meta-model options {cars.opts}]" if cars.opts else ""))
    return ns, nn


# ------------------------------------------------------------------ entry points
def run(rep):
    quick = rep.tier == "quick"
    rng = random.Random(rep.seed)
    rep.rule = ("S->I: every case of the TLC-checked universes (strings over {a,space,',\",\\,newline} not ending "
                "in a backslash written between either quote, alone and followed by a second string; BOOL "
                "spellings x following text; numeric literal forms sign x integer part x fraction x exponent x "
                "following text) through real textX meta-models, compared with the module's accept/reject, span, "
                "type and value. I->S: seeded-random strings (long, unicode), ints up to 10**40 and floats in "
                "repr/%e/%f/%g forms judged by TLC; a seeded sample of all of these again under the meta-model options "
                "use_regexp_group, ignore_case, autokwd, skipws=False, memoization (same answers demanded). Non-trivial: the input is accepted and (strings) contains a "
                "quote, backslash or newline; distinct by (grammar, text).")
    rep.assumptions = [
        "code points >= 128 belong to no character class of the module (\\w, \\d are ASCII there); the harness "
        "uses non-ASCII characters only inside quoted strings, where no rule consults a class",
        "whitespace skipped between matches is the textX default (tab, newline, carriage return, space)",
        "value equality of floats is a harness comparison with float(<the literal the module says was matched>)",
        "under skipws=False only texts whose matches are contiguous are used, under ignore_case the BOOL universe is "
        "left out (its spellings become case-insensitive by design); otherwise the options must not change any answer",
        "spans are observed by wrapping the base type in a one-attribute rule (V: x=R) and reading _tx_position(_end); "
        "for v*=STRING the plain grammar of the property statement is run as well and must give the same values",
    ]
    phase, t0 = {}, time.time()

    def lap(name):
        nonlocal t0
        phase[name] = round(time.time() - t0, 1)
        t0 = time.time()

    # (M) + emission
    plan = [("bool", 0, 0, 1), ("num", 0, 0, 4)]
    plan += [("str", 5, 0, 4), ("pair", 3, 2, 8)] if quick else [("str", 6, 0, 8), ("pair", 4, 2, 16)]
    uni = _universe_runs(plan)
    for kind, (cases, st) in uni.items():
        rep.add_mc(f"MC_BaseTypes[{kind}]", _Agg(st), THEOREMS)
        l1, l2 = next(p[1:3] for p in plan if p[0] == kind)
        rep.bounds[f"universe_{kind}"] = dict(cases=len(cases), L1=l1, L2=l2)
    lap("tlc_universes")
    cars = Carriers()
    gc.collect()
    gc.freeze()          # the enumerated universes stay; spare the collector re-walking them during the replay
    rep.bounds["replayed"] = _replay_universes(rep, cars, uni)
    rep.exhaustive = True
    lap("textx_universes")
    # (I->S)
    scases, ncases, res = _random_cases(rep, rng, *((1500, 80, 150, 300) if quick else (6000, 300, 3000, 6000)))
    ns, nn = _random_judge(rep, cars, scases, ncases, res)
    rep.bounds["random"] = dict(string_cases=ns, number_cases=nn)
    lap("random_pass")
    # the same answers under non-default meta-model options
    under = {}
    for name, opts in OPTION_SETS:
        ocars = Carriers(opts)
        full = (not quick) or name == "use_regexp_group"
        got = _replay_universes(rep, ocars, uni, frac=None if not quick else dict(
            strings=0.04, num=1.0 if full else 0.25), rng=rng)
        rs, rn = _random_judge(rep, ocars, scases, ncases, res, frac=None if full else 0.3, rng=rng)
        under[name] = dict(opts=opts, universes=got, random_strings=rs, random_numbers=rn)
    rep.bounds["under_options"] = under
    lap("options")
    rep.extra["phase_wall_s"] = phase          # where the time went (not used in any verdict)


def replay(path):
    with open(path) as f:
        rec = json.load(f)
    case = rec["case"].get("case", rec["case"])
    if "mode" not in case:
        print("stored record is not a parse case:", rec.get("why"))
        return 1
    if case["mode"] == "enc":
        oc = dict(id="r", mode="enc", rules=case["rules"], parts=case["parts"], sep=case["sep"])
    else:
        oc = dict(id="r", mode=case["mode"], rules=case["rules"], text=case["text"])
    res, _ = tlc.oracle("OracleBaseTypes", [oc], env=dict(VT_DEV=""))
    r = res["r"]
    cars = Carriers(case.get("opts"))
    if cars.opts:
        print("meta-model options", cars.opts)
    mode = "many" if oc["mode"] == "enc" else oc["mode"]
    run_ = cars.run(mode, oc["rules"], text_of(r["text"]))
    obs = observe(run_, r["ms"])
    exp = expected_shape(r["ok"], r["ms"] if r["ok"] else [], with_plain=(mode == "many" and r["ok"] is True))
    print("text    ", repr(text_of(r["text"])))
    print("textX   ", _short(obs))
    print("module  ", _short(exp))
    return 0 if common.canon(obs) == common.canon(exp) and r["thm"] else 1


def selftest():
    """The module is not vacuous: each deviation clause of BaseTypes breaks its theorem in the (M) model."""
    bad = 0
    for dev, (kind, thm) in DEV_BREAKS.items():
        r = tlc.model_check("MC_BaseTypes", env=dict(VT_KIND=kind, VT_L1=3, VT_L2=0, VT_SHARD=0, VT_NSHARDS=1,
                                                     VT_DEV=dev), workers=1)
        print(f"Dev={{{dev}}} universe={kind}: violated={r.violated} (expected {thm})")
        bad += r.violated != thm
    return 1 if bad else 0


META = dict(
    modules=["Regex", "BaseTypes", "MC_BaseTypes", "OracleBaseTypes"],
    level_text=("BaseTypes.tla states the base-type regular expressions of textx/lang.py as ASTs of a backtracking "
                "regex semantics (Regex.tla), NUMBER/BASETYPE as ordered choice and the conversions symbolically; "
                "TLC checks the round-trip / spelling / literal-form theorems on every case of bounded universes, "
                "every one of those cases is pushed through real textX meta-models and compared (accept/reject, "
                "span, type, value), and seeded-random long/unicode strings, big ints and floats in all printed "
                "forms run through textX are judged by TLC evaluating the module."),
    level_note=("Strings over a 6-character alphabet up to length 5 (quick) / 6 (thorough) and pairs up to 3+2 / 4+2; "
                "numeric value equality of floats is compared by the harness against float(matched literal), "
                "TLA+ decides which rule matches and the span; character classes are ASCII in the module."),
    technique="TLC model checking of BaseTypes.tla theorems + exhaustive case replay + TLC-evaluated oracle on random cases",
)
