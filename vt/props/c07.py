"""C07 -- default reference resolution finds the unique matching object.

(M)    spec/Nav.tla `Plain`: TLC builds every model of the carrier meta-model MM7
       (abstract Base = Sub1 | Sub2, unrelated Other, Any = Base | Alt and
       Alt = Any | Sub2 | Other forming a diamond and a cycle, reference holders
       with single/list attributes and concrete/abstract targets, names {x, y})
       up to a bound and checks the four-outcome theorem, conformance and the
       load theorem in every state (MC_Nav.tla).
(S->I) every enumerated model x every builtins subset of {x: Sub1, y: Other} is
       rendered (list elements in a seeded order; names written as ID, as INT with
       x = 0, or as STRING with x = "", i.e. falsy names), loaded with
       metamodel_from_str(grammar, builtins=...), and the resolved targets
       (object identity by containment path / builtin identity) or the raised
       TextXSemanticError (kind, name, class, err_type) are compared with what
       TLC computes from Nav.tla (NavOracle.tla).
(I->S) seeded-random bigger nested models judged the same way.
"""
from __future__ import annotations

import json
import random
import re

from .. import common, tlc
from ..drive import nav

PID = "C07"
THEOREMS = ["TWellFormed", "TConforms", "TPlain", "TLoad"]
DEV_BREAKS = {"NoTypeTest": ("TPlain",), "BuiltinsFirst": ("TPlain",), "FirstMatch": ("TPlain",),
              "ClassNameOnly": ("TConforms", "TWellFormed", "TPlain")}
BUILTIN_POOL = [dict(name="x", cls="Sub1"), dict(name="y", cls="Other")]
BUILTIN_SETS = [[], [BUILTIN_POOL[0]], [BUILTIN_POOL[1]], BUILTIN_POOL]
USER_CLASSES = ["Sub1", "Other"]
NAMETYPES = ["ID", "INT", "STRING"]
STYLES = ["sep", "rep"]      # how the grammar writes a list of references (nav.grammar_of)

_UNKNOWN = re.compile(r'^Unknown object "(.*)" of class "(.*)"$')
_NOTUNIQUE = re.compile(r"^name (.*) is not unique\.$")


# ------------------------------------------------------------------ real side

def _user_class(n):
    def init(self, **kw):
        for k, v in kw.items():
            setattr(self, k, v)
    return type(n, (), {"__init__": init})


class Real:
    """Real meta-models for a carrier (one per variant and builtins set, rebuilt now and then)."""

    def __init__(self, mm):
        self.mm = mm
        self.cache = {}
        self.failures = {}
        self.past_done = set()

    def _past(self, nametype, style):
        """Before the meta-model under test is built, the process has used other languages with the same rule
        names but another inheritance between them (an earlier version of the grammar): every named class is
        referenced once through every reference attribute, successfully or not."""
        from textx import metamodel_from_str
        from textx.exceptions import TextXSemanticError
        for shift in (1, 2):
            old = nav.decoy_hierarchy(self.mm, shift)
            old_mm = metamodel_from_str(nav.grammar_of(old, nametype, style))
            root_attr = next(a for a in nav.class_of(old, old["root"])["attrs"] if a["cont"] and a["many"])
            for c in old["classes"]:
                if not c["named"]:
                    continue
                for h in old["classes"]:
                    for a in h["attrs"]:
                        if a["cont"] or h["name"] == old["root"]:
                            continue
                        g = nav.empty_graph()
                        r = nav.add_object(old, g, old["root"], "")
                        nav.add_object(old, g, c["name"], "y", r, root_attr["name"])
                        u = nav.add_object(old, g, h["name"], "", r, root_attr["name"])
                        next(x for x in g["refs"][u - 1] if x["a"] == a["name"])["names"].append("y")
                        try:
                            old_mm.model_from_str(nav.render(old, g, nametype))
                        except TextXSemanticError:
                            pass

    def metamodel(self, variant, B, nametype, style="sep"):
        """(meta-model, {abstract builtin name: object}).  The builtins dict is keyed by the value textX
        gives a reference text of that name (0 for INT names, "" for the empty STRING name)."""
        from textx import metamodel_from_str
        key = (variant, common.canon(B), nametype, style)
        if key in self.cache and self.failures.get(key, 0) < 400:
            return self.cache[key]
        if (nametype, style) not in self.past_done:
            self.past_done.add((nametype, style))
            self._past(nametype, style)
        grammar = nav.grammar_of(self.mm, nametype, style)
        val = {b["name"]: nav.name_value(nametype, b["name"]) for b in B}
        if variant == "user":
            # builtins are instances of user classes registered for their rules
            classes = {n: _user_class(n) for n in USER_CLASSES}
            objs = {b["name"]: classes[b["cls"]](name=val[b["name"]]) for b in B}
            m = metamodel_from_str(grammar, classes=list(classes.values()),
                                   builtins={val[n]: o for n, o in objs.items()})
        else:
            # builtins are instances of the dynamically created classes of a second meta-model of the same grammar
            donor = metamodel_from_str(grammar)
            objs = {}
            for b in B:
                o = donor[b["cls"]]()
                o.name = val[b["name"]]
                objs[b["name"]] = o
            m = metamodel_from_str(grammar, builtins={val[n]: o for n, o in objs.items()})
        nav.check_metamodel(self.mm, m, ref_types=False)
        self.cache[key] = (m, objs)
        self.failures[key] = 0
        return self.cache[key]

    def observe(self, g, B, variant, nametype="ID", style="sep"):
        from textx.const import UNKNOWN_OBJ_ERROR
        from textx.exceptions import TextXSemanticError, TextXSyntaxError
        m, objs = self.metamodel(variant, B, nametype, style)
        text = nav.render(self.mm, g, nametype)

        def shown(txt):
            """abstract name for the text an error message shows"""
            nm = nav.name_of_message(nametype, txt)
            return nm if nm is not None else "?" + txt

        try:
            model = m.model_from_str(text)
        except TextXSyntaxError as e:
            raise tlc.MachineryError(f"rendered model is not a sentence of the carrier grammar: {e}\n{text}")
        except TextXSemanticError as e:
            key = (variant, common.canon(B), nametype, style)
            self.failures[key] = self.failures.get(key, 0) + 1
            msg = e.message
            u, nu = _UNKNOWN.match(msg), _NOTUNIQUE.match(msg)
            if u:
                k = "unknown" if e.err_type == UNKNOWN_OBJ_ERROR else f"unknown(err_type={e.err_type!r})"
                cls = getattr(getattr(e, "expected_obj_cls", None), "__name__", None)
                if cls != u.group(2):
                    k += f"(expected_obj_cls={cls})"
                return dict(ok=False, err=dict(k=k, name=shown(u.group(1)), cls=u.group(2))), text
            if nu:
                return dict(ok=False, err=dict(k="notunique", name=shown(nu.group(1)), cls="-")), text
            return dict(ok=False, err=dict(k="other: " + msg[:200], name="", cls="")), text
        except Exception as e:
            return dict(ok=False, err=dict(k=f"!{type(e).__name__}: {str(e)[:200]}", name="", cls="")), text
        loc = nav.Located(self.mm, g, model)
        if loc.problems or len(loc.real) != nav.n_objs(g):
            return dict(ok=False, err=dict(k="structure: " + "; ".join(loc.problems[:3]), name="", cls="")), text
        bi = {id(o): "B:" + n for n, o in objs.items()}

        def target(x):
            if id(x) in bi:
                return bi[id(x)]
            return str(loc.number(x))

        res = []
        for o in range(1, nav.n_objs(g) + 1):
            attrs = {a["name"]: a for a in nav.class_of(self.mm, g["cls"][o - 1])["attrs"]}
            row = []
            for r in g["refs"][o - 1]:
                v = getattr(loc.real[o], r["a"], None)
                vs = list(v or []) if attrs[r["a"]]["many"] else ([] if v is None else [v])
                row.append(dict(a=r["a"], t=[target(x) for x in vs]))
            res.append(row)
        return dict(ok=True, res=res), text


def _verdict(obs, ans):
    """The module's answer for the load: all targets, or the set of errors one of which must be raised."""
    if ans["ok"]:
        return obs.get("ok") and common.canon(obs["res"]) == common.canon(ans["res"])
    return (not obs.get("ok")) and any(common.canon(obs["err"]) == common.canon(e) for e in ans["errs"])


def _why(obs, ans):
    if ans["ok"]:
        if not obs.get("ok"):
            return f"loading failed with {obs['err']}, Nav.tla resolves every reference: {common.canon(ans['res'])[:300]}"
        for o, (ra, rb) in enumerate(zip(obs["res"], ans["res"]), 1):
            if ra != rb:
                return f"references of object {o} resolved to {ra}, Nav.tla prescribes {rb}"
        return "resolved targets differ"
    if obs.get("ok"):
        return f"loading succeeded with targets {common.canon(obs['res'])[:200]}, Nav.tla prescribes one of the errors {ans['errs']}"
    return f"loading failed with {obs['err']}, Nav.tla prescribes one of {ans['errs']}"


def _n_refs(g):
    return sum(len(r["names"]) for rs in g["refs"] for r in rs)


def _conform(rep, reals, items, devs, label):
    """items: list of (mm_name, mm, g, B, variant, nametype)."""
    by_mm = {}
    for it in items:
        by_mm.setdefault(it[0], []).append(it)
    for mm_name, its in by_mm.items():
        mm = its[0][1]
        cases, keyof = [], {}
        for _, _, g, B, variant, nametype in its:
            key = common.digest([g, B])
            if key not in keyof:
                keyof[key] = f"c{len(cases)}"
                cases.append(dict(id=keyof[key], kind="plain", g=g, B=B))
        answers, st = nav.ask(mm, cases)
        rep.add_oracle(f"NavOracle[{label},{mm_name}]", st)
        failed = []
        for _, _, g, B, variant, nametype in its:
            ans = answers[keyof[common.digest([g, B])]]
            if not ans.get("wf"):
                raise tlc.MachineryError(f"harness produced a graph Nav.tla does not accept as well-formed: {g}")
            nt, style = nametype.split("/")
            obs, text = reals[mm_name].observe(g, B, variant, nt, style)
            small = dict(variant=variant, names=nt, reflists=style, builtins=[b["name"] for b in B], text=text)
            nontrivial = _n_refs(g) >= 1 and any(g["name"])
            if _verdict(obs, ans):
                rep.passed(small, nontrivial)
            else:
                failed.append((g, B, variant + "/" + nametype, obs, ans, text))
        # cases the documented semantics does not explain: try the listed deviations only
        dev_answers = {}
        if failed and devs:
            fc = [dict(id=f"f{i}", kind="plain", g=g, B=B) for i, (g, B, *_rest) in enumerate(failed)]
            for fid, d in devs.items():
                da, st2 = nav.ask(mm, fc, dev=d)
                rep.add_oracle(f"NavOracle[{label},{mm_name},Dev={d}]", st2)
                dev_answers[fid] = da
        for i, (g, B, variant, obs, ans, text) in enumerate(failed):
            hit = next((fid for fid, da in dev_answers.items() if _verdict(obs, da[f"f{i}"])), None)
            if hit:
                rep.known_finding(hit, dict(variant=variant, text=text))
            else:
                rep.violation(dict(mm=mm, case=dict(g=g, B=B, variant=variant.split("/")[0],
                                                    nametype=variant.split("/")[1], style=variant.split("/")[2],
                                                    text=text), observed=obs,
                                   expected=dict(ok=ans["ok"], errs=ans["errs"], res=ans["res"])), _why(obs, ans))


def _random_model(rng, mm):
    pool = nav.NAME_POOL[:rng.randint(2, 8)]
    g = nav.random_graph(rng, mm, rng.randint(6, 30), names=pool)
    g = nav.renumber(g, order_rng=rng)
    for o in range(1, nav.n_objs(g) + 1):
        attrs = {a["name"]: a for a in nav.class_of(mm, g["cls"][o - 1])["attrs"]}
        for r in g["refs"][o - 1]:
            if rng.random() < 0.5:
                k = rng.randint(1, 3) if attrs[r["a"]]["many"] else 1
                r["names"] = [rng.choice(pool) for _ in range(k)]
    return g


def _vacuity(env):
    out = {}
    for d, thm in DEV_BREAKS.items():
        e = dict(env)
        e["VT_DEV"] = d
        r = nav.check_theorems("MC_Nav_C07.cfg", e)
        out[d] = r.violated
        if r.violated not in thm:
            raise tlc.MachineryError(f"Nav.tla with Dev={{{d}}}: expected theorem {thm} to fail, TLC says "
                                     f"violated={r.violated} error={r.error}")
    return out


def run(rep):
    quick = rep.tier == "quick"
    rng = random.Random(rep.seed)
    rep.rule = ("S->I: every model TLC builds over the C07 carrier (named objects as multisets per list, names "
                "{x, y}) x every builtins subset of {x: Sub1, y: Other}, list elements rendered in a seeded order, "
                "loaded with the default scope provider; all resolved targets (by identity) or the raised error "
                "compared with Nav.tla. I->S: seeded-random nested models of 6-30 objects. One case = (model, "
                "builtins, variant); non-trivial: >= 1 reference and >= 1 named object; distinct by content.")
    rep.assumptions = [
        "every reference uses the default provider (no scope providers registered, no RREL); names are written as ID, "
        "as INT (`name=INT`, `[T|INT]`; the name x is 0) or as STRING (x is the empty string): the same abstract "
        "model in three carrier variants; builtins are keyed by the converted value",
        "a list of references is written `a+=[T][',']` or `a=[T] (',' a=[T])*` in the grammar (same attribute "
        "assigned twice with the same target); the target class of a reference attribute is judged through the "
        "references, not read off the meta-model",
        "before a meta-model under test is built, languages with the same rule names and a rotated inheritance "
        "(Base = Sub2 | Other, ...) have been used in the same process",
        "rule hierarchy of the carrier: Base = Sub1 | Sub2; Any = Base | Alt; Alt = Any | Sub2 | Other (diamond and cycle)",
        "a load with several failing references may report any one of them (the order of resolution is not part of the property)",
        "an Unknown-object error is identified by its message `Unknown object \"<name>\" of class \"<rule>\"`, "
        "err_type UNKNOWN_OBJ_ERROR and expected_obj_cls; a non-unique error by `name <name> is not unique.`",
        "builtins are instances of user classes registered for their rules (variant user) or instances of the "
        "classes of a second meta-model built from the same grammar (variant donor)",
        "single-model loads (no imports); reference targets are common or abstract rules",
    ]
    devs = {f["id"]: f["deviation"] for f in common.open_findings(PID)}

    # (M) flat models up to 5 named objects with one reference; nested models; several references
    if quick:
        universes = [("MM7F", 7, 5, 1, 1), ("MM7", 4, 3, 1, 1), ("MM7F", 5, 2, 2, 2)]
    else:
        universes = [("MM7F", 7, 5, 1, 1), ("MM7", 5, 3, 1, 2), ("MM7F", 5, 2, 2, 3)]
    envs = [nav.nav_env(m, n, nm, un, rf, 0, True) for m, n, nm, un, rf in universes]
    for u, env in zip(universes, envs):
        r = nav.check_theorems("MC_Nav_C07.cfg", env)
        tlc.require_ok(r, f"MC_Nav_C07 {u}")
        rep.add_mc(f"MC_Nav_C07[{u[0]} <= {u[2]} named, <= {u[3]} holders, <= {u[4]} refs]", r, THEOREMS)
    rep.bounds["model_checking"] = [dict(mm=u[0], objects=u[1], named=u[2], holders=u[3], refs=u[4]) for u in universes]
    if not quick:
        rep.extra["deviation_clauses_break"] = _vacuity(nav.nav_env("MM7F", 5, 3, 1, 1, 0, True))

    # (S->I) enumerated models x builtins subsets
    reals, items, total = {}, [], 0
    caps = [None, 1500, 1500] if quick else [None, None, None]
    for ui, (u, env, cap) in enumerate(zip(universes, envs, caps)):
        r, mm, gs = nav.enumerate_graphs(env)
        rep.add_mc(f"MC_Nav_Emit[{u[0]} <= {u[2]} named, <= {u[4]} refs]", r, ["(enumeration)"])
        gs = sorted({common.canon(g): g for g in gs}.values(), key=common.canon)
        total += len(gs)
        if u[0] not in reals:
            reals[u[0]] = Real(mm)
        if cap is not None and len(gs) > cap:
            gs = rng.sample(gs, cap)
        for i, g in enumerate(gs):
            g2 = nav.renumber(g, order_rng=rng) if rng.random() < 0.6 else g
            for bi, B in enumerate(BUILTIN_SETS):
                if quick and bi != i % 4 and bi != 3:   # quick: two builtins sets per model (one rotating, and both)
                    continue
                variants = ("user", "donor") if (not quick and ui == 0) else (("user", "donor")[(i + bi) % 2],)
                for vi, v in enumerate(variants):
                    # how names are written: ID, INT (x is 0) or STRING (x is the empty string)
                    items.append((u[0], mm, g2, B, v, NAMETYPES[(i // 2 + bi + vi) % 3] + "/" + STYLES[(i // 3 + bi) % 2]))
    _conform(rep, reals, items, devs, "enumerated")
    rep.exhaustive = not quick
    rep.bounds["enumerated"] = dict(models=total, cases=len(items), builtins_sets=4,
                                    sampled=[c for c in caps if c is not None])

    # (I->S) bigger random nested models
    mm7 = reals["MM7"].mm
    count = 400 if quick else 6000
    items = []
    for i in range(count):
        g = _random_model(rng, mm7)
        items.append(("MM7", mm7, g, rng.choice(BUILTIN_SETS), rng.choice(("user", "donor")),
                      rng.choice(NAMETYPES) + "/" + rng.choice(STYLES)))
    _conform(rep, reals, items, devs, "random")
    rep.bounds["random"] = dict(models=count, objects="6..30", names="2..8")


def replay(path):
    with open(path) as f:
        rec = json.load(f)
    c = rec["case"]
    mm, case = c["mm"], c["case"]
    print(case["text"], "builtins:", case["B"], "variant:", case["variant"], "names:", case.get("nametype", "ID"))
    answers, _ = nav.ask(mm, [dict(id="c0", kind="plain", g=case["g"], B=case["B"])])
    obs, _ = Real(mm).observe(case["g"], case["B"], case["variant"], case.get("nametype", "ID"), case.get("style", "sep"))
    print("observed:", obs)
    print("Nav.tla :", {k: answers["c0"][k] for k in ("ok", "errs", "res")})
    if _verdict(obs, answers["c0"]):
        print("conforms to Nav.tla")
        return 0
    print("still differs:", _why(obs, answers["c0"]))
    return 1


META = dict(
    modules=["Nav", "MC_Nav", "NavOracle"],
    level_text=("Nav.tla states default resolution (`Plain`: the unique conforming named object of the model, else the "
                "conforming builtin, else Unknown object; several candidates: not unique) over object graphs and a rule "
                "hierarchy given as data; TLC checks the four-outcome theorem for every (name, target rule, builtins) on "
                "every model of a bounded universe, every such model x builtins set is rendered and loaded with real "
                "textX and the resolved targets / the raised error are compared with the module's answer computed by "
                "TLC, and seeded-random bigger nested models are judged the same way."),
    level_note=("Bounded universe: flat models of <= 5 named objects over Sub1/Sub2/Other with names {x, y} and one "
                "reference (every single/list, abstract/concrete reference attribute); nested models of <= 3 named "
                "objects; models with <= 3 references in <= 3 holders; builtins within {x: Sub1, y: Other}. Which of several "
                "failing references is reported is not judged."),
    technique="TLC model checking of Nav.tla (Plain) + replay of enumerated models x builtins + TLC oracle on random models",
)
