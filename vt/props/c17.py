"""C17 -- multi-file models load each file once per load and share element identity.

(M)    spec/LoaderRepo.tla model-checked over every import graph of the family FamC17
       (EnumLoaderRepo.tla: cycles, diamonds, self-imports, glob statements) x provider kind x
       global repository on/off x builtin models / shared names x repeated and pre-cached loads; plus
       closures over two registered languages (repositories absent, separate or shared; a file cached
       by a direct load before/after a model of the other language imports it), string main models
       under GlobalRepo providers, and a failing load between loads that must hit the cache;
       invariants C17_OpenOnce, C17_OpensCreated, C17_CachedNotOpened, C17_Identity, C17_CacheSame (+ the others);
(S->I) every scenario rendered as a directory of model files and loaded with the real textX; opens,
       repositories, identities of all reference targets compared with the behaviours TLC printed;
(I->S) seeded-random bigger scenarios (3-6 files) recorded as event traces and validated by TLC
       against LoaderRepo!Next (TraceLoaderRepo.tla), glob order left to the file system.
"""
from ..drive import multifile as mf

PID = "C17"


def _nontrivial(sc, hist):
    return len(sc["files"]) >= 2 and any(len(h["incl"]) >= 2 for h in hist)


def run(rep):
    mf.run_property(rep, PID, _nontrivial,
                    "S->I: every scenario of the TLC-enumerated family FamC17 (quick: a seeded sample when "
                    "larger than 1500) is rendered to files and its session of loads executed; compared: result, "
                    "global repository, included models, local models, opens, parameters, every reference target. "
                    "I->S: seeded-random scenarios, one event trace per session. Non-trivial: >= 2 files and a load "
                    "whose closure has >= 2 models (family) / >= 2 files and >= 6 events (trace); distinct by content.")


def replay(path):
    from .. import common
    return mf.replay_case(path, common.open_findings(PID))


META = dict(
    modules=["LoaderRepo", "MC_LoaderRepo", "EnumLoaderRepo", "TraceLoaderRepo"],
    level_text=("LoaderRepo.tla states nested model loading over a file system with the shared and the per-model "
                "repositories as a state machine; TLC checks once-per-load opening, one model per file, identity of "
                "all reference targets and cache hits in every reachable state of every import graph of the bounded "
                "family; every scenario is replayed against the real loader and seeded-random sessions recorded from "
                "the real loader are validated by TLC as behaviours of the specification."),
    level_note=("Bounded: one language: <= 3 files exhaustively (quick: 3-file graphs without glob statement / self-import of "
                "non-main files), 3-6 files seeded-random; six provider kinds (PlainNameImportURI, FQNImportURI, "
                "PlainNameImportURI with search path, RREL +m:, PlainNameGlobalRepo, FQNGlobalRepo). Lookup order "
                "among several loaded models defining the same name is left open. Two languages (two metamodels, file "
                "dispatch through the language registry): 2-3 files, repositories absent / separate / one shared "
                "object, a file cached by a direct load before or after models of the other language import it."),
    technique="TLC model checking of LoaderRepo.tla + scenario replay against TLC-printed behaviours + TLC trace validation",
)
