"""C03 -- rule kinds determine what objects a model contains (common / abstract / match; textx_isinstance)."""
from __future__ import annotations

import random

from .. import common, tlc
from ..drive import peg as D
from ..gen import peg as G
from . import pegcommon as P

PID = "C03"


class KindGen(G.GrammarGen):
    """Chains and cycles of abstract rules, mixed alternatives of match and common references."""

    def cascade(self):
        """Cycles of attribute-less rules that depend on other such cycles; only the innermost one reaches a common
        rule, so the kind of the outer rules follows from it through several rounds of inference."""
        r = self.rng
        k = r.randrange(2, 4)
        leaf = G.RuleD("L", G.Seq([G.Str("k"), G.Asg("v", "=", G.Ref(r.choice(["INT", "ID"])))]))
        brs = [("(", ")"), ("[", "]"), ("<", ">")]
        rules, inner = [], "L"
        for i in range(k):
            p, q = "P%d" % i, "Q%d" % i
            o, c = brs[i]
            first = G.Seq([G.Str(o), G.Ref(q), G.Str(c)])
            rules.append(G.RuleD(p, G.Alt([first, G.Ref(inner)] if r.random() < 0.7 else [G.Ref(inner), first])))
            rules.append(G.RuleD(q, G.Alt([G.Ref(p), G.Str(r.choice(["nil", "none", "z"]))])))
            inner = r.choice([p, q])
        rules.append(leaf)
        if r.random() < 0.6:
            pass                      # as written: innermost cycle first ("upstream first")
        else:
            r.shuffle(rules)
        top = G.RuleD("M", G.Asg("c", "+=", G.Ref(inner)))
        g = dict(rules=[top] + rules)
        return G.number(g) if G.well_formed(g) else None

    def grammar(self):
        r = self.rng
        if r.random() < 0.12:
            g = self.cascade()
            if g is not None:
                return g
        for _ in range(300):
            n = r.randrange(3, 9)
            names = ["M", "A", "B", "C", "D", "F", "G", "H"][:n]
            kinds = {}
            for i, nm in enumerate(names):
                kinds[nm] = r.choice(["common", "abstract", "match"]) if i else r.choice(["abstract", "common"])
            # the last rule is usually a common or match rule; sometimes abstract with references back up only
            kinds[names[-1]] = r.choice(["common", "match", "common", "match", "abstract"])
            rules = []
            for i, nm in enumerate(names):
                below = names[i + 1:]
                k = kinds[nm]
                if k == "abstract" and not below:
                    # only references back up: to earlier rules (cycles that depend on other cycles)
                    ups = r.sample(names[1:i], min(len(names[1:i]), r.randrange(1, 3))) if i > 1 else []
                    if not ups:
                        k = "common"
                    else:
                        alts = [G.Ref(u) if r.random() < 0.5 else G.Seq([G.Str("["), G.Ref(u), G.Str("]")]) for u in ups]
                        alts.append(G.Str("none"))
                        rules.append(G.RuleD(nm, G.Alt(alts)))
                        continue
                if k == "common":
                    parts = [G.Str(r.choice(["a", "b", "k"])), G.Asg("v", "=", G.Ref(r.choice(["INT", "ID"])))]
                    if below and r.random() < 0.6:
                        op = r.choice(["=", "+=", "*="])
                        parts.append(G.Asg("c", op, G.Ref(r.choice(below))))
                    if r.random() < 0.4 and i > 0:   # a cycle back up, guarded by a terminal
                        parts.append(G.Opt(G.Seq([G.Str("("), G.Asg("u", "=", G.Ref(r.choice(names[:i + 1]))), G.Str(")")])))
                    body = G.Seq(parts)
                elif k == "match":
                    body = r.choice([G.Seq([G.Str("m"), G.Ref("INT")]), G.Alt([G.Str("p"), G.Str("q")]), G.Str("t"),
                                     G.Seq([G.Str("-"), G.Str("#")]), G.Ref("INT")])
                else:
                    alts = []
                    for b in r.sample(below, r.randrange(1, len(below) + 1)):
                        form = r.random()
                        if form < 0.45:
                            alts.append(G.Ref(b))
                        elif form < 0.6:
                            alts.append(G.Seq([G.Str("["), G.Ref(b), G.Str("]")]))   # wrapped in terminals
                        elif form < 0.8:
                            alts.append(G.Seq([G.Str(r.choice(["x", "y"])), G.Ref(b)]))
                        else:
                            other = r.choice(below)
                            alts.append(G.Seq([G.Ref(b), G.Ref(other)]))
                    if r.random() < 0.35:
                        alts.insert(r.randrange(len(alts) + 1), r.choice([G.Str("z"), G.Ref("ID"), G.Seq([G.Str("w"), G.Ref("INT")])]))
                    if r.random() < 0.25:
                        # an alternative of base-type matches only: yields the concatenated matched text
                        alts.insert(r.randrange(len(alts) + 1),
                                    G.Seq([G.Ref(r.choice(["INT", "STRING"])), G.Ref(r.choice(["BOOL", "INT", "STRING"]))]))
                    if r.random() < 0.4:   # a cycle of abstract rules: back to this or an earlier rule, guarded by a terminal
                        alts.insert(r.randrange(len(alts) + 1),
                                    G.Seq([G.Str("("), G.Ref(r.choice(names[:i + 1])), G.Str(")")]))
                    if i > 1 and r.random() < 0.25:   # an unguarded reference to an earlier rule (not the root)
                        alts.append(G.Ref(r.choice(names[1:i])))
                    body = G.Alt(alts) if len(alts) > 1 else alts[0]
                rules.append(G.RuleD(nm, body))
            if r.random() < 0.5:
                # rule kinds do not depend on the order of definition
                tail = rules[1:]
                r.shuffle(tail)
                rules = rules[:1] + tail
            g = dict(rules=rules)
            if G.well_formed(g):
                return G.number(g)
        raise RuntimeError("no grammar")


def cases_for(rng, n, per):
    gg = KindGen(rng)
    cases = []
    for _ in range(n):
        g = gg.grammar()
        cfg = D.default_cfg()
        sg = G.SentenceGen(rng, g)
        for k in range(per):
            toks = sg.sentence()
            s = G.join(rng, toks, False, glue=0.0)
            if k >= per - 2:
                s = G.mutate(rng, s, toks)
            cases.append(dict(id=len(cases), g=g, cfg=cfg, s=G.codes(s)))
    return cases


def all_objects(v, out):
    cls = type(v)
    if isinstance(v, list):
        for x in v:
            all_objects(x, out)
    elif hasattr(cls, "_tx_attrs") and not isinstance(v, (str, int, float, bool)):
        if any(v is o for o in out):
            return
        out.append(v)
        for name, a in cls._tx_attrs.items():
            if a.cont:
                all_objects(getattr(v, name), out)


def isinstance_table(rep, cases, info, res):
    """textx_isinstance(obj, R) for every object of every accepted model x every rule, vs Peg!Conforms."""
    from textx import textx_isinstance
    cache = P.MMCache()
    n = 0
    for c in cases:
        r = res.get(c["id"])
        if not r or not r["wf"] or c["id"] not in info or info[c["id"]]["exp"]["accept"] is not True:
            continue
        b = cache.get(c["g"], c["cfg"])
        if isinstance(b, Exception):
            continue
        try:
            m = b.mm.model_from_str(G.text(c["s"]))
        except Exception:
            continue
        objs = []
        all_objects(m, objs)
        conf = {(p[0], p[1]) for p in r["conf"]}
        kinds = {k[0]: k[1] for k in r["kinds"]}
        for o in objs:
            ocls = type(o).__name__
            for rn in kinds:
                if rn == "Comment":
                    continue
                try:
                    got = bool(textx_isinstance(o, b.mm[rn]))
                except RecursionError:
                    got = "RecursionError"
                want = (ocls, rn) in conf
                n += 1
                if got != want:
                    rep.violation(dict(P.describe(c), raw=dict(g=c["g"], cfg=c["cfg"], s=c["s"]), obj=ocls, rule=rn,
                                       observed=got, expected=want),
                                  f"textx_isinstance(<{ocls}>, {rn}) is {got} but Peg!Conforms says {want} for grammar "
                                  f"{G.render_grammar(c['g']).strip()!r}")
                    break
            if textx_isinstance(o, b.mm["OBJECT"]) is not True:
                rep.violation(dict(P.describe(c), obj=ocls, rule="OBJECT"), "textx_isinstance(obj, OBJECT) is False")
            if kinds.get(ocls) != "common":
                rep.violation(dict(P.describe(c), obj=ocls), f"model contains an object of rule {ocls} which is {kinds.get(ocls)}")
        rep.passed(None)
    return n


def class_table(rep, grammars, label):
    """textx_isinstance for an instance of every common class x every rule of every grammar, against
    Peg!Conforms -- independent of any input (objects are allocated with __new__)."""
    from textx import textx_isinstance
    cases = [dict(id=i, g=g, cfg=D.default_cfg(), s=[]) for i, g in enumerate(grammars)]
    res, st, _ = P.evaluate(PID, cases)
    rep.add_oracle(f"PegOracle[class conformance {label}]", st)
    n = 0
    for c in cases:
        r = res[c["id"]]
        if not r["wf"]:
            continue
        try:
            b = D.Built(c["g"], c["cfg"])
        except Exception:
            continue        # refused grammars are judged elsewhere
        conf = {(p[0], p[1]) for p in r["conf"]}
        kinds = {k[0]: k[1] for k in r["kinds"]}
        bad = None
        for cn, kd in kinds.items():
            if kd != "common":
                continue
            cls = b.mm[cn]
            o = cls.__new__(cls)
            for rn in kinds:
                if rn == "Comment":
                    continue
                try:
                    got = bool(textx_isinstance(o, b.mm[rn]))
                except RecursionError:
                    got = "RecursionError"
                n += 1
                if got != ((cn, rn) in conf):
                    bad = (cn, rn, got)
                    break
            if bad:
                break
        if bad:
            rep.violation(dict(grammar=G.render_grammar(c["g"]), raw=dict(g=c["g"], cfg=c["cfg"], s=[]), obj=bad[0],
                               rule=bad[1], observed=bad[2], expected=(bad[0], bad[1]) in conf),
                          f"textx_isinstance(<{bad[0]}>, {bad[1]}) is {bad[2]} but Peg!Conforms says "
                          f"{(bad[0], bad[1]) in conf} for grammar {G.render_grammar(c['g']).strip()!r}")
        else:
            rep.passed(None)
    return n


def run(rep):
    rng = random.Random(rep.seed)
    quick = rep.tier == "quick"
    P.replay_witnesses(rep, PID)
    rep.rule = ("S->I: the MC_Peg 'kinds' universe (root rule over references to a common rule, a two-part match rule, "
                "an abstract rule with mixed alternatives and a single-match rule) x all inputs of <= 5 symbols; I->S: "
                "seeded-random grammars of 3-6 rules with chains and guarded cycles of abstract rules. Compared: class "
                "of every object, values of match rules, abstract-rule results, and textx_isinstance(obj, R) for every "
                "object x rule against Peg!Conforms. Non-trivial: accepted inputs.")
    rep.assumptions = ["Peg!WellFormed fragment; the first common/abstract reference of an abstract alternative is not optional"]
    P.judge_universe(rep, PID, "kinds", 1 if quick else 2, maxlen=4 if quick else "")
    P.judge_universe(rep, PID, "alias", 1)
    rep.exhaustive = True
    n, per = (120, 8) if quick else (1200, 10)
    cases = cases_for(rng, n, per)
    info, stats = P.judge_cases(rep, PID, cases, label="random-kinds")
    res, st, _ = P.evaluate(PID, [dict(c) for c in cases[: (400 if quick else 3000)]])
    rep.add_oracle("PegOracle[conformance]", st)
    stats["isinstance_checks"] = isinstance_table(rep, cases[: (400 if quick else 3000)], info, res)
    gg = KindGen(rng)
    stats["class_conformance_checks"] = class_table(rep, [gg.grammar() for _ in range(400 if quick else 4000)], "random")
    rep.bounds["random"] = stats


def replay(path):
    return P.replay_case(path, PID)


META = dict(
    modules=["Peg", "PegOracle", "MC_Peg"],
    level_text=("Peg.tla states rule kinds (least fixpoint), abstract-rule results and class conformance; MC_Peg checks "
                "that models only contain objects of common rules; the 'kinds' universe and random grammars with "
                "abstract chains are replayed against textX, including textx_isinstance for every object x rule."),
    level_note="Fragment Peg!WellFormed; bounded sizes; renderer/projector trusted.",
    technique="TLC-evaluated rule-kind / conformance semantics as oracle + exhaustive universe replay",
)
