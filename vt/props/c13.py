"""C13 -- object processors run once each, bottom-up, on a fully linked model.

(M)    spec/LoaderProc.tla model-checked over every containment shape of the carrier grammar
       with <= 3 objects in 1-2 files x processor tables (thorough: all of them) x replacement
       subsets: C13_Order, C13_OwnFirst, C13_Once, C13_Replaced in every state, and the
       canonical walk (the oracle of the next pass) is a behaviour of the machine;
(S->I) quick: the scenarios of that very TLC run (shape x processor table x replacement
       subset, seeded sample of 1800), thorough: every shape with <= 5 objects (seeded sample
       of 6000) x seeded tables; plus seeded-random forests of <= 9 objects.  Each is rendered
       as model text and loaded by the real textX with recording processors on the rules of
       the table (alternately with user classes); the recorded call sequence and the final
       attribute contents are compared with what TLC evaluates for that case.  A log that
       differs from the canonical walk is handed to trace validation before it is judged;
(I->S) bigger seeded-random forests (<= 14 objects, 1-3 files, postponed references): the
       recorded call log is validated as a trace of LoaderProc!Next by TLC (TraceLoaderProc).
"""
from __future__ import annotations

import json
import os
import random
import shutil

from .. import common, tlc
from ..drive import procs as D

PID = "C13"
INVS = ["ScenarioOK", "C13_Order", "C13_OwnFirst", "C13_Once", "C13_Replaced", "C13_WalkIsBehaviour"]


def _mc(rep, max_objs, full_tables, emit):
    env = D.mc_env("c13", max_objs, 2, 2, 0, emit=emit, full_tables=full_tables)
    r = tlc.model_check("MC_LoaderProc", cfg="MC_LoaderProc_C13.cfg", env=env, timeout=3000)
    tlc.require_ok(r, "MC_LoaderProc_C13")
    rep.add_mc("MC_LoaderProc_C13", r, INVS)
    return r.results("SCEN")


KINDS = ["str", "str", "str"] + sorted(D.FALSY)


def _kinds(rng, repl):
    """What each replacing processor returns: an identifying string or a falsy, non-None value."""
    return [rng.choice(KINDS) for _ in repl]


def _tab(procs, repl=(), replk=(), procs2=(), repl2=(), replk2=()):
    """A registration: processor table of the main language and of the second language (if any file
    of the load is a model of that one)."""
    return dict(procs=list(procs), repl=list(repl), replk=list(replk) or ["str"] * len(repl),
                procs2=list(procs2), repl2=list(repl2), replk2=list(replk2) or ["str"] * len(repl2))


def _of_scenario(s):
    return _tab(s["procs"], s["repl"], s["replk"], s.get("procs2", []), s.get("repl2", []), s.get("replk2", []))


def _second_language(rng, scn):
    """Now and then the imported files are models of a second language (another metamodel with the same
    grammar and registrations of its own)."""
    nfiles = max(o["file"] for o in scn["objs"])
    if nfiles > 1 and rng.random() < 0.5:
        lang = [1] + [rng.choice([1, 2]) for _ in range(nfiles - 1)]
        if 2 not in lang:
            lang[-1] = 2
        scn["lang"] = lang
    return scn


def _tables(rng, scn, k):
    """k seeded registrations for a shape; the first registers every rule."""
    rel = D.relevant_rules(scn)
    two = 2 in (scn.get("lang") or [])

    def other():
        if not two:
            return [], [], []
        p2 = [r for r in D.RULES if r in rel and rng.random() < 0.7]
        r2 = [r for r in p2 if rng.random() < 0.3]
        return p2, r2, _kinds(rng, r2)
    repl = [r for r in rel if rng.random() < 0.35]
    out = [_tab(D.RULES, repl, _kinds(rng, repl), *other())]
    while len(out) < k:
        # with two languages the main one quite often registers nothing at all
        procs = [] if two and rng.random() < 0.4 else [r for r in D.RULES if r in rel and rng.random() < 0.6]
        repl = [r for r in procs if rng.random() < 0.4]
        out.append(_tab(procs, repl, _kinds(rng, repl), *other()))
    return out


def _load(case, tab, user, work):
    case.update(tab)
    return D.load(case, work, tab["procs"], tab["repl"], user=user, replk=tab["replk"],
                  procs2=tab["procs2"], repl2=tab["repl2"], replk2=tab["replk2"])


def _events(obs):
    ev = [dict(ev="call", obj=c["obj"], rule=c["rule"], linked=bool(c["linked"]), inited=bool(c["inited"]))
          for c in obs["calls"]]
    if obs.get("final") is not None:
        ev.append(dict(ev="end", final=obs["final"]))
    return ev


def validate_traces(items, dev=""):
    """items: [(case, obs)].  TLC decides for each whether the log is a behaviour of LoaderProc."""
    if not items:
        return None, {}
    work = tlc.scratch("vt-c13-")
    try:
        tp = os.path.join(work, "traces.json")
        with open(tp, "w") as f:
            json.dump([dict(sc=D.spec_view(c), events=_events(o)) for c, o in items], f)
        r = tlc.model_check("TraceLoaderProc", env={"VT_TRACES": tp, "VT_DEV": dev}, workers=1, timeout=3000)
        tlc.require_ok(r, "trace validation")
        got = {x["tid"]: x for x in r.results("TRACE")}
        if len(got) != len(items):
            raise tlc.MachineryError("trace validation did not report every trace")
        return r, got
    finally:
        shutil.rmtree(work, ignore_errors=True)


def _stored(case, tab, user):
    return dict(rendered=dict(objs=case["objs"], refs=case["refs"], files=case["files"], lang=case.get("lang"),
                              texts={str(k): v for k, v in case["texts"].items()}, matches=[]),
                tab=tab, user=user)


def _restore(c):
    case = dict(c["rendered"])
    case["texts"] = {int(k): v for k, v in case["texts"].items()}
    case.update(c["tab"])
    return case


def _why(case, obs, exp):
    if not obs["ok"]:
        return f"loading failed: {obs.get('err')} {obs.get('exc', '')}"
    oc, ec = obs["calls"], exp["calls"]
    for k in range(max(len(oc), len(ec))):
        if k >= len(oc):
            return f"call {k + 1} missing: LoaderProc expects {ec[k]['rule']} on object {ec[k]['obj']}"
        if k >= len(ec):
            return f"unexpected extra call {k + 1}: {oc[k]}"
        if common.canon(oc[k]) != common.canon(ec[k]):
            return f"call {k + 1} is {oc[k]} but LoaderProc (canonical walk) expects {ec[k]}"
    return f"final attribute contents differ: observed {obs.get('final')} expected {exp['final']}"


def _judge_batch(rep, batch):
    """batch: [(case, tab, user, obs)] -- oracle comparison, trace validation as the arbiter."""
    cases = [D.spec_view(c, id=str(i), want="c13", devsets=[[]]) for i, (c, _, _, _) in enumerate(batch)]
    res, st = tlc.oracle("OracleLoaderProc", cases)
    rep.add_oracle("OracleLoaderProc[c13]", st)
    doubt = []
    for i, (c, tab, user, obs) in enumerate(batch):
        e = res[str(i)]
        same = obs["ok"] and common.canon(obs["calls"]) == common.canon(e["calls"]) and \
            common.canon(obs["final"]) == common.canon(e["final"])
        if same:
            two = any(a["obj"] == b["obj"] for a, b in zip(obs["calls"], obs["calls"][1:]))
            replaced = any(not x["reach"] for x in obs["final"])
            rep.passed(dict(texts=c["texts"], tab=tab, user=user, calls=len(obs["calls"])),
                       nontrivial=len(c["objs"]) >= 3 and (two or replaced))
        else:
            doubt.append((i, e))
    if doubt:
        # the canonical walk fixes an order among sibling subtrees the property does not;
        # TLC decides whether the log is a behaviour of the (order-free) machine
        _, got = validate_traces([(batch[i][0], batch[i][3]) for i, _ in doubt])
        for k, (i, e) in enumerate(doubt, 1):
            c, tab, user, obs = batch[i]
            t = got[k]
            if obs["ok"] and t["reached"] == t["len"]:
                rep.passed(None)
                rep.note("a log differing from the canonical walk was accepted by trace validation")
            else:
                rep.violation(dict(kind="oracle", **_stored(c, tab, user), observed=dict(
                    calls=obs["calls"], final=obs.get("final"), err=obs.get("err")), expected=e),
                    _why(c, obs, e))


def run(rep):
    quick = rep.tier == "quick"
    rng = random.Random(rep.seed)
    rep.rule = ("S->I: containment shapes TLC enumerates for the carrier grammar (objects of the rules Model, Import, "
                "Pkg, Grp, Box, Cell, DefA, DefB, Use, UseList; attributes typed with the abstract rules Elem and Def "
                "and with concrete rules; single and list attributes; 1-2 files) x processor tables x replacement "
                "subsets (quick: the scenario universe of the TLC run itself, <= 3 objects, seeded sample of 1800; "
                "thorough: shapes of <= 5 objects, seeded sample of 6000, x 2 seeded tables), plus seeded-random "
                "forests of <= 9 objects, alternately with user classes; call sequence and final containment contents "
                "compared with TLC's evaluation of LoaderProc. I->S: seeded-random forests of <= 14 objects in 1-3 "
                "files with postponed references, call log validated by TLC as a trace. Non-trivial: >= 3 objects "
                "and an object with two processor calls or a replaced object (S->I), >= 6 calls (traces); distinct "
                "by content.")
    rep.assumptions = [
        "carrier grammar of vt/drive/procs.py; its containment table is checked against the real metamodel on every load",
        "object identity is the containment path (file:attr.index/...), computed from parent links at call time",
        "'linked' = every reference attribute of every model of the load holds a DefA/DefB object when the processor "
        "runs; 'inited' = every user-class object created so far has had its __init__ called",
        "the order among sibling subtrees (meta-attribute order, list order) is compared on the fast path only; "
        "a log that differs there is judged by trace validation, which leaves that order free as the property does",
        "replacement values are identifying strings or falsy non-None values (0.0, '', [], False, ()); a plain "
        "value (a Tag string or an INT, one of them 0) held by a single or list attribute typed with an abstract rule "
        "that has match-rule alternatives (Value: Tag | INT | Cell) is seen only by the abstract rule's processor; "
        "match-rule processors are not part of this check",
        "files of a load may be models of a second language (another metamodel with the same grammar, registered for "
        "*.m2 files, with processor registrations of its own); an object is processed with the registrations of the "
        "language of its own model",
        "the dict handed to register_obj_processors is overwritten with never-to-be-called processors right after the "
        "registration; metamodels are reused from load to load",
    ]
    # (M); in the quick tier the same run hands out its scenario universe (shape x processor table)
    if quick:
        scns = _mc(rep, 3, 2, emit=True)
        plan = [(s, [_of_scenario(s)]) for s in scns]
        if len(plan) > 1800:
            plan = rng.sample(plan, 1800)
        rep.exhaustive = len(plan) == len(scns)
        rep.bounds["scenarios"] = dict(enumerated=len(scns), replayed=len(plan), max_objs=3,
                                       tables="all tables for <= 2 objects; for 3 objects every replacement subset "
                                              "with all rules registered, every table without one rule or with a single rule, the empty table")
    else:
        _mc(rep, 3, 3, emit=False)      # every table; 4 objects x tables x interleavings is > 10^7 states
        r, shapes = D.emit_shapes(tlc, 5)
        rep.add_mc("MC_LoaderProc_Emit[shapes]", r, ["(scenario emission)"])
        total = len(shapes)
        if len(shapes) > 6000:
            shapes = rng.sample(shapes, 6000)
        rep.exhaustive = len(shapes) == total
        plan = [(s, _tables(rng, s, 2)) for s in shapes]
        rep.bounds["scenarios"] = dict(enumerated_shapes=total, replayed_shapes=len(shapes), max_objs=5,
                                       tables_per_shape=2)
    # recursive containment with processors for only some rules: fixed forests (packages nested two and
    # three deep, entered through Model.root and through elems, notes after the recursive attribute) x
    # every table that registers a single rule, all rules but one, and all rules
    for t in D.recursive_templates() + D.qualified_templates():
        rel = D.relevant_rules(t)
        tabs = [_tab([r]) for r in rel] + [_tab([x for x in rel if x != r]) for r in rel]
        tabs += [_tab([r], [r]) for r in rel[:4]] + [_tab(rel)]
        plan.append((t, tabs))
    # bigger seeded-random forests for the same comparison
    nrand = 250 if quick else 3000
    for _ in range(nrand):
        s = _second_language(rng, D.random_scenario(rng, max_objs=rng.randint(4, 9), nfiles=rng.choice([1, 1, 2, 2]),
                                                    max_postpone=1))
        tabs = _tables(rng, s, 2)[1:]
        if rng.random() < 0.3:          # now and then a table with a single registered rule
            one = rng.choice(D.relevant_rules(s))
            tabs.append(_tab([one]))
        plan.append((s, tabs))
    rep.bounds["random_forests"] = dict(count=nrand, max_objs=9)
    work = tlc.scratch("vt-c13-")
    try:
        batch = []
        for k, (s, tables) in enumerate(plan):
            for j, tab in enumerate(tables):
                case = D.render(s, rng)
                user = bool((k + j) % 2)
                obs = _load(case, tab, user, work)
                batch.append((case, tab, user, obs))
        _judge_batch(rep, batch)
        # (I->S)
        ntr = 60 if quick else 800
        items, meta = [], []
        for k in range(ntr):
            s = _second_language(rng, D.random_scenario(rng, max_objs=rng.randint(6, 14),
                                                        nfiles=rng.choice([1, 1, 2, 3]),
                                                        max_postpone=rng.choice([0, 1, 2])))
            tab = _tables(rng, s, 2)[1]
            case = D.render(s, rng)
            user = bool(k % 2)
            obs = _load(case, tab, user, work)
            items.append((case, obs))
            meta.append((tab, user))
    finally:
        shutil.rmtree(work, ignore_errors=True)
    r, got = validate_traces(items)
    rep.add_mc("TraceLoaderProc", r, ["TraceNext consumes every event"])
    for k, (case, obs) in enumerate(items, 1):
        t = got[k]
        tab, user = meta[k - 1]
        if obs["ok"] and t["reached"] == t["len"]:
            rep.passed(dict(texts=case["texts"], tab=tab, user=user, calls=len(obs["calls"])),
                       nontrivial=len(obs["calls"]) >= 6)
        else:
            ev = _events(obs)
            at = ev[t["reached"]] if t["reached"] < len(ev) else None
            rep.violation(dict(kind="trace", **_stored(case, tab, user),
                               observed=dict(calls=obs["calls"], final=obs.get("final"), err=obs.get("err"))),
                          f"event {t['reached'] + 1} of the recorded log is not a step of LoaderProc!Next: {at}"
                          if obs["ok"] else f"loading failed: {obs.get('err')} {obs.get('exc', '')}")
    rep.bounds["traces"] = dict(count=ntr, max_objs=14, max_files=3)


def replay(path):
    with open(path) as f:
        rec = json.load(f)
    c = rec["case"]
    case = _restore(c)
    work = tlc.scratch("vt-c13-")
    try:
        obs = _load(case, c["tab"], c["user"], work)
    finally:
        shutil.rmtree(work, ignore_errors=True)
    for k, v in sorted(case["texts"].items()):
        print(f"--- file {k}\n{v}")
    print("calls:", obs["calls"])
    print("final:", obs.get("final"), "err:", obs.get("err"), obs.get("exc", ""))
    res, _ = tlc.oracle("OracleLoaderProc", [D.spec_view(case, id="0", want="c13", devsets=[[]])])
    e = res["0"]
    print("expected calls:", e["calls"])
    print("expected final:", e["final"])
    if obs["ok"] and common.canon(obs["calls"]) == common.canon(e["calls"]) and \
            common.canon(obs["final"]) == common.canon(e["final"]):
        return 0
    _, got = validate_traces([(case, obs)])
    print("trace validation reached", got[1]["reached"], "of", got[1]["len"])
    return 0 if obs["ok"] and got[1]["reached"] == got[1]["len"] else 1


META = dict(
    modules=["LoaderProc", "LoaderProcCarrier", "MC_LoaderProc", "OracleLoaderProc", "TraceLoaderProc"],
    level_text=("LoaderProc.tla states the tail of a model load (end of construction, object processors, tool "
                "support) as a state machine over abstract containment forests with a processor table; TLC checks "
                "in every reachable state of every scenario of a bounded universe that processors run only on a "
                "linked and initialised model, after all contained objects, own rule before declared rule, exactly "
                "the documented number of times, and that replacements end up in the containing attribute. Every "
                "shape of that universe is rendered and loaded by the real textX and compared with TLC's "
                "evaluation; call logs of bigger random loads are validated by TLC as traces of the machine."),
    level_note=("Fixed carrier grammar (abstract attribute types Elem and Def, recursion through Pkg, single and "
                "list containment, references, 1-3 files); bounded shapes (<= 3 objects in the TLC run, <= 5 "
                "enumerated for replay in the thorough tier, <= 14 random); object identity by containment path; "
                "processor tables exhaustive for <= 2 (quick) / 3 (thorough) objects, otherwise every replacement "
                "subset with all rules registered, every table leaving out one rule or registering a single rule, and "
                "the empty table; seeded samples where the universe exceeds the budget."),
    technique="TLC model checking of LoaderProc.tla + TLC-enumerated scenario replay with TLC oracle + TLC trace validation",
)
