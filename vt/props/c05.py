"""C05 -- containment links and the navigation API are consistent.

(M)    spec/Nav.tla: TLC builds every object tree over the carrier meta-model MM5
       (recursive containment; single/list, concrete/abstract/OBJECT-typed
       containment attributes; single/list back references; class names that
       are prefixes and suffixes of one another) up to a bound and checks the
       design theorems in every state (MC_Nav.tla).
(S->I) every enumerated tree is rendered in the carrier grammar generated from
       the same meta-model data, loaded with real textX (generic classes and
       container-like user classes whose instances can be falsy), and `parent`, get_model, get_children,
       get_children_of_type, get_parent_of_type are compared with the answers
       TLC computes from Nav.tla (NavOracle.tla); objects are identified by
       their containment path.
(I->S) seeded-random bigger models with references anywhere and random
       extensional selector / should_follow predicates, judged the same way.
"""
from __future__ import annotations

import json
import random

from .. import common, tlc
from ..drive import nav

PID = "C05"
THEOREMS = ["TWellFormed", "TParentChain", "TParentOfType", "TChildren", "TNoRefs", "TOfType"]
# deviation clause -> theorem it must break (rule 6: the module is not vacuous)
DEV_BREAKS = {"FollowRefs": ("TChildren", "TNoRefs"), "AlwaysChildrenFirst": ("TChildren",),
              "ParentOfTypeFromSelf": ("TParentOfType",), "GetModelThroughNoneParent": ("TParentChain",)}
# variant -> rules that get a user class
USER_CLASSES = {"plain": [], "user": ["Pkg", "PkgLeaf"], "userparent": ["Pkg", "PkgSubPkg", "PkgLeaf"]}


# ------------------------------------------------------------------ real side

def _user_classes(mm, names, store_parent):
    """User classes for the given rules.  store_parent=False: __init__ keeps what textX passes;
    store_parent=True: the documented pattern `self.parent = parent` with a default for the root.
    The classes are container-like: an instance is falsy when its list attribute is empty (__len__), or,
    for a class without one, when it holds no reference (__bool__) -- while it may well contain or be
    contained in other objects."""
    out = []
    for n in names:
        attrs = nav.class_of(mm, n)["attrs"]
        lists = [a["name"] for a in attrs if a["cont"] and a["many"]]
        refs = [a["name"] for a in attrs if not a["cont"]]
        d = {}
        if store_parent:
            def init(self, parent=None, **kw):
                self.parent = parent
                for k, v in kw.items():
                    setattr(self, k, v)
        else:
            def init(self, **kw):
                for k, v in kw.items():
                    setattr(self, k, v)
        d["__init__"] = init
        if lists:
            d["__len__"] = lambda self, a=lists[-1]: len(getattr(self, a))
        else:
            d["__bool__"] = lambda self, refs=refs: any(getattr(self, a, None) is not None for a in refs)
        out.append(type(n, (), d))
    return out


class Real:
    """One real meta-model per variant, built from the meta-model data."""

    def __init__(self, mm):
        from textx import metamodel_from_str
        self.mm = mm
        self.grammar = nav.grammar_of(mm)
        self.metamodels = {}
        for variant, names in USER_CLASSES.items():
            classes = _user_classes(mm, names, variant == "userparent")
            if classes:
                self._past(classes)
            m = metamodel_from_str(self.grammar, classes=classes)
            nav.check_metamodel(mm, m)
            self.metamodels[variant] = m

    def _past(self, classes):
        """The Python user classes have been used before, by a meta-model whose rules of the same names have
        other bodies (a former version of the language): models of it were loaded and navigated."""
        from textx import get_children, get_children_of_type, metamodel_from_str
        old = nav.decoy_containment(self.mm)
        old_mm = metamodel_from_str(nav.grammar_of(old), classes=classes)
        rng = random.Random(5)
        for _ in range(6):
            model = old_mm.model_from_str(nav.render(old, nav.random_graph(rng, old, 6)))
            get_children(lambda x: True, model)
            for c in old["classes"]:
                get_children_of_type(c["name"], model)

    def observe(self, g, queries, variant):
        """Load the rendered model and ask the real API everything the oracle was asked."""
        from textx import get_children, get_children_of_type, get_model, get_parent_of_type
        real_mm = self.metamodels[variant]
        text = nav.render(self.mm, g)
        from textx.exceptions import TextXSyntaxError
        try:
            model = real_mm.model_from_str(text)
        except TextXSyntaxError as e:  # the renderer only produces sentences of the carrier grammar
            raise tlc.MachineryError(f"rendered model is not a sentence of the carrier grammar: {e}\n{text}")
        except Exception as e:  # construction / reference resolution of a well-formed model failed
            return dict(load=f"!{type(e).__name__}: {str(e)[:200]}"), text
        loc = nav.Located(self.mm, g, model)
        if loc.problems or len(loc.real) != nav.n_objs(g):
            return dict(structure=loc.problems or ["objects missing"]), text
        n = nav.n_objs(g)
        objs = [loc.real[o] for o in range(1, n + 1)]
        cnames = [c["name"] for c in self.mm["classes"]]

        def call(f, *a, **k):
            """Result of an API call as object number(s); an exception is an observation, not a harness failure."""
            try:
                r = f(*a, **k)
            except Exception as e:
                return f"!{type(e).__name__}"
            return [loc.number(x) for x in r] if isinstance(r, list) else loc.number(r)

        obs = dict(
            parent=[call(getattr, x, "parent", None) for x in objs],
            model=[call(get_model, x) for x in objs],
            pot=[[call(get_parent_of_type, c, x) for c in cnames] for x in objs],
            pot_cls=[[call(get_parent_of_type, real_mm[c], x) for c in cnames] for x in objs],
            ch=[], ch_cls=[],
        )
        for q in queries:
            fset = set(q["F"])
            follow_all = len(fset) == n

            def follow(x, fset=fset):
                k = loc.num.get(id(x))
                return True if k is None else k in fset      # also called on attribute values that are not objects

            kw = dict(children_first=q["cf"])
            if not (follow_all and q.get("dflt")):
                kw["should_follow"] = follow
            root = loc.real[q["r"]]
            if q["typ"] == "":
                sset = set(q["S"])
                res = call(get_children, lambda x, sset=sset: loc.num.get(id(x)) in sset, root, **kw)
                obs["ch"].append(res)
                obs["ch_cls"].append(res)
            else:
                obs["ch"].append(call(get_children_of_type, q["typ"], root, **kw))
                obs["ch_cls"].append(call(get_children_of_type, real_mm[q["typ"]], root, **kw))
        return obs, text


def _expected(ans):
    return dict(parent=ans["parent"], model=ans["model"], pot=ans["pot"], pot_cls=ans["pot"],
                ch=ans["ch"], ch_cls=ans["ch"])


def _why(g, queries, obs, exp):
    if "load" in obs:
        return "a well-formed model of the carrier family does not load: " + obs["load"]
    if "structure" in obs:
        return "containment attributes do not hold the rendered children: " + "; ".join(obs["structure"][:3])
    p = nav.paths(g)
    for fld, what in (("parent", "obj.parent"), ("model", "get_model(obj)")):
        for o, (a, b) in enumerate(zip(obs[fld], exp[fld]), 1):
            if a != b:
                return f"{what} of {g['cls'][o - 1]} {nav.path_str(p[o])} is object {a}, Nav.tla prescribes {b}"
    for fld in ("pot", "pot_cls"):
        for o, (ra, rb) in enumerate(zip(obs[fld], exp[fld]), 1):
            if ra != rb:
                return (f"get_parent_of_type ({'class' if fld == 'pot_cls' else 'name'} argument) from "
                        f"{nav.path_str(p[o])} gives {ra} per class, Nav.tla prescribes {rb}")
    for fld in ("ch", "ch_cls"):
        for q, (ra, rb) in zip(queries, zip(obs[fld], exp[fld])):
            if ra != rb:
                fn = f"get_children_of_type({q['typ']!r}" if q["typ"] else f"get_children(selector={q['S']}"
                return (f"{fn}, root=object {q['r']}, children_first={q['cf']}, should_follow={q['F']}) "
                        f"returned objects {ra}, Nav.tla prescribes {rb}")
    return "observation differs from Nav.tla"


# ------------------------------------------------------------------ queries (data for both sides)

def _class_queries(mm, g):
    """All selectors over classes x children_first x 3 should_follow predicates from the root,
    get_children_of_type for every class, and traversals started at every inner object."""
    n = nav.n_objs(g)
    every = list(range(1, n + 1))
    cnames = [c["name"] for c in mm["classes"]]
    root = nav.root_of(g)
    rootcls = g["cls"][root - 1]
    follows = [every,
               [o for o in every if g["cls"][o - 1] != rootcls],   # never descend into objects of the root's class
               [o for o in every if o % 2 == 0]]
    qs = []
    for mask in range(1 << len(cnames)):
        chosen = {c for i, c in enumerate(cnames) if mask >> i & 1}
        sel = [o for o in every if g["cls"][o - 1] in chosen]
        for cf in (False, True):
            for fi, f in enumerate(follows):
                qs.append(dict(r=root, S=sel, cf=cf, F=f, typ="", dflt=(fi == 0 and cf)))
    for c in cnames:
        for cf in (False, True):
            for fi, f in enumerate(follows):
                qs.append(dict(r=root, S=[], cf=cf, F=f, typ=c, dflt=(fi == 0 and not cf)))
    for o in every:
        if o != root:
            qs.append(dict(r=o, S=every, cf=False, F=every, typ="", dflt=True))
            qs.append(dict(r=o, S=every, cf=True, F=follows[1], typ="", dflt=False))
            qs.append(dict(r=o, S=[], cf=False, F=follows[2], typ=g["cls"][o - 1], dflt=False))
    return qs


def _random_queries(rng, mm, g, count):
    n = nav.n_objs(g)
    every = list(range(1, n + 1))
    cnames = [c["name"] for c in mm["classes"]]
    qs = []
    for _ in range(count):
        r = rng.choice(every)
        sel = [o for o in every if rng.random() < rng.choice((0.3, 0.7, 1.0))]
        fol = [o for o in every if rng.random() < rng.choice((0.6, 0.85, 1.0))]
        typ = rng.choice(cnames) if rng.random() < 0.25 else ""
        qs.append(dict(r=r, S=[] if typ else sel, cf=rng.random() < 0.5, F=fol, typ=typ, dflt=False))
    return qs


def _add_random_refs(rng, mm, g):
    names = [x for x in g["name"] if x]
    for o in range(1, nav.n_objs(g) + 1):
        attrs = {a["name"]: a for a in nav.class_of(mm, g["cls"][o - 1])["attrs"]}
        for r in g["refs"][o - 1]:
            if rng.random() < 0.6:
                k = rng.randint(1, 3) if attrs[r["a"]]["many"] else 1
                r["names"] = [rng.choice(names) for _ in range(k)]


# ------------------------------------------------------------------ judging

def _conform(rep, real, mm, items, devs, label):
    """items: list of (g, queries, variant).  One oracle pass for all, then the real runs."""
    cases, keyof = [], {}
    for idx, (g, qs, variant) in enumerate(items):
        key = common.digest([g, qs])
        if key not in keyof:
            keyof[key] = f"c{len(cases)}"
            cases.append(dict(id=keyof[key], kind="nav", g=g, rootnone=False,
                              queries=[dict(r=q["r"], S=q["S"], cf=q["cf"], F=q["F"], typ=q["typ"]) for q in qs]))
    answers, st = nav.ask(mm, cases)
    rep.add_oracle(f"NavOracle[{label}]", st)
    # deviation answers only for the variant the listed findings talk about
    dev_answers = {}
    np_items = [(g, qs) for g, qs, v in items if v == "userparent"]
    if np_items:
        for fid, d in devs.items():
            dc = [dict(id=keyof[common.digest([g, qs])], kind="nav", g=g, rootnone=True,
                       queries=[dict(r=q["r"], S=q["S"], cf=q["cf"], F=q["F"], typ=q["typ"]) for q in qs])
                  for g, qs in np_items]
            seen, uniq = set(), []
            for c in dc:
                if c["id"] not in seen:
                    seen.add(c["id"])
                    uniq.append(c)
            da, st2 = nav.ask(mm, uniq, dev=d)
            rep.add_oracle(f"NavOracle[{label},Dev={d}]", st2)
            dev_answers[fid] = da
    for g, qs, variant in items:
        cid = keyof[common.digest([g, qs])]
        ans = answers[cid]
        if not ans.get("wf"):
            raise tlc.MachineryError(f"harness produced a graph Nav.tla does not accept as well-formed: {g}")
        exp = _expected(ans)
        obs, text = real.observe(g, qs, variant)
        case = dict(variant=variant, text=text, g=g, queries=qs)
        devexp = {}
        if variant == "userparent":
            for fid, da in dev_answers.items():
                devexp[fid] = _expected(da[cid])
        nontrivial = nav.n_objs(g) >= 3
        small = dict(variant=variant, text=text)
        if common.canon(obs) == common.canon(exp):
            rep.passed(small, nontrivial)
            continue
        hit = next((fid for fid, ex in devexp.items() if common.canon(obs) == common.canon(ex)), None)
        if hit:
            rep.known_finding(hit, small)
        else:
            rep.violation(dict(mm=mm, case=case, observed=obs, expected=exp), _why(g, qs, obs, exp))


def _vacuity(rep, env, devs_to_try):
    """With a deviation clause switched on, TLC must report the matching theorem violated."""
    out = {}
    for d, thm in devs_to_try.items():
        e = dict(env)
        e["VT_DEV"] = d
        r = nav.check_theorems("MC_Nav_C05.cfg", e)
        out[d] = r.violated
        if r.violated not in thm:
            raise tlc.MachineryError(f"Nav.tla with Dev={{{d}}}: expected theorem {thm} to fail, TLC says "
                                     f"violated={r.violated} error={r.error}")
    return out


def run(rep):
    quick = rep.tier == "quick"
    rng = random.Random(rep.seed)
    rep.rule = ("S->I: every object tree TLC builds over the carrier meta-model (pre-order canonical form, so each "
                "tree once) rendered, loaded and queried: parent and get_model for every object, "
                "get_parent_of_type for every object x class (name and class argument), get_children for all "
                "2^3 class selectors x children_first x 3 should_follow predicates from the root, "
                "get_children_of_type per class, traversals from every inner object; I->S: seeded-random "
                "models of 8-40 objects with random references and random extensional predicates. "
                "One case = one (tree, variant); non-trivial: >= 3 objects; distinct by (variant, tree).")
    rep.assumptions = [
        "types given to get_children_of_type / get_parent_of_type are concrete classes (rule names of common rules); "
        "the documentation does not say what 'of type' means for an abstract rule, the code compares class names",
        "the order within the result of get_children is depth-first over the containment attributes in meta-model "
        "order and list order (document order); the documentation only states parents before/after children",
        "an object for which should_follow is false is neither returned nor descended into; the start object is "
        "always visited (DESIGN Appendix F); should_follow is total (textX also calls it on attribute values "
        "that are not objects, e.g. the name string)",
        "user classes: variant `user` (rules Pkg -- also the root rule -- and PkgLeaf) keeps exactly the attributes "
        "textX passes to __init__; variant `userparent` (all three rules) stores `self.parent = parent`, None for "
        "the root; the classes are container-like (__len__ / __bool__), so instances can be falsy",
        "carrier: class names are prefixes/suffixes of one another (Pkg, PkgSubPkg, PkgLeaf); Pkg.elems is assigned "
        "at four places with different rules (one of them INT), so textX types it OBJECT and its lists hold plain "
        "values next to objects; plain values are not model objects (never returned, no parent)",
        "the Python user classes were used before by a meta-model with other rule bodies for the same rule names "
        "(models loaded and navigated), then handed to the meta-model under test",
        "references are resolved by the default provider; all names in this family are unique",
    ]
    findings = common.open_findings(PID)
    devs = {f["id"]: f["deviation"] for f in findings}

    # (M) theorems over all trees / all trees with back references
    tn, rn = (5, 3) if quick else (6, 4)
    env_t = nav.nav_env("MM5", tn, tn, 0, 0, 4, False)
    env_r = nav.nav_env("MM5", rn, rn, 0, 2, 3, False)
    for name, env in (("trees", env_t), ("backrefs", env_r)):
        r = nav.check_theorems("MC_Nav_C05.cfg", env)
        tlc.require_ok(r, f"MC_Nav_C05 {name}")
        rep.add_mc(f"MC_Nav_C05[{name} {env['VT_NAV_MAXN']} objects, {env['VT_NAV_MAXREFS']} refs]", r, THEOREMS)
    rep.bounds["model_checking"] = dict(trees_max_objects=tn, backrefs_max_objects=rn, backrefs_max_refs=2,
                                        classes=3, predicates="all subsets up to 4 (3) objects, class/number based above")
    if not quick:
        rep.extra["deviation_clauses_break"] = _vacuity(rep, nav.nav_env("MM5", 3, 3, 0, 1, 3, False), DEV_BREAKS)

    # (S->I) enumerated trees
    graphs, mm = [], None
    for env in (env_t, env_r):
        r, mm, gs = nav.enumerate_graphs(env)
        rep.add_mc(f"MC_Nav_Emit[{env['VT_NAV_MAXN']} objects, {env['VT_NAV_MAXREFS']} refs]", r, ["(enumeration)"])
        graphs += gs
    seen, uniq = set(), []
    for g in graphs:
        k = common.canon(g)
        if k not in seen:
            seen.add(k)
            uniq.append(g)
    uniq.sort(key=common.canon)
    real = Real(mm)
    budget = 2600 if quick else len(uniq)
    chosen = uniq if len(uniq) <= budget else rng.sample(uniq, budget)
    items = []
    for i, g in enumerate(chosen):
        qs = _class_queries(mm, g)
        items.append((g, qs, "plain"))
        # user classes (instances may be falsy): keeping the attributes textX passes / storing `parent` (None at the root)
        for v in (("user", "userparent") if not quick else (("user", "userparent")[i % 2],)):
            items.append((g, qs, v))
    _conform(rep, real, mm, items, devs, "enumerated")
    rep.exhaustive = len(chosen) == len(uniq)
    rep.bounds["enumerated"] = dict(trees=len(uniq), replayed=len(chosen),
                                    variants=["plain", "user", "userparent"] if not quick else ["plain", "user|userparent"],
                                    queries_per_tree="66 + 3 per inner object")

    # (I->S) bigger seeded-random models
    count = 120 if quick else 1500
    items = []
    for i in range(count):
        g = nav.random_graph(rng, mm, rng.randint(8, 40))
        g = nav.renumber(g, order_rng=rng)
        _add_random_refs(rng, mm, g)
        qs = _random_queries(rng, mm, g, 24)
        items.append((g, qs, rng.choice(("plain", "user", "userparent"))))
    _conform(rep, real, mm, items, devs, "random")
    rep.bounds["random"] = dict(models=count, objects="8..40", queries_per_model=24)


def replay(path):
    with open(path) as f:
        rec = json.load(f)
    c = rec["case"]
    mm, case = c["mm"], c["case"]
    g, qs, variant = case["g"], case["queries"], case["variant"]
    print(case["text"])
    real = Real(mm)
    answers, _ = nav.ask(mm, [dict(id="c0", kind="nav", g=g, rootnone=False,
                                   queries=[dict(r=q["r"], S=q["S"], cf=q["cf"], F=q["F"], typ=q["typ"]) for q in qs])])
    exp = _expected(answers["c0"])
    obs, _ = real.observe(g, qs, variant)
    if common.canon(obs) == common.canon(exp):
        print("conforms to Nav.tla")
        return 0
    print("still differs:", _why(g, qs, obs, exp))
    return 1


META = dict(
    modules=["Nav", "MC_Nav", "NavOracle"],
    level_text=("Nav.tla states obj.parent, get_model, get_children, get_children_of_type and get_parent_of_type over "
                "object graphs given as data; TLC checks the design theorems (each selected and followed object exactly "
                "once, parents before/after children, never through references, parent chains end at the root, nearest "
                "strict ancestor of a type) on every tree of a bounded universe, every such tree is rendered and loaded "
                "with real textX and all answers are compared with the ones TLC computes from the module, and "
                "seeded-random bigger models are judged the same way."),
    level_note=("Bounded universe: 3 classes, trees up to 5 (quick) / 6 (thorough) objects without references and up to "
                "3 / 4 objects with up to 2 back references; predicates are extensional sets of objects; types are "
                "concrete classes only."),
    technique="TLC model checking of Nav.tla + exhaustive replay of enumerated trees + TLC oracle on random models",
)
