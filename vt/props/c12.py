"""C12 -- printed RREL expressions re-parse to equivalent expressions.

(M)    spec/RrelSyntax.tla: RREL abstract syntax, concrete text (printer), PEG parser, normal form.
       TLC checks on every expression tree up to a weight bound, over all operators x flags
       {none, +m:, +p:, +mp:, +pm:}: the parser reads back exactly what the printer wrote (also with
       blanks between tokens), Norm is idempotent, and the property itself
       Norm(Parse(Print(Norm(t)))) = Norm(t) with equal flags;
(S->I) the same runs print each tree (text, normal form, what re-reading gives under each deviation
       clause); for each: text -> textx.scoping.rrel.parse -> projection (must be the normal form: checks
       the real parser and the projection) -> str() -> parse -> projection (property C12), and both
       expression objects are evaluated with rrel.find on small fixed models (same results);
(I->S) what the real code printed is read by the module's parser (TLC) and must give the same tree;
       seeded-random larger trees (more names, quotes, nesting) are printed/normalised by TLC and go
       through the same pipeline.
"""
from __future__ import annotations

import gc
import hashlib
import json
import multiprocessing
import os
import random
import time
from concurrent.futures import ThreadPoolExecutor

from .. import common, tlc
from ..drive import rrelsyntax as drv

PID = "C12"
THEOREMS = ["ParsePrintExact", "ParseSpacedExact", "RoundTrip", "NormIdempotent"]
DEV_BREAKS = {"ProxyFlagNotPrinted": "RoundTrip", "FixedNameSingleQuoted": "RoundTrip"}


# ------------------------------------------------------------------ TLC-enumerated universe
def _spec_digest():
    h = hashlib.sha1()
    for m in META["modules"]:
        for ext in (".tla", ".cfg"):
            f = os.path.join(tlc.SPEC, m + ext)
            if os.path.exists(f):
                h.update(open(f, "rb").read())
    return h.hexdigest()[:16]


def _cached(key, compute):
    """TLC answers do not depend on the code under test; with VT_TLC_CACHE=<dir> they are kept between
    runs (used for the sensitivity runs against mutated copies of textX).  Keyed by the spec text."""
    d = os.environ.get("VT_TLC_CACHE")
    if not d:
        return compute()
    os.makedirs(d, exist_ok=True)
    f = os.path.join(d, f"{PID}-{_spec_digest()}-{common.digest(key)}.json")
    if os.path.exists(f):
        with open(f) as fh:
            return json.load(fh)
    out = compute()
    with open(f + ".tmp", "w") as fh:
        json.dump(out, fh)
    os.replace(f + ".tmp", f)
    return out


def _universe(n, nshards, dev=""):
    def one(s):
        return tlc.model_check("MC_RrelSyntax", env=dict(VT_N=n, VT_SHARD=s, VT_NSHARDS=nshards, VT_DEV=dev),
                               workers=1, timeout=3000)

    def compute():
        with ThreadPoolExecutor(max_workers=tlc.NCPU) as ex:
            rs = list(ex.map(one, range(nshards)))
        cases = []
        for s, r in enumerate(rs):
            tlc.require_ok(r, f"MC_RrelSyntax N={n} shard {s}/{nshards}")
            cs = r.results("CASE")
            if len(cs) != r.distinct:
                raise tlc.MachineryError(f"MC_RrelSyntax shard {s}: {r.distinct} states but {len(cs)} printed cases")
            cases.extend(cs)
        cases.sort(key=lambda c: (len(c["text"]), c["text"]))
        st = dict(distinct=sum(r.distinct for r in rs), generated=sum(r.generated for r in rs),
                  depth=max(r.depth for r in rs), wall_s=max(r.wall_s for r in rs), cmd=rs[0].cmd, shards=len(rs))
        return [cases, st]

    return _cached(["universe", n, nshards, dev], compute)


class _Agg:
    def __init__(self, st):
        self.distinct, self.generated, self.depth, self.wall_s = st["distinct"], st["generated"], st["depth"], st["wall_s"]
        self.cmd = st["cmd"] + f"   (x{st['shards']} shards, VT_SHARD=0..{st['shards'] - 1})"
        self.coverage = {}


# ------------------------------------------------------------------ real code, in parallel processes
def _lookalike_key(text_codes):
    """texts that only differ in white space or letter case get the same key (nothing semantic: it only
    decides which texts are handled by the same process, one after the other, so that a parser whose
    answer depends on what it was asked before is asked the look-alikes in one life time)"""
    return "".join(drv.text_of(text_codes).split()).lower()


def _observe_all(cases, procs):
    order = sorted(range(len(cases)), key=lambda i: (_lookalike_key(cases[i]["text"]), cases[i]["text"]))
    if procs <= 1 or len(cases) < 200:
        outs = drv.run_chunk([cases[i] for i in order])
    else:
        size = max(50, (len(cases) + procs * 16 - 1) // (procs * 16))
        chunks, cur, last = [], [], None
        for i in order:                      # look-alikes never straddle a chunk boundary
            k = _lookalike_key(cases[i]["text"])
            if len(cur) >= size and k != last:
                chunks.append(cur)
                cur = []
            cur.append(dict(text=cases[i]["text"], textsp=cases[i]["textsp"]))
            last = k
        if cur:
            chunks.append(cur)
        # the parent holds the whole universe: keep the collector (and copy-on-write) off those objects in the children
        gc.collect()
        gc.freeze()
        try:
            with multiprocessing.get_context("fork").Pool(procs) as pool:
                outs = [o for ch in pool.map(drv.run_chunk, chunks) for o in ch]
        finally:
            gc.unfreeze()
    res = [None] * len(cases)
    for i, o in zip(order, outs):
        res[i] = o
    return res


def _with_mp(norm_list):
    """module's [normal form] -> the same with the flag meaning (importURI, use_proxy) spelled out"""
    return [dict(n, mp=[109 in n["flags"], 112 in n["flags"]]) for n in norm_list]


def _judge_all(rep, cases, obs, spec_reads, findings, what):
    """cases: module answers (text, textsp, norm, dev); obs: driver observations; spec_reads: the
    module's reading of what the implementation printed."""
    by_dev = {f["deviation"]: f["id"] for f in findings}
    for c, o in zip(cases, obs):
        norm = _with_mp([c["norm"]])
        observed = dict(p1=o["p1"], p1sp=o["p1sp"], p2=o["p2"], p2spec=_with_mp(spec_reads[o["printed"]]),
                        eval_same=o["eval_same"])
        expected = dict(p1=norm, p1sp=norm, p2=norm, p2spec=norm, eval_same=True)
        devexp = {}
        for d, key in (("ProxyFlagNotPrinted", "ProxyFlagNotPrinted"), ("FixedNameSingleQuoted", "FixedNameSingleQuoted")):
            if d in by_dev:
                alt = _with_mp(c["dev"][key])
                if alt != norm:
                    devexp[by_dev[d]] = dict(p1=norm, p1sp=norm, p2=alt, p2spec=alt, eval_same="n/a")
        if len(by_dev) == 2:
            alt = _with_mp(c["dev"]["Both"])
            if alt != norm and all(alt != e["p2"] for e in devexp.values()):
                devexp[by_dev["FixedNameSingleQuoted"] + "+" + by_dev["ProxyFlagNotPrinted"]] = dict(
                    p1=norm, p1sp=norm, p2=alt, p2spec=alt, eval_same="n/a")
        case = dict(text=c["text"], rrel=drv.text_of(c["text"]), printed=o["printed"])
        nontrivial = len(c["text"]) > 1 and o["found"] > 0
        common.judge(rep, case, observed, expected, devexp, nontrivial=nontrivial,
                     why=f"{what}: {drv.text_of(c['text'])!r} printed as {o['printed']!r} "
                         f"({o['err'] or 'reparsed'}): {_diff(observed, expected)}")


def _diff(obs, exp):
    bad = [k for k in exp if common.canon(obs[k]) != common.canon(exp[k])]
    k = bad[0] if bad else "?"
    return f"fields {bad} differ; {k}: got {common.canon(obs.get(k))[:160]} want {common.canon(exp.get(k))[:160]}"


def _spec_reads(rep, printed_texts):
    """the module's parser (TLC) applied to everything the implementation printed"""
    uniq = sorted(set(printed_texts))
    known = {}
    cdir = os.environ.get("VT_TLC_CACHE")       # per-text answers kept between sensitivity runs
    cfile = os.path.join(cdir, f"{PID}-{_spec_digest()}-reads.json") if cdir else None
    if cfile and os.path.exists(cfile):
        with open(cfile) as fh:
            known = json.load(fh)
    todo = [t for t in uniq if t not in known]
    cases = [dict(id=f"p{i}", mode="text", text=drv.codes_of(t)) for i, t in enumerate(todo)]
    res, st = tlc.oracle("OracleRrelSyntax", cases)
    rep.add_oracle("OracleRrelSyntax[printed]", st)
    for i, t in enumerate(todo):
        known[t] = res[f"p{i}"]["read"]
    if cfile and todo:
        with open(cfile + ".tmp", "w") as fh:
            json.dump(known, fh)
        os.replace(cfile + ".tmp", cfile)
    return {t: known[t] for t in uniq}


# ------------------------------------------------------------------ seeded-random trees (I->S)
_ATTRS = ["a", "b", "parent", "parents", "_x1", "m", "p", "a", "\xe9l", "gr\xf6\xdfe", "\u03a9m", "\u044f1", "\u4e2d", "a\u0663", "A"]
_TYPES = ["T", "U", "\xc9c", "\u0416"]
_FIXED = [("n", 39), ("n", 34), ("", 39), ("n'", 34), ("it's", 34), ('say "n"', 39), ("n m", 39), ("nm", 39), ("n  m", 39), (" n", 39), ("N", 39),
          ("n\tm", 34), ("n\\'", 39),
          ("n'~b.'m", 34), ("a.b", 34), ("\\n", 34), ("'", 34), ('"', 39), ("m", 39)]


def _rand_elem(rng, depth, star_ok=True):
    k = rng.random()
    if k < 0.18 and star_ok:
        return dict(k="star", e=_rand_elem(rng, depth, star_ok=False))
    if k < 0.36 and depth > 0:
        return dict(k="br", seq=_rand_seq(rng, depth - 1))
    if k < 0.46:
        return dict(k="par", type=drv.codes_of(rng.choice(_TYPES)))
    mode = rng.choice(["name", "name", "multi", "fixed"])
    if mode == "fixed":
        f, q = rng.choice(_FIXED)
        return dict(k="nav", mode="fixed", attr=drv.codes_of(rng.choice(_ATTRS)), fixed=drv.codes_of(f), q=q)
    return dict(k="nav", mode=mode, attr=drv.codes_of(rng.choice(_ATTRS)), fixed=[], q=0)


def _rand_path(rng, depth):
    lead = rng.choice([dict(k="none")] * 4 + [dict(k="hat"), dict(k="dots", n=rng.randrange(1, 5))])
    n = rng.choice([1, 1, 2, 2, 3, 4]) if lead["k"] == "none" else rng.choice([0, 1, 1, 2, 3])
    return dict(lead=lead, els=[_rand_elem(rng, depth) for _ in range(n)])


def _rand_seq(rng, depth):
    return [_rand_path(rng, depth) for _ in range(rng.choice([1, 1, 1, 2, 3]))]


def _size(x):
    """(nodes, bracket nesting) of a generated tree -- only to keep the real parser's running time bounded:
    textx.scoping.rrel.parse has no memoization and re-parses each bracket ~8 times per nesting level."""
    if isinstance(x, list):
        rs = [_size(y) for y in x]
        return sum(r[0] for r in rs), max([r[1] for r in rs] or [0])
    if "els" in x:
        return _size(x["els"])
    if x["k"] == "br":
        n, d = _size([p for p in x["seq"]])
        return n + 1, d + 1
    if x["k"] == "star":
        n, d = _size(x["e"])
        return n + 1, d
    return 1, 0


def _squeezed(x):
    """the same tree with the white space taken out of every fixed name (None if there is none)"""
    hit = [False]

    def go(y):
        if isinstance(y, list):
            return [go(z) for z in y]
        if isinstance(y, dict):
            if y.get("k") == "nav" and y["mode"] == "fixed" and any(c in (9, 32) for c in y["fixed"]):
                hit[0] = True
                return dict(y, fixed=[c for c in y["fixed"] if c not in (9, 32)])
            return {k: go(v) for k, v in y.items()}
        return y
    out = go(x)
    return out if hit[0] else None


def _random_trees(rng, count):
    out = []
    while len(out) < count:
        flags = rng.choice(["", "", "m", "p", "mp", "pm", "mm", "pp", "mpm"])
        seq = _rand_seq(rng, rng.choice([0, 1, 1, 2, 2, 3]))
        n, d = _size(seq)
        if n > (24, 16, 12, 9)[d]:
            continue
        out.append(dict(id=f"r{len(out)}", mode="ast", ast=dict(flags=drv.codes_of(flags), seq=seq)))
        twin = _squeezed(seq)          # a look-alike: differs only by white space inside fixed names
        if twin is not None and len(out) < count:
            out.append(dict(id=f"r{len(out)}", mode="ast", ast=dict(flags=drv.codes_of(flags), seq=twin)))
    return out


UNI_LETTERS = [233, 201, 246, 252, 223, 937, 969, 1103, 1046, 20013]     # = UniLetters of RrelSyntax.tla
UNI_DIGITS = [1635, 2409]                                                # = UniDigits


def _calibrate():
    """The module's table of non-ASCII word characters against Python's `re` (trusted base)."""
    import re
    for c in UNI_LETTERS:
        if not re.fullmatch(r"[^\d\W]", chr(c)):
            raise tlc.MachineryError(f"U+{c:04X} is listed as a letter in RrelSyntax.tla but re disagrees")
    for c in UNI_DIGITS:
        if not (re.fullmatch(r"\d", chr(c)) and re.fullmatch(r"\w", chr(c))):
            raise tlc.MachineryError(f"U+{c:04X} is listed as a digit in RrelSyntax.tla but re disagrees")
    used = {ord(ch) for w in _ATTRS + _TYPES for ch in w if ord(ch) > 127}
    if not used <= set(UNI_LETTERS) | set(UNI_DIGITS):
        raise tlc.MachineryError("generator uses non-ASCII identifier characters the module does not know")


# ------------------------------------------------------------------ entry points
def run(rep):
    quick = rep.tier == "quick"
    rng = random.Random(rep.seed)
    procs = min(14, tlc.NCPU)
    rep.rule = ("S->I: every RREL tree of weight <= N over navigation a / ~a / 'n'~a (both quotes, names containing "
                "quotes), parent(T), dots, ^, *, brackets, ',' alternatives and '.' paths x flags, rendered by the "
                "module, parsed, printed and re-parsed by textx.scoping.rrel, both objects evaluated on fixed models. "
                "I->S: the implementation's printed text read by the module's parser; seeded-random deeper trees "
                "over more names. Non-trivial: more than one character and the expression finds at least one object "
                "on the fixed models; distinct by text.")
    rep.assumptions = [
        "'same structure' is equality of normal forms (^ = (..)* in front, e* = (e)* for unbracketed e, quote of a fixed "
        "name forgotten); 'same flags' is the same set of flag letters and equal importURI / use_proxy",
        "an expression is 'any RREL expression' iff rrel.parse accepts its text; trees that cannot be written are not built",
        "evaluation ('same results') is differential: rrel.find from every object of a fixed 13-object model for five names, "
        "with use_proxy taken from each expression's own flags",
        "identifier characters are ASCII plus a table of 12 non-ASCII letters / digits whose class the module states and "
        "the harness checks against Python's re; no other non-ASCII character is used in a name",
        "texts that differ only in white space or letter case are parsed by the same process one after the other "
        "(parse must not depend on what was parsed before)",
        "fixed names do not end in a backslash (the RREL string syntax cannot write such a name unambiguously: the "
        "backslash would escape the closing quote whenever another quote follows)",
    ]
    findings = common.open_findings(PID)
    _calibrate()
    phase, t0 = {}, time.time()

    def lap(name):
        nonlocal t0
        phase[name] = round(time.time() - t0, 1)
        t0 = time.time()

    n, shards = (3, max(2, min(12, tlc.NCPU))) if quick else (4, 16)
    cases, st = _universe(n, shards)
    rep.add_mc(f"MC_RrelSyntax[N={n}]", _Agg(st), THEOREMS)
    rep.bounds["universe"] = dict(weight=n, trees=len(cases), flags=5)
    lap("tlc_universe")
    obs = _observe_all(cases, procs)
    lap("textx_universe")
    reads = _spec_reads(rep, [o["printed"] for o in obs])
    lap("tlc_reads_printed")
    _judge_all(rep, cases, obs, reads, findings, "enumerated tree")
    lap("judge_universe")
    rep.exhaustive = True
    # random deeper trees
    trees = _random_trees(rng, 1500 if quick else 20000)
    res, st = _cached(["random", trees], lambda: list(tlc.oracle("OracleRrelSyntax", trees)))
    rep.add_oracle("OracleRrelSyntax[random trees]", st)
    lap("tlc_random_trees")
    rcases = []
    for t in trees:
        r = res[t["id"]]
        if not (r["exact"] and r["thm"]):
            rep.violation(dict(case=t, module=dict(exact=r["exact"], thm=r["thm"], text=r["text"])),
                          "RrelSyntax.tla itself does not read this tree back (theorem fails on the case)")
            continue
        rcases.append(r)
    robs = _observe_all(rcases, procs)
    lap("textx_random")
    rreads = _spec_reads(rep, [o["printed"] for o in robs])
    lap("tlc_reads_random")
    _judge_all(rep, rcases, robs, rreads, findings, "random tree")
    lap("judge_random")
    rep.bounds["random_trees"] = len(rcases)
    rep.extra["phase_wall_s"] = phase          # where the time went (not used in any verdict)


def replay(path):
    with open(path) as f:
        rec = json.load(f)
    case = rec["case"].get("case", rec["case"])
    if "ast" in case:          # a random tree the module itself could not read back
        res, _ = tlc.oracle("OracleRrelSyntax", [dict(id="a", mode="ast", ast=case["ast"])])
        print("module prints the tree as", repr(drv.text_of(res["a"]["text"])), "exact:", res["a"]["exact"],
              "round trip:", res["a"]["thm"])
        if not (res["a"]["exact"] and res["a"]["thm"]):
            return 1
        case = dict(text=res["a"]["text"])
    text = drv.text_of(case["text"])
    o = drv.run_case(text, text)
    res, _ = tlc.oracle("OracleRrelSyntax", [dict(id="t", mode="text", text=case["text"]),
                                            dict(id="p", mode="text", text=drv.codes_of(o["printed"]))])
    norm = _with_mp(res["t"]["read"])
    print("expression      ", repr(text))
    print("printed as      ", repr(o["printed"]), o["err"])
    print("module reads expression as", common.canon(norm)[:300])
    print("parser   (p1)   ", "same" if o["p1"] == norm else common.canon(o["p1"])[:300])
    print("re-parsed (p2)  ", "same" if o["p2"] == norm else common.canon(o["p2"])[:300])
    print("module reads printed text as", "same" if _with_mp(res["p"]["read"]) == norm else common.canon(res["p"]["read"])[:300])
    print("evaluation same ", o["eval_same"])
    ok = o["p1"] == norm and o["p2"] == norm and _with_mp(res["p"]["read"]) == norm and o["eval_same"] is True
    return 0 if ok else 1


def selftest():
    """The module is not vacuous: each deviation clause of RrelSyntax breaks RoundTrip in the (M) model."""
    bad = 0
    for dev, thm in DEV_BREAKS.items():
        r = tlc.model_check("MC_RrelSyntax", env=dict(VT_N=2, VT_SHARD=0, VT_NSHARDS=1, VT_DEV=dev), workers=1)
        print(f"Dev={{{dev}}}: violated={r.violated} (expected {thm})")
        bad += r.violated != thm
    return 1 if bad else 0


META = dict(
    modules=["Regex", "RrelSyntax", "MC_RrelSyntax", "OracleRrelSyntax"],
    level_text=("RrelSyntax.tla defines RREL abstract syntax, its text, a PEG parser and the normal form; TLC checks on "
                "every tree up to a weight bound over all operators and flag combinations that the parser inverts the "
                "printer and that printing the normal form and reading it again gives the same structure and flags; "
                "every such tree is parsed, printed and re-parsed by textx.scoping.rrel and compared with the module's "
                "normal form, the implementation's printed text is read by the module's parser, both expression objects "
                "are evaluated on fixed models, and seeded-random deeper trees go through the same pipeline."),
    level_note=("Weight bound 3 (quick) / 4 (thorough), two attribute names, one type, five fixed names in the exhaustive "
                "part; the module is a generator and oracle for a pure function (no interleavings); evaluation equality "
                "is differential on one fixed model."),
    technique="TLC model checking of RrelSyntax.tla theorems + exhaustive tree replay + TLC-evaluated parser on printed text",
)
