"""C08 -- reference lists keep the textual order of the references, under every postponement schedule.

(M)    spec/LoaderResolve.tla (the resolution loop of textx/model.py as a state machine) model-checked
       over every list shape x schedule of a small universe, references visited in *any* order:
       C08_ListOrder / C08_Partial and the loop invariants, termination under weak fairness;
(S->I) every scenario TLC enumerates (all statement shapes over <= 4 references x schedules 0..2, 1-2 files)
       is rendered as model text, loaded with real textX under a scheduled scope provider, and the final
       attribute contents / outcome compared with the module's;
(I->S) the provider calls logged in those loads and in bigger seeded-random ones are validated by TLC
       as behaviours of the module (TraceLoaderResolve.tla).
"""
from __future__ import annotations

import random

from .. import common, tlc
from ..drive import resolve as R

PID = "C08"
INVS = ["TypeOK", "C08_Partial", "C08_ListOrder", "AttrsComplete", "OncePerRound", "RoundBound",
        "ErrorNamesUnresolved", "C09_Verdict", "C09_Sound", "C09_Terminates"]
C08_CLAUSES = ("C08_Partial", "C08_ListOrder")


def _nontrivial(sc):
    return any(sc["sched"]) and any(st["list"] and len(st["refs"]) >= 2 for f in sc["files"] for st in f)


def run(rep):
    quick = rep.tier == "quick"
    rng = random.Random(rep.seed)
    rep.rule = ("S->I: every scenario (statement shapes over <= 4 references in 1-2 files x schedules "
                "[reference -> 0..2 postponements]; lists in which several references name the same target: every "
                "partition of <= 4 references; object structures: one object with two reference lists [and a single "
                "reference], a parent and its first child starting at the same input position with same-named lists; "
                "references that end in the metamodel's builtins after the provider's None answer) "
                "enumerated by TLC, loaded with real textX on one metamodel per worker process (earlier models dropped); I->S: the provider "
                "calls of those loads plus seeded-random scenarios (<= 3 files, <= 8 references, <= 3 postponements, "
                "dependencies) validated by TLC. Non-trivial: at least one postponement and a list of >= 2 "
                "references; distinct by scenario content.")
    rep.assumptions = [
        "references are told apart by their position in the text; the scheduled provider is the inner provider of "
        "textx.scoping.providers.ImportURI registered under '*.*' (its calls on behalf of imported models after a "
        "None answer are not counted as attempts)",
        "every rendered file holds at least one definition (a file without elements is returned by textX as a "
        "bare string, outside the carrier fragment)",
        "main model = file 1, imported files enter the repository in import order",
        "every scenario is loaded twice: with the provider registered under '*.*' and, nothing registered, with the "
        "provider attached to the reference attributes (MetaAttr.scope_provider, where lang.py puts the provider of "
        "an RREL expression written in the grammar); the grammar-attached run is skipped when a file that imports "
        "another has no reference (such imports are only loaded through a reference's provider)",
        "builtins are objects of an earlier model loaded with the same metamodel, put into metamodel.builtins",
    ]
    devs = {f["id"]: f["deviation"] for f in common.open_findings(PID)}
    # (M)
    fam = "c08mc" if quick else "c08small"
    r = tlc.require_ok(R.check_model(fam, "any", ""), f"MC_LoaderResolve {fam}")
    rep.add_mc(f"MC_LoaderResolve[{fam}, any order, FairSpec]", r, INVS)
    if not quick:
        r = tlc.require_ok(R.check_model("c08", "textual", "", cfg="MC_LoaderResolve_Safety.cfg"), "MC_LoaderResolve c08")
        rep.add_mc("MC_LoaderResolve[c08, textual, safety]", r, INVS[:-1])
    # each listed deviation clause must really break the C08 clauses of the module
    for fid, d in devs.items():
        r = R.check_model("c08mc", "textual", d, cfg="MC_LoaderResolve_Safety.cfg")
        if r.violated not in C08_CLAUSES:
            raise tlc.MachineryError(f"deviation {d} does not violate C08 in the module: {r.violated} {r.error}")
        rep.add_mc(f"MC_LoaderResolve[c08mc, Dev={{{d}}}] violates {r.violated}", r, [r.violated])
    # conformance
    stats = R.conformance(rep, ["c08"], "seq", devs, _nontrivial, 300 if quick else 4000, rng,
                          dict(max_files=3, max_refs=8, max_sched=3))
    rep.exhaustive = True
    rep.bounds.update(stats)
    rep.bounds["universe"] = "statement shapes over <= 4 references (1 file) / <= 3 references (2 files) x schedules 0..2"


def replay(path):
    return R.replay_case(path)


META = dict(
    modules=["LoaderResolve", "MC_LoaderResolve", "TraceLoaderResolve"],
    level_text=("LoaderResolve.tla states the reference-resolution loop of textx/model.py (rounds over the included "
                "models, resolve_one_step, postponement, the progress test, the unresolvable error) as a state machine "
                "with the scope provider as environment; TLC checks C08_ListOrder and the loop invariants for every "
                "list shape, schedule and visiting order of a small universe, every enumerated scenario is loaded with "
                "real textX and its lists compared with the module, and the provider calls recorded from real loads are "
                "validated by TLC as behaviours of the module."),
    level_note=("Bounded universe (<= 4 references, <= 2 postponements per reference, 1-2 files) for the exhaustive "
                "part, seeded-random beyond; the deviation clause AppendInResolutionOrder describes what "
                "resolve_one_step does (finding F-C08-1)."),
    technique="TLC model checking of LoaderResolve.tla + exhaustive scenario replay + TLC trace validation",
)
