"""C24 -- the self-hosted grammar textx.tx accepts exactly what the grammar compiler parses.

(M)    spec/MetaGrammar.tla: the textX meta-language as production data; TLC enumerates every
       token sequence the generator derives within the budgets and checks on each that the
       recogniser accepts it (GenInL), that its last token is needed, that the grammar under
       the deviation set Dev accepts the same texts (TxAgrees; Dev = {} is the property) and
       the C23 clauses; production coverage of the enumeration must be complete.
(S->I) every TLC-generated text, its one-token mutations, targeted texts and token soups go
       through both parsers: the compiler's own Arpeggio parser (textx.lang) and
       metamodel_for_language('textx').grammar_model_from_str.
Verdict: the two parsers disagree <=> the property fails on that text.  A disagreement is a
KNOWN-FINDING iff MetaGrammar with the *listed* Tx clauses predicts exactly both verdicts
(InL(text, {}) for the compiler, InL(text, Listed) for textx.tx); otherwise a VIOLATION.
"""
from __future__ import annotations

import json
import os
import random
from concurrent.futures import ThreadPoolExecutor

from .. import common, tlc
from ..drive import metagrammar as mg

PID = "C24"
TX_DEVS = ["TxNoRulesOk", "TxRrelRequired", "TxFlagOnlyM", "TxNoFixedName", "TxModifiersNotMixed",
           "TxIdentIsID", "TxBuiltinPrefix", "TxBuiltinBeforeDot", "TxRegexSplit"]


def _open_findings():
    """The listed open findings; VT_FINDINGS_OFF=1 tries none (to confirm repairs: every
    former KNOWN-FINDING case must then pass, or it is a VIOLATION)."""
    return [] if os.environ.get("VT_FINDINGS_OFF") else common.open_findings(PID)


def _judge_one(rep, c, o, r, fid_of):
    """Returns 'pass' | 'known' | ('violation', why)."""
    lang, tx = o["lang"], o["tx"]
    if lang not in ("acc", "rej") or tx not in ("acc", "rej"):
        return ("violation", f"a parser neither accepted nor reported a syntax error: compiler={lang} textx.tx={tx}")
    if o.get("txf", tx) != tx:
        return ("violation", f"textx.tx answers {tx} for the text {mg.text_of(c)!r} given as a string but {o['txf']} when "
                             f"the same text is inspected under a file name used before (compiler: {lang}): "
                             "its verdict depends on what was inspected earlier")
    if lang == tx:
        return "pass"
    l = "acc" if r["l"] else "rej"
    x = "acc" if r["x"] else "rej"
    if lang == l and tx == x:
        devs = sorted(r["by"]) or sorted(fid_of)
        fid = next((fid_of[d] for d in devs if d in fid_of), None)
        if fid:
            return ("known", fid)
    side = ("textx.tx drifted" if lang == l else "the compiler's grammar drifted" if tx == x
            else "both differ from the module")
    return ("violation", f"compiler {lang}, textx.tx {tx} on {mg.text_of(c)!r}; MetaGrammar: documented syntax says "
                         f"{l}, with the listed Tx clauses {x} ({side})")


def run(rep):
    quick = rep.tier == "quick"
    rng = random.Random(rep.seed)
    findings = _open_findings()
    fid_of = {f["deviation"]: f["id"] for f in findings if f["deviation"] in TX_DEVS}
    rep.rule = ("corpus = every token sequence TLC derives from MetaGrammar's productions within the budgets "
                "(grammar skeleton budget, link / modifier / parameter phrases in a canonical host) + one-token "
                "deletions, duplications, replacements, comment insertions + targeted texts + seeded token soups; "
                "each text goes through the compiler's parser and through textx.tx. Non-trivial: the compiler's "
                "parser accepts the text (the comparison exercises a construct, not just a common rejection) or "
                "the two parsers disagree; distinct by text.")
    rep.assumptions = [
        "texts are token sequences over MetaGrammar's alphabet rendered with one blank between tokens; "
        "character-level effects (a regex body that starts with blanks followed by //, keyword prefixes) are outside",
        "'the compiler parses without a syntax error' is observed on the compiler's own parser object "
        "(textx.lang.textX_parsers), i.e. before the visitor checks that also raise TextXSyntaxError",
        "compound names (A.B, a-b) are never used as replacement tokens",
        "textx.tx is asked twice per text: grammar_model_from_str(text), and through one file name per worker "
        "that is rewritten for every text (grammar_model_from_file / grammar_model_from_str(.., file_name=..)); "
        "both answers must be the verdict for that text",
    ]
    # (M) + enumeration
    with ThreadPoolExecutor(max_workers=2) as ex:
        f_ch = ex.submit(mg.tlc_chunks, rep.tier)
        res_emit, res_inv = mg.tlc_generate(rep.tier)
        res_ch = f_ch.result()
    tlc.require_ok(res_ch, "MetaGrammarLex (chunk enumeration, lexical rule)")
    rep.add_mc("MetaGrammarLex", res_ch, ["ReRuleSound", "FirstSlashCloses", "LexAgrees", "LexTotal"])
    chunks = res_ch.results("CHUNK")
    tlc.require_ok(res_emit, "MC_MetaGrammar_Emit (enumeration, coverage)")
    tlc.require_ok(res_inv, "MC_MetaGrammar (invariants)")
    rep.add_mc("MC_MetaGrammar_Emit", res_emit, ["Collect", "EmitFinal", "CoverageComplete (postcondition)"])
    rep.add_mc("MC_MetaGrammar", res_inv, mg.M_INVARIANTS)
    base = mg.base_from(res_emit)
    if not base:
        raise tlc.MachineryError("the generator printed nothing")
    if not quick:
        rd = mg.tlc_direction(rep.tier)
        tlc.require_ok(rd, "MC_MetaGrammar_Dir")
        rep.add_mc("MC_MetaGrammar_Dir", rd, ["DevDirection"])
        for d in TX_DEVS:      # the module is not vacuous: each clause breaks TxAgrees
            if d == "TxRegexSplit":     # a lexical clause: visible on the raw chunks only
                rv = mg.tlc_chunks(rep.tier, d)
                if rv.violated != "LexAgrees":
                    raise tlc.MachineryError(f"deviation {d} does not violate LexAgrees in the model ({rv.violated}, {rv.error})")
                rep.note(f"Dev={{{d}}}: LexAgrees violated in the model, as it must be")
                continue
            rv = mg.tlc_invariants(rep.tier, d)
            if rv.violated != "TxAgrees":
                raise tlc.MachineryError(f"deviation {d} does not violate TxAgrees in the model ({rv.violated}, {rv.error})")
            rep.note(f"Dev={{{d}}}: TxAgrees violated in the model, as it must be")
    cases, total_mut = mg.build_cases(base, rng, rep.tier, PID, chunks=chunks)
    cases = mg.witness_cases(findings) + cases
    rep.bounds.update(budgets=mg.BUDGETS[rep.tier], generated=len(base), mutants_total=total_mut,
                      corpus=len(cases), by_seed={mg.SEED_NAMES.get(s, str(s)): sum(1 for b in base if b["seed"] == s)
                                                  for s in sorted({b["seed"] for b in base})})
    rep.exhaustive = not quick
    # oracle (TLC) and observation (real code) side by side
    with ThreadPoolExecutor(max_workers=2) as ex:
        f_or = ex.submit(mg.oracle, cases, sorted(fid_of))
        f_ob = ex.submit(mg.observe, cases, ("lang", "tx", "txf"))
        orc, st = f_or.result()
        obs = f_ob.result()
    rep.add_oracle("MetaGrammarOracle", st)
    notes = dict(compiler_vs_module=[], textx_tx_vs_module=[])
    viols = []
    for c in cases:
        o, r = obs[c["id"]], orc[c["id"]]
        v = _judge_one(rep, c, o, r, fid_of)
        shown = dict(text=mg.text_of(c), compiler=o["lang"], textx_tx=o["tx"])
        if v == "pass":
            rep.passed(shown, nontrivial=o["lang"] == "acc")
            if c.get("text") is None:
                if (o["lang"] == "acc") != r["l"]:
                    notes["compiler_vs_module"].append(mg.text_of(c))
                if (o["tx"] == "acc") != r["x"]:
                    notes["textx_tx_vs_module"].append(mg.text_of(c))
        elif v[0] == "known":
            rep.known_finding(v[1], shown)
            rep.nontrivial.add(common.digest(shown))
        else:
            viols.append((c, o, r, v[1]))
    viols.sort(key=lambda z: (len(z[0]["toks"]), z[0]["id"]))
    if viols:
        c0 = viols[0][0]

        def still_bad(cands):
            oc, _ = mg.oracle(cands, sorted(fid_of))
            ob = mg.observe(cands, ("lang", "tx"))
            vs = [_judge_one(rep, k, ob[k["id"]], oc[k["id"]], fid_of) for k in cands]
            return [isinstance(v_, tuple) and v_[0] == "violation" for v_ in vs]
        small = mg.shrink(c0, still_bad, max_rounds=2)
        if small["toks"] != c0["toks"]:
            s2 = dict(small, id="shrunk")
            oc, _ = mg.oracle([s2], sorted(fid_of))
            ob = mg.observe([s2], ("lang", "tx"))
            v = _judge_one(rep, s2, ob["shrunk"], oc["shrunk"], fid_of)
            if isinstance(v, tuple) and v[0] == "violation":
                viols.insert(0, (s2, ob["shrunk"], oc["shrunk"], v[1] + " [shrunk]"))
    for c, o, r, why in viols:
        rep.violation(dict(toks=c["toks"], text=c.get("text"), raws=c.get("raws"), shown=mg.text_of(c), kind=c["kind"], observed=dict(compiler=o["lang"], textx_tx=o["tx"]),
                           module=dict(l=r["l"], x=r["x"], by=sorted(r["by"]))), why)
    cov = mg.coverage_union(orc)
    rep.extra["production_coverage"] = dict(labels=len(cov), accepted_texts=sum(1 for r in orc.values() if r["l"]))
    rep.extra["module_notes"] = {k: dict(count=len(v), sample=v[:8]) for k, v in notes.items()}
    rep.extra["disagreements_by_clause"] = rep.known
    if notes["compiler_vs_module"] or notes["textx_tx_vs_module"]:
        rep.note("the module's InL differs from an implementation on texts where both parsers agree "
                 "(binding note, not a C24 violation): see module_notes")


def replay(path):
    with open(path) as f:
        rec = json.load(f)
    case = rec["case"]
    c = dict(id="replay", kind="replay", toks=case["toks"])
    if case.get("text") is not None:
        c["text"] = case["text"]
    if case.get("raws"):
        c["raws"] = case["raws"]
    findings = _open_findings()
    fid_of = {f["deviation"]: f["id"] for f in findings if f["deviation"] in TX_DEVS}
    o = mg.observe_one(c, ("lang", "tx"))
    orc, _ = mg.oracle([c], sorted(fid_of))
    r = orc["replay"]
    print("text     :", repr(mg.text_of(c)))
    print("compiler :", o["lang"])
    print("textx.tx :", o["tx"])
    print("module   : documented", r["l"], " with listed Tx clauses", r["x"], " by", sorted(r["by"]))
    v = _judge_one(None, c, o, r, fid_of)
    print("verdict  :", v)
    return 0 if v == "pass" else 1


META = dict(
    modules=["MetaGrammar", "MetaGrammarGen", "MC_MetaGrammar", "MetaGrammarOracle"],
    level_text=("MetaGrammar.tla states the textX meta-language as production data with a PEG recogniser and a "
                "bounded generator; TLC enumerates every derivable token sequence within the budgets, checks on "
                "each that generator and recogniser agree, that the grammar under the deviation set accepts the "
                "same texts and that production coverage is complete; every generated text, its one-token "
                "mutations, targeted texts and token soups are parsed by the grammar compiler's parser and by "
                "textx.tx, a disagreement being a violation unless the module with the listed Tx clauses "
                "predicts exactly both verdicts."),
    level_note=("Token level: texts are sequences over a fixed alphabet rendered with blanks; budgets bound the "
                "enumeration (quick: skeleton 2 / link 4 / modifiers 3 / params 3; thorough 3/5/4/4); replacement "
                "mutations are sampled per position; Dev = {} makes TxAgrees the statement that one grammar "
                "describes both parsers, its content lies in the deviation clauses each shown to break it."),
    technique="TLC enumeration over MetaGrammar.tla + differential parsing judged by TLC-evaluated InL",
)
