"""C30 -- the textx CLI reports outcomes and passes generator arguments faithfully.

(M)    spec/Cli.tla model-checked over a bounded universe of command lines
       (MC_Cli): the clauses of the property are invariants of every case;
(S->I) every case TLC enumerates is rendered into files, registrations and an
       argv, run through the real `textx` click command in-process
       (click.testing.CliRunner) with a recording generator, and the
       observation is judged by TLC (EvalCli: AcceptsD(case, obs, {}));
(I->S) seeded-random longer command lines (more names, values, files,
       declarations) are run the same way and judged by TLC.
"""
from __future__ import annotations

import json
import random
from concurrent.futures import ThreadPoolExecutor

from .. import common, tlc
from ..drive import cli as drv

PID = "C30"
INVS = ["InvExitStatus", "InvNamesNormalised", "InvFlagsAndValues", "InvDeclaredEnforced",
        "InvGenerateOutcome", "InvCheckOutcome", "InvModelParams"]
KNOWN_DEVS = {"BareFlagKeepsDashes"}
OVERWRITE = "--overwrite"


# ------------------------------------------------------------------ presentation helpers (no semantics)
def _decl(d):
    return [[drv.text(p["name"]), p["mandatory"]] for p in d["params"]] if d["declared"] else None


def show(case):
    langs = case["langs"]
    return dict(cmd=case["cmd"], mode=case["mode"], selected=drv.text(langs[case["sel"] - 1]["name"]),
                argv=[drv.text(t) for t in case["argv"]],
                languages={drv.text(l["name"]): dict(pattern="*" + drv.text(l["suffix"]),
                                                     model_params=[drv.text(x) for x in l["mparams"]],
                                                     declared=_decl(l["decl"])) for l in langs},
                any_declared=_decl(case["anydecl"]),
                files={drv.text(f["name"]): [drv.text(langs[f["lang"] - 1]["name"])] +
                       ([f["status"], f["line"], f["col"]] if f["status"] != "ok" else ["ok"])
                       for f in case["files"]})


def _kw(ks):
    return {drv.text(k["key"]): (True if k["ty"] == "bool" else drv.text(k["val"]) if k["ty"] == "str"
                                 else f"<{k['ty']}>") for k in ks}


def _call(c):
    return dict(file=drv.text(c["file"]), gen=drv.text(c["gen"]), ow=c["ow"], kw=_kw(c["kw"]), model_params=_kw(c["mp"]))


def show_obs(o):
    return dict(exit=o["exit"], why=o["why"], exc=o.get("exc", ""), msg=o.get("msg", ""),
                calls=[_call(c) for c in o["calls"]],
                locs=[[drv.text(x["file"]), x["line"], x["col"]] for x in o["locs"]],
                oks=[drv.text(x) for x in o["oks"]])


def show_exp(e):
    if not isinstance(e, dict):
        return e
    return dict(exit=e["exit"], why=sorted(e["why"]), calls=[_call(c) for c in e["calls"]],
                may_call=[_call(c) for c in e["allowed"]] if e["exit"] else "=calls",
                locs=[[drv.text(x["file"]), x["line"], x["col"]] for x in e["locs"]])


def nontrivial(case):
    toks = [drv.text(t) for t in case["argv"]]
    if case["cmd"] == "check":
        st = {drv.text(f["name"]): f["status"] for f in case["files"]}
        return len(toks) >= 2 or any(st.get(t) != "ok" for t in toks)      # (presentation only)
    return any(t.startswith("--") and t != OVERWRITE for t in toks)


# ------------------------------------------------------------------ (M) and case emission
def _mc(size):
    return tlc.model_check("MC_Cli", cfg="MC_Cli.cfg", env={"VT_DECL": "all", "VT_SIZE": size}, timeout=1500)


def _emit(size, d):
    r = tlc.model_check("MC_Cli", cfg="MC_Cli_Emit.cfg", env={"VT_DECL": str(d), "VT_SIZE": size},
                        workers=1, timeout=1500)
    tlc.require_ok(r, f"MC_Cli_Emit decl {d}")
    cs = r.results("CASE")
    if len(cs) != r.distinct:
        raise tlc.MachineryError(f"MC_Cli_Emit decl {d}: {r.distinct} states but {len(cs)} emitted cases")
    return r, cs


# ------------------------------------------------------------------ random command lines (I->S)
NAMES = ["a", "b", "c", "a-b", "a_b", "a-b-c", "c-", "x1", "a--b", "b_c-x", "x-2", "a_-b"]
VALUES = ["1", "x", '"x y"', "'q'", "\"'z'\"", 'x"y', '""', "a-b", "k=v", "it's", "'--a'", " sp ", "'\"n\"'",
          "-5", "-", "-0.25", "-x", "-2b", "-.5"]
# sets of registered languages: (name, pattern suffix).  Patterns that share the last extension,
# patterns for files without any extension, a single language.
LANGSETS = [
    [("vta", ".a.vtm"), ("vtb", ".b.vtm")],
    [("vtreq", ".req.vtm"), ("vtspec", ".spec.vtm"), ("vtpipe", "Pipefile"), ("vtbuild", "Buildfile")],
    [("vtm", ".vtm")],
    [("vtx1", "_x.vtm"), ("vtx2", "_y.vtm"), ("vtx3", ".z")],
]


def _random_decl(rng, pool):
    if rng.random() < 0.35 or not pool:
        return dict(declared=False, params=[])
    chosen = rng.sample(pool, rng.randint(1, len(pool)))
    return dict(declared=True, params=[dict(name=drv.codes(n), mandatory=rng.random() < 0.35) for n in chosen])


def _random_case(rng):
    lset = rng.choice(LANGSETS)
    names = rng.sample(NAMES, rng.randint(1, 5))
    # declaration and model-parameter names are written as Python identifiers by whoever registers them
    idents = sorted({n.replace("-", "_") for n in names})
    pool = idents + (["zz"] if rng.random() < 0.15 else [])
    mpsets = [rng.sample(idents, rng.randint(0, min(2, len(idents)))) if rng.random() < 0.5 else [] for _ in lset]
    if len(set(map(tuple, mpsets))) > 1 and rng.random() < 0.5:
        mpsets = [mpsets[0]] * len(lset)          # keep the number of distinct registrations small
    langs = [dict(name=drv.codes(n), suffix=drv.codes(sfx), mparams=[drv.codes(x) for x in sorted(mp)],
                  decl=_random_decl(rng, pool)) for (n, sfx), mp in zip(lset, mpsets)]
    if rng.random() < 0.4:                        # every generator declares the same
        for l in langs[1:]:
            l["decl"] = langs[0]["decl"]
    files, fnames, oknames = [], [], []
    for k in range(rng.randint(1, 6)):
        owner = rng.randrange(len(lset))
        named = owner if rng.random() < 0.9 else rng.randrange(len(lset))   # sometimes named like another language
        sfx = lset[named][1]
        name = ("m%d" % (k + 1)) + sfx
        st = rng.choice(["ok", "ok", "ok", "syntax", "semantic"])
        line, col = (0, 0) if st == "ok" else (rng.randint(2, 6), rng.randint(5 if st == "semantic" else 1, 9))
        files.append(dict(name=drv.codes(name), lang=owner + 1, status=st, line=line, col=col))
        fnames.append(name)
        if st == "ok" and named == owner:
            oknames.append(name)
    oknames = oknames or fnames
    mode = rng.choice(["language", "grammar", "ext", "ext"])
    sel = rng.randrange(len(lset)) + 1
    d0 = dict(declared=False, params=[])
    base = dict(mode=mode, sel=sel, langs=langs, anydecl=_random_decl(rng, pool), files=files)
    if rng.random() < 0.25:
        toks = [rng.choice(fnames if rng.random() < 0.4 else oknames) for _ in range(rng.randint(1, 6))]
        for l in langs:
            l["decl"] = d0
        return dict(base, cmd="check", anydecl=d0, argv=[drv.codes(t) for t in toks])
    toks = []
    for _ in range(rng.randint(1, 8)):
        r = rng.random()
        if r < 0.30:
            toks.append("--" + rng.choice(names))
        elif r < 0.62:
            toks += ["--" + rng.choice(names), rng.choice(VALUES)]
        elif r < 0.86:
            toks.append(rng.choice(oknames if rng.random() < 0.8 else fnames))
        elif r < 0.95:
            toks.append(OVERWRITE)
        else:
            toks.append(rng.choice(VALUES + fnames))      # raw token: may leave the judged fragment
    return dict(base, cmd="generate", argv=[drv.codes(t) for t in toks])


# ------------------------------------------------------------------ judging
def _judge_all(rep, groups, devs):
    """groups: [(label, cases, must_be_in_fragment)].  Runs the real command on every case and lets TLC
    judge all observations in one sharded oracle pass.  Returns {label: counters}."""
    cases = [c for _, cs, _ in groups for c in cs]
    obs = drv.run_cases(cases)
    batch = [dict(id=i, case=c, obs={k: o[k] for k in ("exit", "calls", "why", "locs", "oks")},
                  devs=sorted(devs)) for i, (c, o) in enumerate(zip(cases, obs))]
    res, st = tlc.oracle("EvalCli", batch)
    rep.add_oracle("EvalCli[" + "+".join(g[0] for g in groups) + "]", st)
    out, bad, i = {}, [], 0
    for label, cs, must in groups:
        counts = out[label] = dict(cases=len(cs), judged=0, outside_fragment=0)
        for c in cs:
            o, r = obs[i], res[i]
            i += 1
            if not r["infrag"]:
                if must:
                    raise tlc.MachineryError(f"TLC enumerated a case outside the fragment: {show(c)}")
                counts["outside_fragment"] += 1
                continue
            counts["judged"] += 1
            if r["ok"]:
                rep.passed(show(c), nontrivial=nontrivial(c))
            elif r["okdev"] and r["okdev"][0] in devs:
                rep.known_finding(devs[r["okdev"][0]], show(c))
            else:
                bad.append((c, o, r))
    for k, (c, o, r) in enumerate(bad):
        if k < 2:
            c, o, r = _shrink(c, o, r, devs)
        rep.violation(dict(case=c, shown=show(c), observed=show_obs(o), expected=show_exp(r["exp"])),
                      f"textx {' '.join(o['argv'])!r} (languages={show(c)['languages']}): observed {show_obs(o)} "
                      f"but Cli.tla prescribes {show_exp(r['exp'])}")
    return out


def _shrink(case, obs, res, devs):
    """Drop argv tokens / declared parameters / model parameters while TLC still rejects the observation."""
    for _ in range(8):
        cands = []
        for i in range(len(case["argv"])):
            cands.append(dict(case, argv=case["argv"][:i] + case["argv"][i + 1:]))
        for k, l in enumerate(case["langs"]):
            ps = l["decl"]["params"]
            for i in range(len(ps)):
                if len(ps) > 1:
                    l2 = dict(l, decl=dict(declared=True, params=ps[:i] + ps[i + 1:]))
                    cands.append(dict(case, langs=case["langs"][:k] + [l2] + case["langs"][k + 1:]))
            for i in range(len(l["mparams"])):
                l2 = dict(l, mparams=l["mparams"][:i] + l["mparams"][i + 1:])
                cands.append(dict(case, langs=case["langs"][:k] + [l2] + case["langs"][k + 1:]))
        cands = [c for c in cands if c["argv"]]
        if not cands:
            break
        obs2 = drv.run_cases(cands)
        batch = [dict(id=i, case=c, obs={k: o[k] for k in ("exit", "calls", "why", "locs", "oks")}, devs=sorted(devs))
                 for i, (c, o) in enumerate(zip(cands, obs2))]
        res2, _ = tlc.oracle("EvalCli", batch, shards=1)
        nxt = next((i for i in range(len(cands))
                    if res2[i]["infrag"] and not res2[i]["ok"] and not res2[i]["okdev"]), None)
        if nxt is None:
            break
        case, obs, res = cands[nxt], obs2[nxt], res2[nxt]
    return case, obs, res


def run(rep):
    quick = rep.tier == "quick"
    size = "quick" if quick else "thorough"
    rng = random.Random(rep.seed)
    rep.rule = ("S->I: every case of the bounded universe MC_Cli (argv x generator declaration x language-selection "
                "mode; `check` over file lists) run through the real click command and judged by TLC; I->S: "
                "seeded-random longer command lines judged the same way. Non-trivial: a generate line with at least "
                "one custom argument, or a check line with >= 2 files or a failing file; distinct by content.")
    rep.assumptions = [
        "the commands are driven in-process with click.testing.CliRunner; log records are captured with a handler on "
        "the root logger (the command reports through logging, not stdout)",
        "model files exist (the property is stated for existing files); a token in model-file position that is not "
        "an existing file puts the case outside the judged fragment",
        "custom argument names are drawn from the characters a b c x 1 2 - _ (they cannot spell an option of the "
        "command itself, contain no '='); a token starting with a single dash is judged in value position only "
        "(directly after a custom --name; digits, '.', a b c x after the dash so that click cannot read it as -o/-i), "
        "in model-file position it puts the case outside the fragment",
        "for a repeated name the last occurrence wins (keyword-argument semantics)",
        "a run without model files is judged only with an explicit --language",
        "when exit 1 is prescribed the generator may have been called for earlier model files that load, never "
        "with rejected arguments; the class of the error message (load / missing / undeclared) must be one that "
        "applies, their precedence is not judged",
        "declared parameter names are Python identifiers (no dashes) and a declaring generator declares >= 1 parameter",
        "carrier languages: one grammar body, the language's name as first keyword at 1:1 (a file loaded with "
        "another language's meta-model is a syntax error at 1:1); patterns are '*<suffix>', no suffix ends another; "
        "with a deduced language exactly one pattern matches every model file; every language has its own recording "
        "generator for the target and one is registered for 'any' (it serves --grammar)",
        "model parameters are defined on the registered meta-model (a meta-model built from --grammar defines none); "
        "a custom argument that is a model parameter reaches the model AND the generator",
    ]
    findings = common.open_findings(PID)
    devs = {f["deviation"]: f["id"] for f in findings if f["deviation"] in KNOWN_DEVS}

    # (M) and the emission of every case run side by side (separate TLC processes)
    with ThreadPoolExecutor(max_workers=max(1, min(5, tlc.NCPU))) as ex:
        fm = ex.submit(_mc, size)
        # quick: one emitting process; thorough: one per generator declaration
        fe = [ex.submit(_emit, size, d) for d in (["all"] if quick else range(4))]
        mc = fm.result()
        emitted = [f.result() for f in fe]
    tlc.require_ok(mc, "MC_Cli")
    rep.add_mc("MC_Cli", mc, INVS)
    cases = []
    for r, cs in emitted:
        cases += cs
    if 2 * len(cases) != mc.distinct:      # (M) has two states per case: before and after the run
        raise tlc.MachineryError(f"emitted {len(cases)} cases but the model checker saw {mc.distinct} states")
    rep.extra["tlc_emission"] = dict(runs=len(emitted), cases=len(cases), wall_s=round(max(r.wall_s for r, _ in emitted), 2),
                                     cmd=emitted[0][0].cmd)
    cases.sort(key=common.canon)
    nrand = 3000 if quick else 40000
    rcases = [_random_case(rng) for _ in range(nrand)]
    counts = _judge_all(rep, [("universe", cases, True), ("random", rcases, False)], devs)
    rep.bounds["universe"] = dict(size=size, **counts["universe"])
    rep.bounds["random"] = dict(**counts["random"], max_tokens=17)
    rep.exhaustive = True
    if not quick:
        # the module is not vacuous: with the deviation switched on TLC reports the clause violated
        r = tlc.model_check("MC_Cli", cfg="MC_Cli_DevBare.cfg", env={"VT_DECL": "all", "VT_SIZE": "quick"},
                            timeout=1500)
        if r.violated is None:
            raise tlc.MachineryError("MC_Cli with Dev={BareFlagKeepsDashes} did not violate any invariant")
        rep.note(f"Dev={{BareFlagKeepsDashes}}: TLC reports {r.violated} violated")


def replay(path):
    with open(path) as f:
        rec = json.load(f)
    case = rec["case"]["case"]
    devs = {f["deviation"]: f["id"] for f in common.open_findings(PID) if f["deviation"] in KNOWN_DEVS}
    obs = drv.run_cases([case])[0]
    res, _ = tlc.oracle("EvalCli", [dict(id=0, case=case, devs=sorted(devs),
                                        obs={k: obs[k] for k in ("exit", "calls", "why", "locs", "oks")})], shards=1)
    r = res[0]
    print("case     ", show(case))
    print("argv     ", obs["argv"])
    print("observed ", show_obs(obs))
    print("expected ", show_exp(r["exp"]) if r["infrag"] else "(outside the judged fragment)")
    print("verdict  ", "conforms" if r["ok"] else (f"explained by {r['okdev']}" if r["okdev"] else "does not conform"))
    return 0 if (r["ok"] or not r["infrag"]) else 1


META = dict(
    modules=["Cli", "MC_Cli", "EvalCli"],
    level_text=("Cli.tla states `textx generate` (argument scan, normalisation of names, validation against the "
                "declared parameters, one generator call per model) and `textx check` (exit status, located error) "
                "as a function of the command line; TLC checks the property's clauses as invariants over a bounded "
                "universe of command lines, every one of those cases is run through the real click commands "
                "in-process and the observation is judged by TLC, and seeded-random longer command lines are judged "
                "the same way."),
    level_note=("The module is a function, so TLC contributes exhaustive enumeration and the executable definition, "
                "not interleavings. Universe: names a, a-b, a_b; bare / valued / quoted / dash-leading value (-5, -); <= 3 custom arguments in "
                "every order, raw token sequences up to 3 (quick) or 4 (thorough) tokens, 4 declarations, 3 ways of "
                "choosing the language; check over <= 3 files. Beyond that coverage is seeded-random."),
    technique="TLC model checking of Cli.tla over a bounded argv universe + exhaustive replay + TLC-judged random runs",
)
