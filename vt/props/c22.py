"""C22 -- whitespace and comments between tokens do not change the model."""
from __future__ import annotations

import random

from .. import common
from ..drive import peg as D
from ..gen import peg as G
from . import c01
from . import pegcommon as P

PID = "C22"
OPTS = dict(max_rules=4, depth=3, comment=0.55, modifiers=0.4, unord=0.1, preds=0.08, sup=0.1, eol=0.15, sep=0.3,
            ws_mod=0.2)


def insertions(rng, s, has_comment, k):
    out = []
    for _ in range(k):
        i = rng.randrange(len(s) + 1)
        w = rng.choice([" ", "\n", "\t", "  ", " \n"] + (["#a\n", "# b a\n", "#\n"] if has_comment else []))
        out.append(s[:i] + w + s[i:])
    return out


def cases_for(rng, n, per):
    gg = G.GrammarGen(rng, OPTS)
    cases = []
    for _ in range(n):
        g = gg.grammar()
        cfg = D.default_cfg(skipws=rng.random() < 0.8, ws=G.codes(rng.choice(["", "", " ", " \n", "\t "])))
        if not cfg["ws"] and rng.random() < 0.15:
            cfg["wsnone"] = True           # ws='' given: nothing is whitespace, comments are still skipped
        sg = G.SentenceGen(rng, g)
        has_c = any(r["name"] == "Comment" for r in g["rules"])
        for _k in range(per):
            toks = sg.sentence()
            s = G.join(rng, toks, has_c)
            for v in [s] + insertions(rng, s, has_c, 3):
                cases.append(dict(id=len(cases), g=g, cfg=cfg, s=G.codes(v)))
    return cases


def run(rep):
    rng = random.Random(rep.seed)
    quick = rep.tier == "quick"
    P.replay_witnesses(rep, PID)
    rep.rule = ("S->I: the MC_Peg 'mods' universe (noskipws and ws rule modifiers, nested rules inheriting and "
                "overriding them, eolterm, with and without a Comment rule) x all inputs of <= 5 symbols over "
                "{a, b, space, newline, #}; I->S: seeded-random grammars with global skipws/ws settings, rule modifiers "
                "and Comment rule, each input also with whitespace / comment text inserted at random positions. "
                "Verdict: textX equals Peg!Outcome (Skip / EffWs / SkipComments clauses; TLC checks WsInsertion on the "
                "universes without modifiers). Non-trivial: accepted inputs.")
    rep.assumptions = ["Peg!WellFormed fragment", "a ws rule modifier is not used together with eolterm in one grammar"]
    P.judge_universe(rep, PID, "mods", 1 if quick else 2, maxlen=4 if quick else "")
    if not quick:
        P.judge_universe(rep, PID, "ops", 2)
    rep.exhaustive = True
    n, per = (100, 3) if quick else (1200, 4)
    info, stats = P.judge_cases(rep, PID, cases_for(rng, n, per), label="random-whitespace")
    rep.bounds["random"] = stats


def replay(path):
    return P.replay_case(path, PID)


META = dict(
    modules=["Peg", "PegOracle", "MC_Peg"],
    level_text=("Peg.tla states whitespace and comment skipping per context (global skipws/ws, rule modifiers, eolterm); "
                "TLC checks on the universes that inserting whitespace before any token of an accepted input changes "
                "nothing but positions (WsInsertion); the 'mods' universe and random grammars with inserted whitespace "
                "and comments are replayed against textX."),
    level_note="Fragment Peg!WellFormed; ws modifier not combined with eolterm; renderer/projector trusted.",
    technique="TLC model checking of the whitespace-insertion theorem + oracle replay",
)
