"""C29 -- DOT / PlantUML exports are well-formed for any model and meta-model.

(M)    spec/DotLex.tla (character-level pushdown recogniser of DOT and of Graphviz
       record labels), spec/Puml.tla (line-level recogniser) and spec/DotExport.tla
       (which text the exporter puts into the free-text fields): TLC checks over all
       short strings of tiny alphabets that accepted texts are balanced, that rejection
       is final, that the recogniser agrees with reference scanners, and that escaped
       fields never break the output (EscapeSuffices).
(I->S) a corpus of meta-models and models (names and values over quotes, backslashes,
       braces, pipes, angle brackets, newlines, unicode; lists mixing objects and
       primitive values) is exported with metamodel_export, model_export, the PlantUML
       renderer and the registered generators; every output is a trace (one character /
       one line per step) that TLC accepts or rejects; the statement counts of an
       accepted text are compared with the classes / objects of the model.
Calibration: `dot -Tcanon` is the ground truth for validity.  DotLex rejecting a text
       that dot accepts is a machinery failure (the recogniser is never stricter than
       Graphviz); dot rejecting a text that DotLex accepts is a VIOLATION.
An exporter that raises is a VIOLATION as well.
A rejected output is explained by a listed deviation clause of DotExport.tla iff TLC
       predicts the defect for a field of that model and re-exporting the model with
       exactly those fields neutralised gives a well-formed output that differs from
       the rejected one only from the first such field on.
"""
from __future__ import annotations

import json
import os
import random
import shutil
import subprocess
import threading
from concurrent.futures import ThreadPoolExecutor

from .. import common, tlc
from ..drive import export as drv

PID = "C29"
DOT = "/usr/bin/dot"
INV_FIELD = ["RecBalanced", "EscapeSuffices", "RecPrefixClosed"]
INV_STMT = ["DepthAgrees", "AcceptBalanced", "CountsSane", "ErrSticky"]
INV_PUML = ["AcceptBalanced", "StateAgrees", "FoldAgrees", "ErrSticky"]
# deviation clause -> invariant of MC_Dot it must break (non-vacuity, rule 6)
DEV_BREAKS = {"NameNotEscaped": "EscapeSuffices", "MixedPrimitiveNotEscaped": "EscapeSuffices"}
# deviation clauses about which classes a meta-model export shows (DotExport!Drawn)
DRAW_DEVS = {"TransitiveImportsNotDrawn"}


# ------------------------------------------------------------------ TLC: traces and oracle
_SLOTS = threading.BoundedSemaphore(tlc.NCPU)      # TLC processes of this check running at once


def _tlc(*a, **kw):
    with _SLOTS:
        return tlc.model_check(*a, **kw)


def _batches(items, size_of, limit):
    """Split items into at most tlc.NCPU groups of similar total size."""
    n = max(1, min(tlc.NCPU, (sum(size_of(x) for x in items) + limit - 1) // limit))
    groups = [[] for _ in range(n)]
    tot = [0] * n
    for x in sorted(items, key=size_of, reverse=True):
        k = tot.index(min(tot))
        groups[k].append(x)
        tot[k] += size_of(x)
    return [g for g in groups if g]


def run_traces(module, cfg, traces, size_of, extra_env=None):
    """traces: list of dicts with unique id.  Returns ({id: result}, merged stats)."""
    if not traces:
        return {}, None
    work = tlc.scratch("vt-c29t-")
    groups = _batches(traces, size_of, 40000)

    def one(k):
        path = os.path.join(work, f"t{k}.json")
        with open(path, "w") as f:
            json.dump(groups[k], f)
        env = dict(VT_TRACES=path, VT_MAXLEN="1")
        env.update(extra_env or {})
        return _tlc(module, cfg=cfg, env=env, workers=1, timeout=3000, heap="3g")
    try:
        with ThreadPoolExecutor(max_workers=len(groups)) as ex:
            rs = list(ex.map(one, range(len(groups))))
    finally:
        shutil.rmtree(work, ignore_errors=True)
    out = {}
    for k, r in enumerate(rs):
        tlc.require_ok(r, f"{module} traces group {k}")
        for x in r.results("RESULT"):
            out[x["id"]] = x
    missing = [t["id"] for t in traces if t["id"] not in out]
    if missing:
        raise tlc.MachineryError(f"{module}: no verdict for traces {missing[:5]}")

    class M:
        distinct = sum(r.distinct for r in rs)
        generated = sum(r.generated for r in rs)
        depth = max(r.depth for r in rs)
        wall_s = max(r.wall_s for r in rs)
        cmd = rs[0].cmd + f"   (x{len(rs)} groups)"
        coverage = {}
    return out, M


def dot_traces(texts):
    """texts: {id: str}.  DotLex verdict per text."""
    tr = [dict(id=i, text=drv.codes(t)) for i, t in texts.items() if t]
    return run_traces("TraceDot", "TraceDot.cfg", tr, lambda x: len(x["text"]) + 50)


def puml_traces(texts):
    tr = [dict(id=i, lines=[drv.codes(ln) for ln in t.split("\n")]) for i, t in texts.items() if t]
    return run_traces("MC_Puml", "MC_Puml_Trace.cfg", tr, lambda x: 20 * len(x["lines"]) + 50)


def predict(cases, dev):
    """cases: [(id, kind, string)] -> {id: 'wellformed'|'malformed'} by DotExport!Predict with Dev = {dev}."""
    if not cases:
        return {}, None
    cs = [dict(id=i, kind=k, s=drv.codes(s)) for i, k, s in cases]
    res, st = tlc.oracle("MC_Dot", cs, cfg="MC_Dot_Oracle.cfg", env=dict(VT_DEV=dev, VT_MAXLEN="1"))
    return {i: r["v"] for i, r in res.items()}, st


# ------------------------------------------------------------------ calibration against Graphviz
def dot_available():
    return os.path.exists(DOT) and os.access(DOT, os.X_OK)


def dot_verdicts(paths):
    """{id: True iff `dot -Tcanon` exits 0}"""
    def one(item):
        i, p = item
        r = subprocess.run([DOT, "-Tcanon", p], stdout=subprocess.DEVNULL, stderr=subprocess.PIPE, timeout=120)
        return i, r.returncode == 0, r.stderr.decode("utf8", "replace")[:200]
    with ThreadPoolExecutor(max_workers=tlc.NCPU) as ex:
        return {i: (ok, msg) for i, ok, msg in ex.map(one, sorted(paths.items()))}


# ------------------------------------------------------------------ the corpus
def load_mm(kind, gdir):
    """Write the grammar file(s) of a corpus grammar into gdir and load the main one."""
    from textx import metamodel_from_file
    files = drv.grammar_files(kind)
    for name, text in files.items():
        drv.write(os.path.join(gdir, name), text)
    kw = {}
    if kind in drv.USER_CLASSES:
        kw["classes"] = drv.USER_CLASSES[kind]
    mm = metamodel_from_file(os.path.join(gdir, next(iter(files))), **kw)
    if kind == "repo":       # multi-file models: the export draws one cluster per file
        import textx.scoping.providers as sp
        mm.register_scope_providers({"*.*": sp.PlainNameImportURI()})
    return mm


def drawn_classes(files_by_kind, dev):
    """DotExport!Drawn for every corpus grammar: {kind: set of class names a meta-model export must show}."""
    cases = [dict(id=k, files=[dict(ns=f["ns"], imports=f["imports"], classes=f["classes"], subs=f["subs"]) for f in fs])
             for k, fs in files_by_kind.items()]
    res, st = tlc.oracle("MC_Dot", cases, cfg="MC_Dot_Draw.cfg", env=dict(VT_DEV=dev, VT_MAXLEN="1"))
    return {k: dict(drawn=set(r["drawn"]), crash=bool(r["crash"])) for k, r in res.items()}, st


class Corpus:
    def __init__(self, root, rng, n_models):
        self.root = root
        self.mms = {}
        self.models = []          # dict(id, kind, model, text)
        self.skipped = 0
        for kind, g in drv.GRAMMARS.items():
            self.mms[kind] = load_mm(kind, os.path.join(root, "g", kind))
        plan = []
        for kind in drv.GRAMMARS:
            k = n_models if kind in ("shapes", "unicode", "noname") else max(3, n_models // 3)
            if kind in ("repo", "user"):
                k = max(6, n_models // 2)
            plan += [(kind, j, True) for j in range(k)] + [(kind, k, False)]
        for kind, j, special in plan:
            text = drv.model_text(kind, rng, special)
            lib = None
            path = os.path.join(root, "m", f"{kind}_{j}.{kind}")
            if kind == "repo" and j % 3 != 1:      # (every third model of this language imports nothing)
                lib = drv.model_text(kind, rng, special)
                drv.write(os.path.join(root, "m", f"{kind}_{j}_lib.{kind}"), lib)
                text = f'import "{kind}_{j}_lib.{kind}"\n' + text
            try:
                if kind == "repo" and j % 6 == 4:  # ... and some are loaded from a string
                    path = None
                    model = self.mms[kind].model_from_str(text)
                else:
                    model = self.mms[kind].model_from_file(drv.write(path, text))
            except Exception:
                self.skipped += 1      # the generated text is not a model of the carrier language
                continue
            self.models.append(dict(id=f"{kind}_{j}", kind=kind, model=model, text=text, path=path, lib=lib))


def export_all(corpus, rng, quick):
    """Run every exporter; returns (dot outputs, puml outputs): {id: dict(path, text | crash, what, ...)}.
    An exporter that raises is recorded (crash=...): that is a verdict about the exporter, not a harness error."""
    from textx import generators as gens
    from textx.export import PlantUmlRenderer, metamodel_export, model_export
    root = corpus.root
    dots, pumls = {}, {}

    def run(table, key, path, what, call, **info):
        d = dict(path=path, what=what, **info)
        os.makedirs(os.path.dirname(path), exist_ok=True)
        try:
            call()
            d["text"] = drv.read(path)
        except Exception as e:      # noqa: BLE001 -- the exporter under test failed
            d["crash"] = f"{type(e).__name__}: {e}"
        table[key] = d

    for kind, mm in corpus.mms.items():
        cnt = corpus.counts[kind]
        p = os.path.join(root, "out", f"mm_{kind}.dot")
        run(dots, f"mm:{kind}", p, "metamodel_export", lambda: metamodel_export(mm, p), kind=kind, counts=cnt)
        p2 = os.path.join(root, "out", f"mm_{kind}.pu")
        run(pumls, f"pu:{kind}", p2, "metamodel_export(PlantUmlRenderer)",
            lambda: metamodel_export(mm, p2, renderer=PlantUmlRenderer()), kind=kind, counts=cnt)
        p3 = os.path.join(root, "out", f"mm_{kind}_ortho.pu")
        run(pumls, f"puo:{kind}", p3, "metamodel_export(PlantUmlRenderer(ortho))",
            lambda: metamodel_export(mm, p3, renderer=PlantUmlRenderer(linetype="ortho")), kind=kind, counts=cnt)
        # registered generators, called directly: (metamodel, model, output_path, overwrite, debug)
        gd = os.path.join(root, "gen", kind)
        os.makedirs(gd, exist_ok=True)
        run(dots, f"gmm:{kind}", os.path.join(gd, f"{kind}.dot"), "generator textX->dot",
            lambda: gens.metamodel_generate_dot.generator(None, mm, gd, True, False), kind=kind, counts=cnt)
        run(pumls, f"gpu:{kind}", os.path.join(gd, f"{kind}.pu"), "generator textX->PlantUML",
            lambda: gens.metamodel_generate_plantuml.generator(None, mm, gd, True, False), kind=kind, counts=cnt)
    for m in corpus.models:
        p = os.path.join(root, "out", f"m_{m['id']}.dot")
        run(dots, f"m:{m['id']}", p, "model_export", lambda: model_export(m["model"], p), kind=m["kind"], model=m)
        if m["path"] is not None and rng.random() < (0.25 if quick else 0.5):
            gd = os.path.join(root, "gen", "models")
            os.makedirs(gd, exist_ok=True)
            run(dots, f"gm:{m['id']}", os.path.join(gd, f"{m['id']}.dot"), "generator any->dot",
                lambda: gens.model_generate_dot.generator(corpus.mms[m["kind"]], m["model"], gd, True, False),
                kind=m["kind"], model=m)
    return dots, pumls


def expected_dot(d, dev=None):
    """Counts a well-formed export of this model / meta-model must have (projection of the model side).
    ids: distinct identifiers of node statements; extra: optional further nodes (the built-in OBJECT class);
    plain: nodes without a record label (the table of match rules)."""
    if "model" in d:
        n = len(drv.model_objects(d["model"]["model"]))
        return dict(ids=n, extra=0, plain=0, exact=True)
    c = d["counts"]
    plain = 1 if c["match"] else 0
    drawn = c["drawn"] if dev is None else c["drawn_dev"][dev]
    return dict(ids=len(drawn) + plain, extra=1 if c["has_object"] else 0, plain=plain, exact=False)


def dot_ok(res, exp):
    if not res["accept"] or not exp["ids"] <= res["nids"] <= exp["ids"] + exp["extra"]:
        return False
    if exp["exact"] and res["nodes"] != exp["ids"]:
        return False          # a model object is drawn once
    return res["bars"] == res["nodes"] - exp["plain"]      # one record separator per class / object node


def describe(res, exp):
    if not res["accept"]:
        return f"rejected by DotLex: {res['err']} at character {res['at']}"
    return (f"accepted but shows {res['nids']} distinct nodes in {res['nodes']} node statements with {res['bars']} record "
            f"separators where the model has {exp['ids']}" + (f" (+{exp['extra']} optional)" if exp["extra"] else "") +
            " nodes with one separator each")


# ------------------------------------------------------------------ counterfactual: neutralise fields, export again
def reexport(d, fields, path):
    """Export the model of d again with the given fields replaced by neutral text; the model is restored."""
    from textx.export import model_export
    names, mixed = fields
    undo = []
    try:
        for k, (obj, v) in enumerate(names):
            undo.append((obj, "name", None, obj.name))
            obj.name = f"n{k}"
        for k, (obj, an, idx, v) in enumerate(mixed):
            lst = getattr(obj, an)
            undo.append((obj, an, idx, lst[idx]))
            lst[idx] = f"s{k}"
        model_export(d["model"]["model"], path)
        return drv.read(path)
    finally:
        for obj, an, idx, v in reversed(undo):
            if idx is None:
                setattr(obj, an, v)
            else:
                getattr(obj, an)[idx] = v


def common_prefix(a, b):
    n = 0
    for x, y in zip(a, b):
        if x != y:
            break
        n += 1
    return n


# ------------------------------------------------------------------ entry points
def run(rep):
    quick = rep.tier == "quick"
    rng = random.Random(rep.seed)
    rep.rule = ("Every output of metamodel_export (DOT and PlantUML renderer, with and without linetype), model_export "
                "and the three registered generators over a corpus of 12 carrier grammars (abstract / match / common "
                "rules, attributes of every multiplicity, references, OBJECT-typed attributes, match rules with & < > and "
                "quotes in regexes and literals, unicode rule names, multi-file models with and without imports, loaded from "
                "files and from strings, user classes with value-based equality and an unhashable one, grammars of several "
                "files with the same rule names in several files and with grammars imported only by imported grammars) and seeded-random models whose "
                "names and string values range over quote, backslash, braces, pipe, angle brackets, newline, '?', "
                "unicode and strings longer than the 20-character cut of dot_repr, with lists mixing objects and "
                "primitive values. Each output is a TLC trace of DotLex / Puml; counts of an accepted text are compared "
                "with the classes / objects. Non-trivial: outputs of models with >= 2 objects or a special character, "
                "and every meta-model output; distinct by (exporter, grammar, model text).")
    rep.assumptions = [
        "which classes a meta-model export must show is DotExport!Drawn evaluated by TLC on the projection of the "
        "meta-model (classes per grammar file from mm.namespaces, import structure of the corpus grammar)",
        "of the XML inside HTML-like labels the module checks closed tags and well-formed entities; the rest is "
        "decided by Graphviz: an output that `dot -Tcanon` rejects is a VIOLATION even if DotLex accepts it",
        "the built-in OBJECT class may be shown (also repeatedly) when an attribute has that type; classes may be "
        "declared more than once in PlantUML",
        "attribute defaults set by `node [...]` are taken as global (the exporter never sets them inside a subgraph)",
        "file names of models are plain (no quotes): the cluster label of multi-file exports is not stressed",
        "a record label must keep exactly one field separator per node (`{name|attributes}`), so an unescaped `|` counts as malformed",
    ]
    # ---------------- (M)
    jobs = [("MC_Dot", "MC_Dot_Field.cfg", dict(VT_DEV="", VT_MAXLEN="3" if quick else "4", VT_CASES=""), INV_FIELD),
            ("MC_Dot", "MC_Dot_Stmt.cfg", dict(VT_DEV="", VT_MAXLEN="4" if quick else "5", VT_CASES=""), INV_STMT),
            ("MC_Puml", "MC_Puml.cfg", dict(VT_MAXLEN="4" if quick else "5", VT_TRACES=""), INV_PUML)]

    def mc(job):
        return _tlc(job[0], cfg=job[1], env=job[2], workers=max(1, tlc.NCPU // len(jobs)), timeout=3000)
    mc_pool = ThreadPoolExecutor(max_workers=len(jobs))      # (M) runs beside the conformance pass
    mc_runs = [mc_pool.submit(mc, job) for job in jobs]

    def finish_mc():
        for job, fut in zip(jobs, mc_runs):
            r = fut.result()
            tlc.require_ok(r, job[1])
            rep.add_mc(job[1][:-4], r, job[3])
        mc_pool.shutdown()
    findings = common.open_findings(PID)
    devs = {f["id"]: f["deviation"] for f in findings}

    root = tlc.scratch("vt-c29-")
    try:
        # ---------------- the implementation's escaping functions on real strings (I->S, function level)
        from textx.export import dot_escape, dot_repr
        strs = sorted(set(drv.FIXED + [drv.rand_string(rng) for _ in range(60 if quick else 400)]))
        cases = [(f"e{k}", "escaped", dot_escape(s)) for k, s in enumerate(strs)] + \
                [(f"r{k}", "repr", dot_repr(s)) for k, s in enumerate(strs)]
        # ---------------- corpus, exports; the three TLC batches are independent and run side by side
        corpus = Corpus(root, rng, int(os.environ.get("VT_C29_MODELS", 14 if quick else 70)))   # env: development aid
        corpus.counts = {k: drv.mm_counts(mm, k) for k, mm in corpus.mms.items()}
        files_by_kind = {k: c["files"] for k, c in corpus.counts.items()}
        drawn, st = drawn_classes(files_by_kind, "")
        rep.add_oracle("MC_Dot_Draw", st)
        for k, c in corpus.counts.items():
            if drawn[k]["crash"]:
                raise tlc.MachineryError("DotExport!Crashes holds without a deviation clause")
            c["drawn"], c["drawn_dev"], c["crash_dev"] = drawn[k]["drawn"], {}, {}
        for fid, dev in devs.items():
            if dev not in DRAW_DEVS:
                continue
            alt, st = drawn_classes(files_by_kind, dev)
            rep.add_oracle(f"MC_Dot_Draw[Dev={dev}]", st)
            for k, c in corpus.counts.items():
                if alt[k]["crash"]:
                    c["crash_dev"][fid] = alt[k]["drawn"]
                elif alt[k]["drawn"] != c["drawn"]:
                    c["drawn_dev"][fid] = alt[k]["drawn"]
        dots, pumls = export_all(corpus, rng, quick)
        with ThreadPoolExecutor(max_workers=3) as ex:
            f1 = ex.submit(predict, cases, "")
            f2 = ex.submit(dot_traces, {i: d["text"] for i, d in dots.items() if "text" in d})
            f3 = ex.submit(puml_traces, {i: d["text"] for i, d in pumls.items() if "text" in d})
            (got, st), (dres, m2), (pres, m3) = f1.result(), f2.result(), f3.result()
        rep.add_oracle("MC_Dot_Oracle[escaped,repr]", st)
        rep.add_mc("TraceDot", m2, ["DotLex!Step consumes the text; Accepting at the end"])
        rep.add_mc("MC_Puml_Trace", m3, ["Puml!PStep consumes the lines; PAccepting at the end"])
        for (i, kind, e), s in zip(cases, strs + strs):
            fn = "dot_escape" if kind == "escaped" else "dot_repr"
            case = dict(call=f"{fn}({s!r})", result=e)
            if got[i] == "wellformed":
                rep.passed(case, nontrivial=any(c in s for c in drv.SPECIALS[:8]))
            else:
                rep.violation(case, f"{fn}({s!r}) = {e!r}: a node label containing it is not accepted by DotLex "
                                    f"(record label / quoting broken)")
        # ---------------- crashed exports
        for d in list(dots.values()) + list(pumls.values()):
            if "crash" in d and "counts" in d and d["crash"].startswith("KeyError") and any(
                    any(repr(x) in d["crash"] for x in d["counts"]["drawn"] - dr) for dr in d["counts"]["crash_dev"].values()):
                # the listed clause predicts the failure: a subclass that is not among the shown classes
                rep.known_finding(next(iter(d["counts"]["crash_dev"])), dict(export=d["what"], grammar=d["kind"]))
            elif "crash" in d:
                rep.violation(_replay_case(d), f"{d['what']} of {'a model of ' if 'model' in d else ''}grammar {d['kind']} "
                                               f"raised {d['crash']}")
        dots = {i: d for i, d in dots.items() if "text" in d}
        pumls = {i: d for i, d in pumls.items() if "text" in d}
        # ---------------- calibration: Graphviz is the ground truth for validity.  DotLex must never be
        # stricter (it rejects, dot accepts: machinery failure); a text DotLex accepts but dot rejects is
        # an invalid export that the module is too coarse to see (e.g. the XML inside an HTML-like label)
        dot_rejects = {}
        if dot_available():
            dv = dot_verdicts({i: d["path"] for i, d in dots.items()})
            strict = [(i, dv[i]) for i in dots if not dres[i]["accept"] and dv[i][0]]
            if strict:
                i, (ok, msg) = strict[0]
                keep = os.path.join(common.REPLAYS, PID)
                os.makedirs(keep, exist_ok=True)
                shutil.copy(dots[i]["path"], os.path.join(keep, "calibration_disagreement.dot"))
                raise tlc.MachineryError(
                    f"calibration: DotLex rejects ({dres[i]['err']} at {dres[i]['at']}) {i} but `dot -Tcanon` exits 0; "
                    f"{len(strict)} such text(s); kept in replays/{PID}/calibration_disagreement.dot")
            dot_rejects = {i: dv[i][1] for i in dots if dres[i]["accept"] and not dv[i][0]}
            rep.extra["calibration"] = dict(tool=DOT, outputs=len(dots),
                                            agreed=len(dots) - len(dot_rejects),
                                            rejected_by_both=sum(1 for i in dots if not dv[i][0] and not dres[i]["accept"]),
                                            rejected_by_dot_only=len(dot_rejects),
                                            rule="DotLex rejecting what dot accepts is a machinery failure; dot rejecting "
                                                 "what DotLex accepts is a VIOLATION (Graphviz decides validity)")
        else:
            rep.extra["calibration"] = "skipped: /usr/bin/dot is not available"
            rep.note("calibration against Graphviz skipped (dot not installed)")
        # ---------------- verdicts: PlantUML
        for i, d in pumls.items():
            r, c = pres[i], d["counts"]
            names = {"".join(chr(x) for x in n) for n in r["names"]}
            case = dict(export=d["what"], grammar=d["kind"], classes=sorted(c["drawn"]))
            extra = {"OBJECT"} if c["has_object"] else set()
            if r["accept"] and c["drawn"] <= names <= c["drawn"] | extra:
                rep.passed(case, nontrivial=True)
                continue
            fid = next((f for f, dr in c["drawn_dev"].items() if r["accept"] and dr <= names <= dr | extra), None)
            if fid:
                rep.known_finding(fid, case)
            else:
                rep.violation(dict(kind="puml", grammar=d["kind"], what=d["what"], text=d["text"], expected=sorted(c["drawn"])),
                              f"{d['what']} of grammar {d['kind']}: " +
                              (f"rejected by Puml: {r['err']} at line {r['at']}" if not r["accept"] else
                               f"declares {sorted(names)} but the meta-model has {sorted(c['drawn'])}"))
        # ---------------- verdicts: DOT
        failing = []
        for i, d in dots.items():
            exp = expected_dot(d)
            if i in dot_rejects:
                rep.violation(_replay_case(d), f"{d['what']} of grammar {d['kind']}: `dot -Tcanon` rejects the output "
                                               f"({dot_rejects[i].strip()[:160]}) although DotLex accepts it")
            elif dot_ok(dres[i], exp):
                big = "model" not in d or exp["ids"] >= 2 or any(c in d["model"]["text"] for c in '{}|<>\\')
                rep.passed(_brief(d, exp), nontrivial=big)
            elif "model" in d:
                failing.append(i)
            elif any(dot_ok(dres[i], expected_dot(d, f)) for f in d["counts"]["drawn_dev"]):
                rep.known_finding(next(f for f in d["counts"]["drawn_dev"] if dot_ok(dres[i], expected_dot(d, f))),
                                  _brief(d, exp))
            else:
                rep.violation(_replay_case(d), f"{d['what']} of grammar {d['kind']}: {describe(dres[i], exp)}")
        explain_failing(rep, root, dots, dres, failing, devs)
        rep.bounds.update(grammars=len(corpus.mms), models=len(corpus.models), dot_outputs=len(dots),
                          puml_outputs=len(pumls), characters=sum(len(d["text"]) for d in dots.values()),
                          model_texts_rejected_by_carrier=corpus.skipped, strings=len(strs))
        rep.exhaustive = False
        finish_mc()
    finally:
        for fut in mc_runs:
            fut.cancel()
        shutil.rmtree(root, ignore_errors=True)


def _brief(d, exp):
    if "model" in d:
        return dict(export=d["what"], grammar=d["kind"], model=d["model"]["text"][:300], nodes=exp["ids"])
    return dict(export=d["what"], grammar=d["kind"], nodes=exp["ids"])


def _replay_case(d):
    c = dict(kind="puml" if "PlantUML" in d["what"] or "PlantUml" in d["what"] else "dot", what=d["what"], grammar=d["kind"])
    if "model" in d:
        c["model"] = d["model"]["text"]
        if d["model"].get("lib"):
            c["lib"] = d["model"]["lib"]
    return c


def explain_failing(rep, root, dots, dres, failing, devs):
    """Rejected / miscounted model exports: known finding iff a listed clause predicts it and neutralising
    exactly the predicted fields repairs the export."""
    devs = {f: d for f, d in devs.items() if d in DEV_BREAKS}
    if not failing:
        return
    fields = {i: drv.model_fields(dots[i]["model"]["model"]) for i in failing}
    cases = []
    for i in failing:
        names, mixed = fields[i]
        cases += [(f"{i}|n{k}", "name", v) for k, (_, v) in enumerate(names)]
        cases += [(f"{i}|x{k}", "mixed", v) for k, (_, _, _, v) in enumerate(mixed)]
    pred = {}
    with ThreadPoolExecutor(max_workers=max(1, len(devs))) as ex:
        for (fid, dev), (got, st) in zip(devs.items(), ex.map(lambda d: predict(cases, d), devs.values())):
            if st:
                rep.add_oracle(f"MC_Dot_Oracle[Dev={dev}]", st)
            pred[fid] = got
    # candidate explanations per failing output: each single finding, then all together
    variants = {}
    for i in failing:
        names, mixed = fields[i]
        per = {}
        for fid in devs:
            bn = [nv for k, nv in enumerate(names) if pred[fid].get(f"{i}|n{k}") == "malformed"]
            bm = [mv for k, mv in enumerate(mixed) if pred[fid].get(f"{i}|x{k}") == "malformed"]
            if bn or bm:
                per[fid] = (bn, bm)
        cands = [((fid,), per[fid]) for fid in sorted(per)]
        if len(per) > 1:
            cands.append((tuple(sorted(per)), ([x for f in sorted(per) for x in per[f][0]],
                                               [x for f in sorted(per) for x in per[f][1]])))
        for n, (fids, fl) in enumerate(cands):
            p = os.path.join(root, "out", f"re_{n}_" + os.path.basename(dots[i]["path"]))
            variants[f"{i}#{n}"] = dict(of=i, fids=fids, text=reexport(dots[i], fl, p))
    vres, m = dot_traces({k: v["text"] for k, v in variants.items()})
    if m:
        rep.add_mc("TraceDot[re-export with the predicted fields neutralised]", m, ["DotLex acceptance"])
    for i in failing:
        d = dots[i]
        exp = expected_dot(d)
        hit = None
        for k in sorted(v for v in variants if variants[v]["of"] == i):
            v = variants[k]
            located = dres[i]["accept"] or dres[i]["at"] > common_prefix(d["text"], v["text"])
            if dot_ok(vres[k], exp) and located:
                hit = v["fids"]
                break
        if hit:
            rep.known_finding(hit[0], _brief(d, exp))
            for fid in hit[1:]:
                if fid not in rep.known:
                    rep.known_finding(fid, _brief(d, exp))
        else:
            rep.violation(_replay_case(d), f"{d['what']} of a {d['kind']} model: {describe(dres[i], exp)}; "
                                           f"not explained by a listed finding")


def selftest():
    """Non-vacuity: with a deviation clause switched on TLC must report EscapeSuffices violated, and
    DotExport!Drawn must lose classes / predict the failure."""
    bad = 0
    files = [dict(ns="a", imports=[2], classes=["a.A"], subs=[]), dict(ns="b", imports=[3], classes=["b.B"], subs=[["b.B", "c.C"]]),
             dict(ns="c", imports=[], classes=["c.C"], subs=[])]
    doc = drawn_classes({"x": files}, "")[0]["x"]
    dev = drawn_classes({"x": files}, "TransitiveImportsNotDrawn")[0]["x"]
    print("Drawn, Dev={}:", sorted(doc["drawn"]), doc["crash"], " Dev={TransitiveImportsNotDrawn}:", sorted(dev["drawn"]), dev["crash"])
    bad += not (doc["drawn"] == {"a.A", "b.B", "c.C"} and not doc["crash"] and dev["drawn"] == {"a.A", "b.B"} and dev["crash"])
    for dev, inv in DEV_BREAKS.items():
        r = tlc.model_check("MC_Dot", cfg="MC_Dot_Field.cfg", env=dict(VT_DEV=dev, VT_MAXLEN="3", VT_CASES=""), workers=1)
        print(f"Dev={{{dev}}}: TLC reports {r.violated or r.error or 'no violation'} -> {'ok' if r.violated == inv else 'UNEXPECTED'}")
        bad += r.violated != inv
    return 1 if bad else 0


def replay(path):
    """Re-export the stored model / meta-model and judge the output again."""
    from textx.export import PlantUmlRenderer, metamodel_export, model_export
    with open(path) as f:
        rec = json.load(f)
    case = rec["case"]
    root = tlc.scratch("vt-c29r-")
    try:
        if "call" in case:
            from textx.export import dot_escape, dot_repr
            fn, arg = case["call"].split("(", 1)
            s = eval(arg[:-1])
            e = dict(dot_escape=dot_escape, dot_repr=dot_repr)[fn](s)
            got, _ = predict([("x", "escaped" if fn == "dot_escape" else "repr", e)], "")
            print(f"{fn}({s!r}) = {e!r}: {got['x']}")
            return 0 if got["x"] == "wellformed" else 1
        mm = load_mm(case["grammar"], os.path.join(root, "g"))
        cnt = drv.mm_counts(mm, case["grammar"])
        cnt["drawn"] = drawn_classes({case["grammar"]: cnt["files"]}, "")[0][case["grammar"]]["drawn"]
        cnt["drawn_dev"] = {}
        out = os.path.join(root, "out.txt")
        try:
            if case["kind"] == "puml":
                metamodel_export(mm, out, renderer=PlantUmlRenderer())
            elif "model" in case:
                if case.get("lib"):
                    drv.write(os.path.join(root, case["model"].split('"')[1]), case["lib"])
                model = mm.model_from_file(drv.write(os.path.join(root, "m.model"), case["model"]))
                model_export(model, out)
                d = dict(model=dict(model=model))
            else:
                metamodel_export(mm, out)
                d = dict(counts=cnt)
        except Exception as e:      # noqa: BLE001
            print(f"the export raised {type(e).__name__}: {e}")
            return 1
        if case["kind"] == "puml":
            res, _ = puml_traces({"x": drv.read(out)})
            r = res["x"]
            names = sorted({"".join(chr(x) for x in n) for n in r["names"]})
            print(drv.read(out))
            print("Puml:", r["accept"], r["err"], "declared", names, "expected", sorted(cnt["drawn"]))
            allowed = cnt["drawn"] | ({"OBJECT"} if cnt["has_object"] else set())
            return 0 if r["accept"] and cnt["drawn"] <= set(names) <= allowed else 1
        text = drv.read(out)
        res, _ = dot_traces({"x": text})
        exp = expected_dot(d)
        print(text)
        print("DotLex:", res["x"], "expected", exp)
        dv = dot_verdicts({"x": out})["x"] if dot_available() else (True, "")
        print("dot -Tcanon:", dv)
        return 0 if dot_ok(res["x"], exp) and dv[0] else 1
    finally:
        shutil.rmtree(root, ignore_errors=True)


META = dict(
    modules=["DotLex", "DotExport", "MC_Dot", "TraceDot", "Puml", "MC_Puml"],
    level_text=("DotLex.tla is a character-level pushdown recogniser of Graphviz DOT and of record labels, Puml.tla a "
                "line-level recogniser of the PlantUML class diagrams, DotExport.tla states which text the exporter puts "
                "into free-text fields. TLC model-checks the recognisers over all short strings of tiny alphabets "
                "(balanced quotes/brackets/braces for accepted texts, rejection is final, agreement with reference "
                "scanners) and that escaped fields never break an output; every real export of a corpus of meta-models "
                "and models is then run through the recognisers by TLC as a trace, one character (line) per step, and "
                "the node / class counts are compared with the model. The DOT recogniser is calibrated against "
                "`dot -Tcanon` on the whole corpus."),
    level_note=("The corpus is finite and seeded; the model-checked alphabets are tiny (11-13 symbols, length <= 5). "
                "HTML-like labels are only checked for balanced angle brackets by the module (their XML by Graphviz "
                "during calibration); no PlantUML tool is available for calibration."),
    technique="TLC model checking of DotLex/Puml/DotExport + TLC trace acceptance of every exported text + calibration against Graphviz",
)
