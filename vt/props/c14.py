"""C14 -- user classes are constructed once with exactly the grammar attributes; after loading
(successful or not) they behave exactly as before.

(M)    spec/LoaderUser.tla model-checked over the scenario universe of MC_LoaderUser.tla;
(S->I) every enumerated scenario replayed against the real loader (summary + event log);
(I->S) seeded-random scenarios over user-class flavours, model shapes, nesting and failure
       points; the recorded UserNew/Resolve/UserInit/ObjProc/ModelProc/LoadEnd/Post log of each
       load is validated by TLC as a behaviour of the module.
"""
from __future__ import annotations

import random

from .. import common, tlc
from ..drive import userclasses_check as K

PID = "C14"


def nontrivial(sc, obs):
    # at least one user object was allocated, and the load is nested or fails or initialises >= 2 objects
    return bool(sc["user"]) and (len(obs["inits1"]) >= 2 or obs["res1"] != "ok" or len(sc["files"]) > 2)


def run(rep):
    quick = rep.tier == "quick"
    rng = random.Random(rep.seed)
    rep.rule = ("S->I: every scenario of the TLA+-enumerated universe (nesting x user-class set x failure point; quick: "
                "one per nesting x user-class set x failure step x failing file) with seeded flavours and exception classes; I->S: seeded-random scenarios (flavour per class, <= 6 objects per file, "
                "depth <= 3, 1-3 files / provider-triggered nested load, one failure point or none). Non-trivial: "
                "user classes present and (>= 2 objects initialised, or the load fails, or it is nested); distinct by content.")
    rep.assumptions = [
        "carrier grammar of DESIGN Appendix D with a named Model root; user classes on Model/Pkg/DefA; "
        "__slots__ classes list the rule attributes, parent, _tx_position(_end) and __weakref__; a __slots__ class is never the root",
        "references are resolved by a PlainNameImportURI provider (or, main model loaded from a string, a PlainNameGlobalRepo "
        "file-pattern provider) wrapped by the harness (Postponed / raise / nested load as scheduled); six user-class "
        "flavours incl. class-level defaults named like grammar attributes; user code fails with an Exception, a "
        "BaseException subclass, KeyboardInterrupt or SystemExit (rendering choices the module does not see)",
        "object processors only on concrete rules; their order (C13) is taken as post-order, list order",
        "no provider-triggered nested load together with a global repository (userclasses_check.in_fragment; while the "
        "finding RestoreWithoutInstrument is open also: provider swallowing a nested failure only in shapes where the "
        "deviation clause predicts the outer load unambiguously)",
        "not judged here: what stays reachable after a failure and the follow-up comparison (C15)",
    ]
    # (M)
    uni = "Small" if quick else "Full"
    r, scen = K.model_check(uni)
    tlc.require_ok(r, f"MC_LoaderUser {uni}")
    rep.add_mc(f"MC_LoaderUser[{uni}]", r, K.INVS)
    if not scen:
        raise tlc.MachineryError("TLC listed no scenarios")
    if not quick:
        for d, inv in K.DEV_BREAKS.items():
            rv, _ = K.model_check("Small", dev=[d], listing=False)
            if rv.violated is None:
                raise tlc.MachineryError(f"deviation {d} does not break any invariant of the module (vacuous clause)")
            rep.note(f"Dev={{{d}}} violates {rv.violated}")
    # (S->I)
    cases = [s for s in scen if not s["grepo"]]
    if quick:
        cases = K.stratified(cases, rng)
    cases = [K.assign_flavours(s, rng) for s in cases]
    skipped = [s for s in cases if not K.in_fragment(s)]
    cases = [s for s in cases if K.in_fragment(s)]
    cases = [dict(s, summary=True) for s in cases]
    rep.bounds["enumerated"] = dict(universe=uni, scenarios=len(scen), replayed=len(cases), outside_fragment=len(skipped))
    rep.exhaustive = not quick
    # (I->S)
    n = 200 if quick else 1500
    rnd = []
    k = 0
    while len(rnd) < n:
        k += 1
        s = K.random_scenario(rng, k, PID)
        if K.in_fragment(s):
            rnd.append(s)
    rep.bounds["random"] = dict(scenarios=n)
    allc = cases + rnd
    for i in range(0, len(allc), 1500):
        _, _, stats = K.judge_all(rep, PID, allc[i:i + 1500], nontrivial=nontrivial)
        for name, D, res in stats:
            rep.add_mc(f"{name} Dev={sorted(D)}", res, ["(conformance: TraceNext consumes every event / summary evaluation)"])


def replay(path):
    return K.replay_case(path, PID)


META = dict(
    modules=["LoaderUser", "MC_LoaderUser", "TraceLoaderUser"],
    level_text=("LoaderUser.tla states a (nested) model load with user classes as a state machine: instrumentation count, "
                "per-object storage, initialisation count per object, with the clauses of the property as invariants "
                "(initialised once, after all references of all models of the load are resolved and before any object "
                "processor, with exactly the rule's attributes plus parent; classes uninstrumented and without storage "
                "whenever no load is running). TLC checks them over an enumerated scenario universe, every enumerated "
                "scenario is replayed against the real loader, and event logs recorded from seeded-random loads "
                "(five user-class flavours) are validated by TLC as behaviours of the module."),
    level_note=("Bounded: <= 3 files + one provider-triggered nested load, <= 8 objects per file, one failure point per load; "
                "carrier grammar fixed; flavours are a rendering choice the module only sees as 'has its own attribute methods'."),
    technique="TLC model checking of LoaderUser.tla + replay of enumerated scenarios + TLC trace validation",
)
