"""C20 -- ignore_case makes grammar literals case-insensitive."""
from __future__ import annotations

import random

from .. import common
from ..drive import peg as D
from ..gen import peg as G
from . import c01
from . import pegcommon as P

PID = "C20"
OPTS = dict(max_rules=3, depth=3, comment=0.1, modifiers=0.1, unord=0.1, preds=0.08, sup=0.08, eol=0.05, sep=0.4,
            base=["ID", "INT", "STRING"], lits=["ab", "Ab", "and", "IF", "k1", "+", "x", ";", "a b", "a-b", "@ab", "x:"],
            regroup=0.1, ws_mod=0.0, ncg=0.5, esc=0.15)


def flip_variants(rng, s, k):
    idx = [i for i, ch in enumerate(s) if ch.isalpha() and ch.isascii()]
    out = []
    for _ in range(k):
        if not idx:
            break
        t = list(s)
        for i in rng.sample(idx, rng.randrange(1, min(len(idx), 4) + 1)):
            t[i] = t[i].swapcase()
        out.append("".join(t))
    return out


def cases_for(rng, n, per, autokwd=False):
    gg = G.GrammarGen(rng, OPTS)
    cases, groups = [], []
    for _ in range(n):
        g = gg.grammar()
        cfg = D.default_cfg(icase=True, autokwd=autokwd and rng.random() < 0.5)
        # the same grammar without ignore_case is built (and used) first in the same process
        twin = dict(cfg, icase=False)
        sg = G.SentenceGen(rng, g)
        has_c = any(r["name"] == "Comment" for r in g["rules"])
        for _k in range(per):
            toks = sg.sentence()
            s = G.join(rng, toks, has_c, glue=0.05)
            ids = []
            vs = [s] + flip_variants(rng, s, 3)
            for v in vs[:2]:
                cases.append(dict(id=len(cases), g=g, cfg=twin, s=G.codes(v)))    # case-sensitive twin
            for v in vs:
                cases.append(dict(id=len(cases), g=g, cfg=cfg, s=G.codes(v)))
                ids.append(cases[-1]["id"])
            groups.append(ids)
    return cases, groups


def lower_model(v):
    if isinstance(v, dict):
        if v.get("t") == "str":
            return {"t": "str", "v": [ord(chr(c).lower()) if c < 128 else c for c in v["v"]]}
        return {k: lower_model(x) for k, x in v.items() if k not in ("s", "e", "ln", "co")}
    if isinstance(v, list):
        return [lower_model(x) for x in v]
    return v


def run(rep):
    rng = random.Random(rep.seed)
    quick = rep.tier == "quick"
    P.replay_witnesses(rep, PID)
    rep.rule = ("S->I: the MC_Peg 'icase' universe (literals with letters, digits and symbols, ID and regex matches "
                "next to them, separators) with ignore_case=True x all inputs of <= 4 symbols over {a, A, b, +, space}; "
                "I->S: seeded-random grammars with alphabetic keywords and regexes, every accepted input with random "
                "case changes. Verdict: textX equals Peg!Outcome (icase clauses of MatchStr/MatchRe; TLC checks "
                "CaseInsensitive on the universe) and, as stated, every case variant of an accepted input is accepted "
                "with a model that differs at most in the case of ID/regex values. Non-trivial: accepted inputs.")
    rep.assumptions = ["Peg!WellFormed fragment", "BOOL (case-sensitive by definition) is excluded from the grammars"]
    P.judge_universe(rep, PID, "icase", 1)
    rep.exhaustive = True
    n, per = (100, 4) if quick else (1000, 6)
    cases, groups = cases_for(rng, n, per, autokwd=True)
    info, stats = P.judge_cases(rep, PID, cases, label="random-icase")
    # the relation as stated, on the real results alone
    rel = 0
    for ids in groups:
        base = info.get(ids[0])
        if not base or base["real"].get("accept") is not True or base["exp"].get("accept") is not True:
            continue
        for j in ids[1:]:
            v = info.get(j)
            if not v:
                continue
            rel += 1
            if v["real"].get("accept") is not True or \
                    common.canon(lower_model(v["real"]["model"])) != common.canon(lower_model(base["real"]["model"])):
                if v.get("verdict") == "known":
                    continue
                c = cases[j]
                rep.violation(dict(P.describe(c), raw=dict(g=c["g"], cfg=c["cfg"], s=c["s"]), base_input=G.text(cases[ids[0]]["s"]),
                                   observed=v["real"], base=base["real"]),
                              f"case variant {G.text(c['s'])!r} of accepted input {G.text(cases[ids[0]]['s'])!r} gives a "
                              f"different result with ignore_case=True")
    stats["case_variant_pairs"] = rel
    rep.bounds["random"] = stats


def replay(path):
    return P.replay_case(path, PID)


META = dict(
    modules=["Peg", "PegOracle", "MC_Peg"],
    level_text=("Peg.tla matches string and regex literals case-insensitively under icase; TLC checks on the 'icase' "
                "universe that flipping the case of any literal-matched character changes neither acceptance nor "
                "structure (CaseInsensitive); the universe and random grammars with case-mutated inputs are replayed "
                "against textX with ignore_case=True."),
    level_note="Fragment Peg!WellFormed without BOOL; ASCII letters; renderer/projector trusted.",
    technique="TLC model checking of the metamorphic case theorem + oracle replay",
)
