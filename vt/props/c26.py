"""C26 -- the language and generator registries behave as case-insensitive maps.

(M)    spec/Registry.tla model-checked exhaustively over a small universe, the
       property clauses as invariants / action properties;
(S->I) every edge of the TLC state graph replayed against textx.registration
       (result and projected module globals compared after every call);
(I->S) seeded-random long call sequences recorded from textx.registration and
       validated as behaviours of Registry!Next by TLC (TraceRegistry.tla).
"""
from __future__ import annotations

import json
import os
import random
import shutil
from collections import deque

from .. import common, tlc
from ..drive.registry import NOPAT, RealRegistry, match_table, norm_state

PID = "C26"
MC_EP_L = [{"name": "E", "pat": "*.b"}]
MC_EP_G = [{"lang": "any", "target": "dot"}]
INVS = ["KeysLowerUnique", "EntryPointsSurvive", "CacheCoherent", "RefuseDuplicates",
        "ForFileExactlyOne", "CachedOrFresh", "FailedRequestKeepsCache"]
# deviation clause -> invariants it must break in the model (vacuity / sensitivity of the module)
DEV_BREAKS = {"NoLowerOnRegister": "KeysLowerUnique", "ClearKeepsCache": "CacheCoherent",
              "FirstOfSeveral": "ForFileExactlyOne", "FailedRequestEvicts": "FailedRequestKeepsCache"}


def _key(st):
    return common.canon(norm_state(st))


def _edges(ops, dev):
    r = tlc.model_check("MC_Registry", cfg="MC_Registry_Edges.cfg", env={"VT_OPS": ops, "VT_DEV": dev},
                        workers=1, timeout=1800)
    tlc.require_ok(r, f"edge dump {ops} dev={dev!r}")
    return r, r.results("EDGE")


def _graph(edges):
    """state key -> (path of ops from init), via BFS over the emitted edges."""
    out = {}
    for e in edges:
        out.setdefault(_key(e["from"]), []).append(e)
    init = dict(lloaded=False, langs=[], gloaded=False, gens=[], cache=[], fresh=0)
    paths = {_key(init): []}
    q = deque([_key(init)])
    while q:
        k = q.popleft()
        for e in out.get(k, []):
            t = _key(e["to"])
            if t not in paths:
                paths[t] = paths[k] + [e["op"]]
                q.append(t)
    return out, paths


def _replay_edges(rep, edges, dev_tables, sample_every=1, rng=None):
    out, paths = _graph(edges)
    real = RealRegistry(MC_EP_L, MC_EP_G)
    n = 0
    try:
        for i, e in enumerate(edges):
            if sample_every > 1 and rng.randrange(sample_every):
                continue
            fk = _key(e["from"])
            if fk not in paths:
                raise tlc.MachineryError("edge from a state BFS did not reach")
            real.reset()
            for o in paths[fk]:
                real.apply(o["name"], o["args"])
            before = real.project()
            if _key(before) != fk:
                # the path itself already diverges: judged on the edge that caused it
                continue
            res = real.apply(e["op"]["name"], e["op"]["args"])
            after = real.project()
            obs = dict(res=res, to=norm_state(after))
            exp = dict(res=e["op"]["res"], to=norm_state(e["to"]))
            case = dict(path=paths[fk], op=dict(name=e["op"]["name"], args=e["op"]["args"]))
            devexp = {}
            for fid, tab in dev_tables.items():
                alt = tab.get((fk, common.canon([e["op"]["name"], e["op"]["args"]])))
                if alt is not None:
                    devexp[fid] = alt
            nontrivial = e["op"]["name"] not in ("ListLanguages",) and len(paths[fk]) >= 1
            common.judge(rep, case, obs, exp, devexp, nontrivial=nontrivial,
                         why=f"after {[o['name'] for o in paths[fk]]} the call {e['op']['name']}{e['op']['args']} "
                             f"gave {obs} but Registry.tla prescribes {exp}")
            n += 1
    finally:
        real.close()
    return n, len(paths)


def _dev_table(ops, dev):
    _, edges = _edges(ops, dev)
    tab = {}
    for e in edges:
        tab[(_key(e["from"]), common.canon([e["op"]["name"], e["op"]["args"]]))] = dict(
            res=e["op"]["res"], to=norm_state(e["to"]))
    return tab


# ------------------------------------------------------------------ random traces (I->S)
T_NAMES = ["L", "l", "M", "m", "Mx", "mX", "e", "E", "q"]
T_PATS = ["*.a", "x.a", "*.b", "x.*", "*"]
T_FILES = ["x.a", "y.b", "x.b", "z", "*.a"]
T_TARGETS = ["T", "t", "dot", "Dot", "u"]
T_EP_L = [{"name": "E", "pat": "*.b"}, {"name": "Qq", "pat": "x.a"}]
T_EP_G = [{"lang": "any", "target": "dot"}, {"lang": "Qq", "target": "T"}]
ALL_OPS = ["RegisterLanguage", "DescribeLanguage", "ListLanguages", "ClearLanguages", "MetamodelFor",
           "LanguagesForFile", "LanguageForFile", "RegisterGenerator", "DescribeGenerator", "ClearGenerators"]


def _universe(dev, nopat):
    names = T_NAMES + [d["name"] for d in T_EP_L] + ["any"] + T_TARGETS
    lower = {n: n.lower() for n in names}
    pats = T_PATS + ([NOPAT] if nopat else [])
    allp = sorted(set(T_PATS + [d["pat"] for d in T_EP_L]))
    return dict(names=T_NAMES, lower=lower, patterns=pats, files=T_FILES,
                match=match_table(T_FILES, allp), eplangs=T_EP_L, epgens=T_EP_G, targets=T_TARGETS,
                ops=ALL_OPS, dev=sorted(dev))


def _random_traces(rng, count, length, nopat):
    real = RealRegistry(T_EP_L, T_EP_G)
    traces = []
    pats = T_PATS + ([NOPAT] if nopat else [])
    try:
        for _ in range(count):
            real.reset()
            tr = []
            for _ in range(length):
                name = rng.choice(ALL_OPS + ["RegisterLanguage", "MetamodelFor", "LanguageForFile"])
                if name == "RegisterLanguage":
                    args = [rng.choice(T_NAMES), rng.choice(pats), rng.choice(["instance", "factory"])]
                elif name in ("DescribeLanguage",):
                    args = [rng.choice(T_NAMES + ["E", "Qq"])]
                elif name == "MetamodelFor":
                    kw = rng.random() < 0.45
                    args = [rng.choice(T_NAMES + ["E", "Qq"]), kw, kw and rng.random() < 0.35]
                elif name in ("LanguagesForFile", "LanguageForFile"):
                    args = [rng.choice(T_FILES)]
                elif name == "RegisterGenerator":
                    args = [rng.choice(T_NAMES + ["any"]), rng.choice(T_TARGETS)]
                elif name == "DescribeGenerator":
                    args = [rng.choice(T_NAMES + ["any", "Qq"]), rng.choice(T_TARGETS), rng.random() < 0.5]
                else:
                    args = []
                if name in ("ClearLanguages", "ClearGenerators") and rng.random() < 0.6:
                    continue
                res = real.apply(name, args)
                st = real.project()
                tr.append(dict(name=name, args=args, res=res, state=st))
            traces.append(tr)
    finally:
        real.close()
    return traces


def _validate(traces, dev, nopat):
    work = tlc.scratch("vt-c26-")
    try:
        tp, up = os.path.join(work, "traces.json"), os.path.join(work, "univ.json")
        with open(tp, "w") as f:
            json.dump(traces, f)
        with open(up, "w") as f:
            json.dump(_universe(dev, nopat), f)
        r = tlc.model_check("TraceRegistry", env={"VT_TRACES": tp, "VT_UNIV": up}, workers=1, timeout=1800)
        tlc.require_ok(r, "trace validation")
        got = {x["tid"]: x for x in r.results("TRACE")}
        if len(got) != len(traces):
            raise tlc.MachineryError("trace validation did not report every trace")
        return r, got
    finally:
        shutil.rmtree(work, ignore_errors=True)


def run(rep):
    quick = rep.tier == "quick"
    rng = random.Random(rep.seed)
    rep.rule = ("S->I: every edge (state, call with arguments, result, next state) of the TLC state graph of "
                "Registry.tla replayed against textx.registration along a shortest path; I->S: seeded-random "
                "call sequences validated by TLC. Non-trivial: the call is not a bare listing and happens "
                "after at least one earlier call (edges), or the trace has >= 10 calls (traces); distinct by content.")
    rep.assumptions = ["entry points are simulated by replacing textx.registration.entry_points",
                       "metamodel identity is observed through labels the driver attaches to the objects it creates",
                       "the file/pattern match table given to the module is computed with fnmatch"]
    # (M) the module has the property
    for v in ("Lang", "Gen"):
        r = tlc.model_check("MC_Registry", cfg=f"MC_Registry_{v}.cfg", coverage=not quick)
        tlc.require_ok(r, f"MC_Registry_{v}")
        rep.add_mc(f"MC_Registry_{v}", r, INVS)
    findings = common.open_findings(PID)
    devs = {f["id"]: f["deviation"] for f in findings}
    # (S->I) all edges
    total_states = 0
    for ops in ("Lang", "Gen"):
        r, edges = _edges(ops, "")
        rep.add_mc(f"MC_Registry_Edges[{ops}]", r, ["(edge emission)"])
        tabs = {fid: _dev_table(ops, d) for fid, d in devs.items()} if ops == "Lang" else {}
        every = 8 if (quick and ops == "Lang") else 1
        n, ns = _replay_edges(rep, edges, tabs, sample_every=every, rng=rng)
        total_states += ns
        rep.bounds[f"edges_{ops}"] = dict(edges=len(edges), replayed=n, states=ns)
    rep.exhaustive = not quick
    # (I->S) random traces, with and without pattern-less registrations
    ntr, ln = (60, 40) if quick else (600, 60)
    for nopat in (False, True):
        traces = _random_traces(rng, ntr, ln, nopat)
        r, got = _validate(traces, [], nopat)
        rep.add_mc("TraceRegistry", r, ["TraceNext consumes every event"])
        rejected = [t for t in got.values() if t["reached"] < t["len"]]
        alt = {}
        if rejected:
            for fid, d in devs.items():
                _, g2 = _validate(traces, [d], nopat)
                alt[fid] = g2
        for tid, t in sorted(got.items()):
            tr = traces[tid - 1]
            if t["reached"] == t["len"]:
                rep.passed(dict(trace=[[e["name"], e["args"], e["res"]["v"]] for e in tr[:12]]),
                           nontrivial=len(tr) >= 10)
                continue
            fid = next((f for f, g2 in alt.items() if g2[tid]["reached"] == g2[tid]["len"]), None)
            if fid:
                rep.known_finding(fid)
            else:
                k = t["reached"]
                rep.violation(dict(kind="trace", nopat=nopat, trace=tr[:k + 1]),
                              f"call {k + 1} of a recorded sequence is not a step of Registry!Next: "
                              f"{tr[k]['name']}{tr[k]['args']} -> {tr[k]['res']} state {tr[k]['state']}")
    rep.bounds["traces"] = dict(count=2 * ntr, length=ln)


def replay(path):
    with open(path) as f:
        rec = json.load(f)
    case = rec["case"]["case"] if "case" in rec["case"] else rec["case"]
    if case.get("kind") == "trace":
        _, got = _validate([case["trace"]], [], case.get("nopat", True))
        print("trace reached", got[1]["reached"], "of", got[1]["len"])
        return 0 if got[1]["reached"] == got[1]["len"] else 1
    real = RealRegistry(MC_EP_L, MC_EP_G)
    try:
        real.reset()
        for o in case["path"]:
            print(" ", o["name"], o["args"], "->", real.apply(o["name"], o["args"]))
        res = real.apply(case["op"]["name"], case["op"]["args"])
        print("call", case["op"], "->", res)
        print("state", real.project())
        exp = rec["case"].get("expected")
        print("expected", exp)
        obs = dict(res=res, to=norm_state(real.project()))
        return 0 if exp is None or common.canon(obs) == common.canon(exp) else 1
    finally:
        real.close()


META = dict(
    modules=["Registry", "MC_Registry", "TraceRegistry"],
    level_text=("Registry.tla states textx/registration.py as a state machine; TLC checks the map/refusal/"
                "entry-point/cache clauses as invariants and action properties in every reachable state of a small "
                "universe, every edge of that state graph is replayed against the real module (result and module "
                "globals compared), and seeded-random call sequences recorded from the real module are validated by "
                "TLC as behaviours of the specification."),
    level_note=("Bounded universe (4 names, 2 patterns + none, 2 files, <= 3 languages, <= 2 factory calls) for the "
                "exhaustive part; entry points simulated by replacing textx.registration.entry_points; fnmatch "
                "table computed by the harness."),
    technique="TLC model checking of Registry.tla + exhaustive edge replay + TLC trace validation",
)
