"""C28 -- model loading errors point at the offending text.

(M)    spec/LoaderRepo.tla over the family FamC28 (EnumLoaderRepo.tla): one offending text per scenario --
       syntax error, unknown object, unresolvable postponed reference, non-unique name -- located in the
       main file, an imported file or a file imported by an imported file, x text layouts (empty lines,
       indentation per file) x single references / elements of a list reference with separator x
       string / file loads x providers; duplicates living in a builtin model built from a string;
       comments of exotic characters (no line feeds) in front of the items;
       invariant C28_Location (file of the
       offending text, None for strings; its line and column in that file);
(S->I) every scenario executed on the real loader; TextXError class/kind, filename, line, col compared;
(I->S) seeded-random sessions with random layouts recorded and validated by TLC (TraceLoaderRepo.tla).
Deviation clauses UnresolvableWithoutFilename, UnresolvableUsesMainParser, NotUniqueUsesForeignParser
(findings F-C28-1..3); positions under a clause are computed in the module from the text layout exactly
as Arpeggio's pos_to_linecol would on the wrong text.
"""
from ..drive import multifile as mf

PID = "C28"


def _nontrivial(sc, hist):
    return any(h["res"]["kind"] in ("syntax", "unknown", "unresolvable", "notunique") for h in hist)

def run(rep):
    mf.run_property(rep, PID, _nontrivial,
                    "S->I: every scenario of the TLC-enumerated family FamC28 (quick: a seeded sample when larger than "
                    "1500): error kind x file of a chain a -> b -> c x layout x load kind x provider; compared: error kind, "
                    "filename, line, col (and repositories/opens). I->S: seeded-random scenarios with random layouts. "
                    "Non-trivial: a syntax / unknown / unresolvable / non-unique error was raised; distinct by content.")


def replay(path):
    from .. import common
    return mf.replay_case(path, common.open_findings(PID))


META = dict(
    modules=["LoaderRepo", "MC_LoaderRepo", "EnumLoaderRepo", "TraceLoaderRepo"],
    level_text=("LoaderRepo.tla carries the text layout of every file and states for each error kind the file, line and "
                "column of the offending text; TLC checks the location table over the bounded family and prints the "
                "expected error of every scenario; every scenario is replayed against the real loader and seeded-random "
                "sessions with random layouts are validated by TLC."),
    level_note=("Bounded: chain of <= 3 files, 3 layouts in quick (36 in thorough), random layouts with <= 4 empty lines "
                "and <= 5 columns of indentation; syntax errors are an unexpected token on its own last line; one offending "
                "text per scenario."),
    technique="TLC model checking of LoaderRepo.tla + scenario replay against TLC-printed behaviours + TLC trace validation",
)
