"""C15 -- a failed load leaves nothing behind.

(M)    spec/LoaderUser.tla: C15_NoRetention, C14_15_Clean, C15_FollowFresh over the enumerated
       universe (every failure point x user classes on/off x 1-3 files x global repository on/off);
(S->I) every enumerated failing scenario replayed: weak references + gc scan after the exception is
       dropped, class snapshots, follow-up load compared with a fresh metamodel's;
(I->S) seeded-random failing scenarios, event logs (incl. Post{retained}, Follow) validated by TLC.
"""
from __future__ import annotations

import random

from .. import common, tlc
from ..drive import userclasses_check as K

PID = "C15"


def nontrivial(sc, obs):
    # a failure after at least one object existed
    return obs["res1"] not in ("ok", "syntax") or len(sc["files"]) > 2


def run(rep):
    quick = rep.tier == "quick"
    rng = random.Random(rep.seed)
    rep.rule = ("S->I: every failing scenario of the TLA+-enumerated universe (failure point x user classes on/off x "
                "1-3 files / nested string load x global repository on/off); I->S: seeded-random failing scenarios. "
                "Non-trivial: the failure happens after objects were built, or the load is nested; distinct by content.")
    rep.assumptions = [
        "retention is what survives `del exception; gc.collect()`: weak references taken in every callback plus a scan of "
        "gc.get_objects() for instances of the metamodel's classes (Import objects are not counted)",
        "follow-up result = structural dump of the loaded model incl. how each user object reacts to attribute access, "
        "compared with the same load by a fresh metamodel with fresh user classes",
        "carrier grammar / providers / flavours as for C14; no provider-triggered nested load together with a global "
        "repository (userclasses_check.in_fragment)",
    ]
    uni = "Small" if quick else "Full"
    r, scen = K.model_check(uni)
    tlc.require_ok(r, f"MC_LoaderUser {uni}")
    rep.add_mc(f"MC_LoaderUser[{uni}]", r, K.INVS)
    if not scen:
        raise tlc.MachineryError("TLC listed no scenarios")
    if not quick:
        for d, inv in K.DEV_BREAKS.items():
            rv, _ = K.model_check("Small", dev=[d], listing=False)
            if rv.violated is None:
                raise tlc.MachineryError(f"deviation {d} does not break any invariant of the module (vacuous clause)")
            rep.note(f"Dev={{{d}}} violates {rv.violated}")
    cases = [s for s in scen if s["fault"]["step"] != "none"]
    if quick:
        cases = K.stratified(cases, rng)
    cases = [K.assign_flavours(s, rng) for s in cases]
    skipped = [s for s in cases if not K.in_fragment(s)]
    cases = [s for s in cases if K.in_fragment(s)]
    cases = [dict(s, summary=True) for s in cases]
    rep.bounds["enumerated"] = dict(universe=uni, scenarios=len(scen), replayed=len(cases), outside_fragment=len(skipped))
    rep.exhaustive = not quick
    # (I->S)
    n = 150 if quick else 1500
    rnd = []
    k = 0
    while len(rnd) < n:
        k += 1
        s = K.random_scenario(rng, k, PID)
        if K.in_fragment(s):
            rnd.append(s)
    rep.bounds["random"] = dict(scenarios=n)
    allc = cases + rnd
    for i in range(0, len(allc), 1500):
        _, _, stats = K.judge_all(rep, PID, allc[i:i + 1500], nontrivial=nontrivial)
        for name, D, res in stats:
            rep.add_mc(f"{name} Dev={sorted(D)}", res, ["(conformance: TraceNext consumes every event / summary evaluation)"])


def replay(path):
    return K.replay_case(path, PID)


META = dict(
    modules=["LoaderUser", "MC_LoaderUser", "TraceLoaderUser"],
    level_text=("LoaderUser.tla models what outlives a load (instrumentation count and per-object storage on the user "
                "classes, the metamodel's global repository) and defines `retained` as the objects reachable from that "
                "state; with a failure injected at every step (parse, match processor, provider, unknown reference, "
                "unresolvable postponed reference, user __init__, object processor, model processor; main or imported "
                "file) TLC checks that nothing is retained, classes are clean and a follow-up load equals a fresh "
                "metamodel's. Every enumerated failing scenario is replayed against the real loader with gc-based "
                "retention observation, and recorded event logs of seeded-random failing loads are validated by TLC."),
    level_note=("Bounded: <= 3 files + one nested string load, one failure per load; retention observed through "
                "gc reachability of instances of the metamodel's classes; the follow-up input is fixed."),
    technique="TLC model checking of LoaderUser.tla + replay of enumerated failure scenarios + TLC trace validation",
)
