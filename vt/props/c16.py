"""C16 -- loading is independent of the metamodel's history.

(M)    spec/History.tla model-checked over every history of length <= 5 of a
       small pool (3 configurations x 4 inputs, 2 slots): OutcomeIsFresh ("no shared
       variable influences the outcome"), SharedQuiescent, the repository clauses.
       `Fresh` is data: every (configuration, input, mode) of the pool is run once in
       a brand-new interpreter (vt/drive/history.py fresh) and the table is handed to
       the module as JSON.
(S->I) TLC generates histories (`-simulate`), printing for every call the outcome the
       module prescribes; the harness executes each history in ONE interpreter
       against the real textX and compares every call.
(I->S) the executed histories -- the simulated ones, the scripted interleavings of
       DESIGN.md section 6/C16 and longer seeded-random ones -- with the observed outcome
       of every call and the projected shared state after it are validated by TLC as
       behaviours of History!Next (TraceHistory.tla, batched).
"""
from __future__ import annotations

import json
import os
import random
import shutil
import subprocess
import sys
from concurrent.futures import ThreadPoolExecutor

from .. import common, tlc
from ..drive import history as H

PID = "C16"
INVS = ["OutcomeIsFresh", "IdentOnlyFromRepo", "SharedQuiescent", "RepoSane", "GrammarParserSticky",
        "RepoMonotone", "OthersUntouched"]
# the small pool of the (M) run: 3 configurations x 4 inputs (per grammar), 2 slots, <= 5 calls
MC_CFGS = ["ent.memo", "ent.grepo", "imp.classes"]
MC_INPUTS = {"ent": ["valid", "valid2", "syntax", "unknown"], "imp": ["valid", "impdep", "syntax", "unknown"]}
# clause -> invariant it must break in the (M) pool (the module is not vacuous)
DEV_BREAKS = {"NestedLoadFinalizesOuterUnlessCached": "OutcomeIsFresh",
              "ImportedParsersNotRestoredOnFailure": "SharedQuiescent"}
# seeded breakage -> invariant it must break; for "OutcomeIsFresh" the configuration that checks only that
# invariant is used (SharedQuiescent, the inductive reason, would otherwise be reported first)
SEEDED_BREAKS = {"NoClone": "OutcomeIsFresh", "KeepInstances": "OutcomeIsFresh", "NoCacheClear": "OutcomeIsFresh",
                 "KeepCrossrefs": "SharedQuiescent", "NoRestoreOnFailure": "SharedQuiescent"}
SLOTS = 3


# ------------------------------------------------------------------ Fresh: new interpreters
def _fresh_run(job):
    cfg, inp, mode, world, workdir = job
    env = dict(os.environ)
    env["PYTHONPATH"] = tlc.VERIF + os.pathsep + common.REPO
    env["VT_REPO"] = common.REPO
    env["PYTHONHASHSEED"] = "0"
    env["PYTHONDONTWRITEBYTECODE"] = "1"
    p = subprocess.run([sys.executable, "-m", "vt.drive.history", "fresh", cfg, inp, mode, workdir, world],
                       capture_output=True, text=True, env=env, cwd=tlc.VERIF, timeout=600)
    for ln in p.stdout.splitlines():
        if ln.startswith("FRESH|"):
            out = json.loads(ln[6:])
            if os.path.realpath(out["textx"]) != os.path.realpath(common.REPO):
                raise tlc.MachineryError(f"fresh interpreter imported textx from {out['textx']}, not {common.REPO}")
            return (cfg, inp, mode, world), out
    raise tlc.MachineryError(f"fresh run {cfg} {inp} {mode} {world} printed no result:\n{p.stdout[-500:]}\n{p.stderr[-1500:]}")


def build_fresh(workdir, cfgs, inputs_of):
    """Every (cfg, input, mode) once in a brand-new interpreter, in parallel; inputs that import
    the mutable library file once per content of that file (a second pool directory holds the
    `bad` content, nothing is written while the fresh interpreters run)."""
    bad = os.path.join(workdir, "_world_bad")
    if not os.path.isdir(bad):
        H.write_pool(bad, world="bad")
    jobs = []
    for c in cfgs:
        g = c.split(".")[0]
        for i in inputs_of(c):
            for m in ("str", "file"):
                jobs.append((c, i, m, "good", workdir))
                if H.uses_dep(g, i):
                    jobs.append((c, i, m, "bad", bad))
    with ThreadPoolExecutor(max_workers=tlc.NCPU) as ex:
        res = dict(ex.map(_fresh_run, jobs))
    fresh, freshmm, dumps = {}, {}, {}
    for (c, i, m, w), out in res.items():
        fresh.setdefault(c, {}).setdefault(i, {}).setdefault(m, {})[w] = dict(
            kind=out["load"]["kind"], dig=out["load"]["dig"], libs=out["load"]["libs"])
        dumps[(c, i, m, w)] = out["load"]["dump"]
        if freshmm.setdefault(c, out["mm"]["dig"]) != out["mm"]["dig"] or out["mm"]["kind"] != "mm":
            raise tlc.MachineryError(f"metamodel {c} is not built the same way in two new interpreters")
    for c in fresh:                       # inputs that do not import the mutable file: same in both worlds
        for i in fresh[c]:
            for m in fresh[c][i]:
                fresh[c][i][m].setdefault("bad", fresh[c][i][m]["good"])
    return fresh, freshmm, dumps, len(jobs)


def pool_doc(fresh, freshmm, cfgs, inputs, slots, maxops, dev=(), brk=()):
    """The data History.tla is parameterised with (MC_History.tla reads it)."""
    gs = sorted({c.split(".")[0] for c in cfgs})
    flag = {}
    for c in cfgs:
        fl = H.cfg_flags(c)
        flag[c] = dict(grammar=fl["grammar"], memo=fl["memo"], classes=fl["classes"], procs=fl["procs"],
                       grepo=fl["grepo"], inst=fl["inst"])
    alt = {}
    for c in cfgs:
        twin = c.split(".")[0] + ".plain" if flag[c]["grepo"] else c
        src = fresh.get(twin, fresh[c])
        alt[c] = {i: dict(kind=src[i]["file"]["good"]["kind"], dig=src[i]["file"]["good"]["dig"])
                  for i in inputs[c.split(".")[0]]}
    return dict(
        flag=flag,
        inputs={g: list(inputs[g]) for g in gs},
        winputs={g: [i for i in H.WINPUTS[g] if i in inputs[g]] for g in gs},
        winit={g: H.WINPUTS[g][0] for g in gs},
        depgrammars=[g for g in gs if g in H.DEP],
        depname=dict({g: H.DEP[g][0] for g in gs if g in H.DEP}, _="-"),
        fresh={c: {i: fresh[c][i] for i in inputs[c.split(".")[0]]} for c in cfgs},
        freshmm={c: freshmm[c] for c in cfgs},
        alt=alt,
        nested={g: {i: H.NESTED.get(g, {}).get(i, []) for i in inputs[g]} for g in gs},
        defs={g: {i: H.INPUTS[g][i]["defs"] for i in inputs[g]} for g in gs},
        unres={g: {i: sorted(set(H.INPUTS[g][i]["refs"]) - set(H.INPUTS[g][i]["defs"])) for i in inputs[g]} for g in gs},
        nimp={g: {i: H.NIMP.get(g, {}).get(i, 0) for i in inputs[g]} for g in gs},
        slots=slots, maxops=maxops, dev=sorted(dev), brk=sorted(brk))


def _write(work, name, doc):
    path = os.path.join(work, name)
    with open(path, "w") as f:
        json.dump(doc, f)
    return path


# ------------------------------------------------------------------ (M)
def model_check(work, fresh, freshmm, dev=(), brk=(), tag="mc", cfg="MC_History.cfg"):
    doc = pool_doc(fresh, freshmm, MC_CFGS, MC_INPUTS, slots=2, maxops=5, dev=dev, brk=brk)
    path = _write(work, f"pool_{tag}.json", doc)
    return tlc.model_check("MC_History", cfg=cfg, env={"VT_POOL": path}, timeout=1800)


def module_sensitivity(work, fresh, freshmm, clauses_dev, clauses_brk):
    """Each clause switched on must make TLC report one of the named invariants violated."""
    jobs = [("dev", d, v) for d, v in clauses_dev.items()] + [("brk", b, v) for b, v in clauses_brk.items()]

    def one(job):
        kind, name, want = job
        r = model_check(work, fresh, freshmm, dev=[name] if kind == "dev" else [], brk=[name] if kind == "brk" else [],
                        tag=f"{kind}_{name}",
                        cfg="MC_History_Outcome.cfg" if want == "OutcomeIsFresh" else "MC_History.cfg")
        return name, r.violated, want

    with ThreadPoolExecutor(max_workers=max(1, tlc.NCPU // 4)) as ex:
        out = list(ex.map(one, jobs))
    for name, violated, want in out:
        if violated != want:
            raise tlc.MachineryError(f"History.tla with clause {name} on: expected a violation of {want}, TLC reports "
                                     f"{violated!r} -- the module would be vacuous for this clause")
    return {name: violated for name, violated, _ in out}


# ------------------------------------------------------------------ histories
def simulate(work, pool_path, num, depth, seed):
    """(S->I) histories chosen by TLC, each call with the outcome the module prescribes."""
    r = tlc.model_check("MC_History", cfg="MC_History_Sim.cfg", env={"VT_POOL": pool_path}, workers=1,
                        simulate=f"num={num}", depth=depth, extra=("-seed", str(seed + 1)), timeout=1800)
    tlc.require_ok(r, "history simulation")
    hists, cur = [], None
    for st in r.results("STEP"):
        if st["lvl"] == 1:
            cur = []
            hists.append(cur)
        cur.append(st)
    return r, hists


def _op(name, slot, arg, inp="-"):
    return dict(name=name, slot=slot, arg=arg, inp=inp)


def _circuit(nodes):
    """A sequence over `nodes` in which every ordered pair (a, b) -- a = b included -- occurs
    as two consecutive elements exactly once (Eulerian circuit of the complete digraph with loops)."""
    out_edges = {a: list(reversed(nodes)) for a in nodes}
    stack, seq = [nodes[0]], []
    while stack:
        v = stack[-1]
        if out_edges[v]:
            stack.append(out_edges[v].pop())
        else:
            seq.append(stack.pop())
    return list(reversed(seq))


def scripted():
    """The interleavings DESIGN.md section 6 (C16) calls out, written down explicitly."""
    out = []
    gs = list(H.GRAMMARS)
    for g in gs:
        ins = list(H.INPUTS[g])
        opts = H.GOPTIONS[g]
        # every ordered pair of inputs (a failing load followed by a valid one, a load repeated,
        # a failing import followed by a reload, one notation / directory after another ...) loaded
        # consecutively through the same metamodel: from files for every configuration, from strings
        # for two of them.  For ent / imp / dirs the loads are nested in the scope provider.
        for o in opts:
            h = [_op("NewMM", 1, f"{g}.{o}")] + [_op("LoadFile", 1, i) for i in _circuit(ins)]
            out.append((f"all ordered pairs of file loads {g}.{o}", h))
        for o in [x for x in ("plain", "classes") if x in opts]:
            h = [_op("NewMM", 1, f"{g}.{o}")]
            for k, i in enumerate(_circuit(ins)):
                h.append(_op("LoadStr", 1, i))
                if k % 3 == 2:
                    h.append(_op("LoadFile", 1, i))      # string loads vs file loads of the same content
            out.append((f"all ordered pairs of string loads {g}.{o}", h))
        # the metamodel with memoization first, then one without -- and vice versa -- so that
        # textX_parsers and the base-type rule objects are shared
        for first, second in (("memo", "plain"), ("plain", "memo"), ("memo", "classes"), ("procs", "memo")):
            if first not in opts or second not in opts:
                continue
            h = [_op("NewMM", 1, f"{g}.{first}"), _op("NewMM", 2, f"{g}.{second}")]
            for i in ins:
                h += [_op("LoadStr", 1, i), _op("LoadStr", 2, i), _op("LoadFile", 2, i), _op("LoadFile", 1, i)]
            out.append((f"{first}-then-{second} {g}", h))
        # global repository: repeated loads, a rewritten file, drop and re-create
        if "grepo" in opts:
            w0, w1 = H.WINPUTS[g]
            h = [_op("NewMM", 1, f"{g}.grepo"), _op("LoadFile", 1, "scratch"), _op("LoadFile", 1, "scratch"),
                 _op("WriteFile", 0, g, w1), _op("LoadFile", 1, "scratch"), _op("NewMM", 2, f"{g}.plain"),
                 _op("LoadFile", 2, "scratch"), _op("LoadFile", 1, "valid"), _op("LoadFile", 1, "valid"),
                 _op("WriteFile", 0, g, w0), _op("LoadFile", 2, "scratch"), _op("DropMM", 1, "-"),
                 _op("NewMM", 1, f"{g}.grepo"), _op("LoadFile", 1, "scratch"), _op("LoadFile", 1, "valid")]
            out.append((f"global-repository {g}", h))
        # an imported file is broken: the load fails, is repeated, the file is repaired, the load is
        # repeated again (and the other way round) -- with and without a global repository
        if g in H.DEP:
            dep_ins = [i for i in ins if H.uses_dep(g, i)]
            for o in opts:
                h = [_op("NewMM", 1, f"{g}.{o}"), _op("WriteDep", 0, g, "bad")]
                for i in dep_ins:
                    h += [_op("LoadFile", 1, i), _op("LoadFile", 1, i), _op("LoadStr", 1, i)]
                h += [_op("WriteDep", 0, g, "good")]
                for i in dep_ins:
                    h += [_op("LoadFile", 1, i), _op("LoadFile", 1, i), _op("LoadStr", 1, i)]
                h += [_op("LoadFile", 1, "valid"), _op("WriteDep", 0, g, "bad")]
                for i in dep_ins:
                    h += [_op("LoadFile", 1, i), _op("LoadStr", 1, i)]
                h += [_op("DropMM", 1, "-"), _op("NewMM", 1, f"{g}.{o}")]
                for i in dep_ins:
                    h += [_op("LoadFile", 1, i), _op("LoadFile", 1, "valid"), _op("LoadFile", 1, i)]
                h += [_op("WriteDep", 0, g, "good")]
                for i in dep_ins:
                    h += [_op("LoadFile", 1, i), _op("LoadFile", 1, i)]
                out.append((f"imported file broken and repaired {g}.{o}", h))
    # metamodels of different grammars interleaved (the base-type rule objects are shared by all)
    h = [_op("NewMM", 1, "ent.memo"), _op("NewMM", 2, "expr.memo"), _op("NewMM", 3, "imp.memo")]
    for k in range(3):
        for s, g in ((1, "ent"), (2, "expr"), (3, "imp")):
            ins = list(H.INPUTS[g])
            h += [_op("LoadStr", s, ins[(k + s) % len(ins)]), _op("LoadFile", s, ins[(2 * k + s) % len(ins)])]
    out.append(("three memoizing grammars", h))
    # metamodels of *different* grammars created between loads: the grammars share textually
    # identical regexes and literals in different roles (assignment rhs, suppressed match, separator,
    # match-rule body, ignore_case on/off), so anything cached per regex / literal text across
    # metamodels changes what an already existing metamodel loads
    import itertools

    def all_loads(slot, g):
        return [_op(nm, slot, i) for i in H.INPUTS[g] for nm in ("LoadStr", "LoadFile")]

    def opt(g, o):
        return o if o in H.GOPTIONS[g] else "memo"

    triples = list(itertools.permutations(["ent", "imp", "expr"]))
    triples += [tuple(gs[(k + d) % len(gs)] for d in (0, 1, 2)) for k in range(len(gs)) if k not in (0,)]
    for k, (g1, g2, g3) in enumerate(triples):
        o2, o3 = (("plain", "icase"), ("icase", "plain"))[k % 2]
        h = [_op("NewMM", 1, f"{g1}.plain")] + all_loads(1, g1)
        h += [_op("NewMM", 2, f"{g2}.{opt(g2, o2)}")] + all_loads(1, g1) + all_loads(2, g2)
        h += [_op("NewMM", 3, f"{g3}.{opt(g3, o3)}")] + all_loads(1, g1) + all_loads(2, g2) + all_loads(3, g3)
        h += [_op("DropMM", 1, "-"), _op("NewMM", 1, f"{g1}.{opt(g1, 'icase')}")] + all_loads(1, g1) + all_loads(3, g3)
        out.append((f"grammars interleaved with loads {g1},{g2},{g3}", h))
    # the witnesses of the listed findings (reproduced in every run while the defects exist)
    out.append(("nested load with a global repository, repeated",
                [_op("NewMM", 1, "ent.grepo"), _op("LoadFile", 1, "valid2"), _op("LoadFile", 1, "valid2"),
                 _op("LoadFile", 1, "valid2"), _op("LoadStr", 1, "valid2"), _op("LoadFile", 1, "valid")]))
    out.append(("failing multi-file load with user classes, then valid loads",
                [_op("NewMM", 1, "imp.classes"), _op("LoadFile", 1, "unknown"), _op("LoadFile", 1, "valid"),
                 _op("LoadStr", 1, "noimp"), _op("LoadFile", 1, "unknown"), _op("LoadFile", 1, "noimp")]))
    out.append(("failing loads with user classes and later failing loads",
                [_op("NewMM", 1, "imp.plain"), _op("NewMM", 2, "imp.classes"), _op("LoadFile", 2, "unknown"),
                 _op("LoadFile", 2, "syntax"), _op("LoadFile", 2, "unknown"), _op("LoadFile", 2, "unknown"),
                 _op("LoadStr", 2, "syntax"), _op("LoadFile", 2, "impbad"), _op("LoadStr", 2, "valid"),
                 _op("LoadFile", 2, "syntax"), _op("LoadFile", 2, "syntax"), _op("LoadFile", 2, "valid")]))
    return out


def random_histories(rng, count, length):
    """(I->S) longer seeded-random histories (the harness chooses, TLC judges)."""
    out = []
    for _ in range(count):
        live, h = {}, []
        scr = {g: H.WINPUTS[g][0] for g in H.GRAMMARS}
        dep = {g: "good" for g in H.DEP}
        favoured = [rng.choice(H.CFGS) for _ in range(2)]
        while len(h) < length:
            free = [s for s in range(1, SLOTS + 1) if s not in live]
            x = rng.random()
            if not live or (free and x < 0.18):
                c = rng.choice(favoured + H.CFGS) if rng.random() < 0.7 else rng.choice(H.CFGS)
                s = rng.choice(free)
                live[s] = c
                h.append(_op("NewMM", s, c))
            elif x < 0.22:
                s = rng.choice(sorted(live))
                del live[s]
                h.append(_op("DropMM", s, "-"))
            elif x < 0.27:
                g = rng.choice(sorted({c.split(".")[0] for c in live.values()}))
                i = [w for w in H.WINPUTS[g] if w != scr[g]][0]
                scr[g] = i
                h.append(_op("WriteFile", 0, g, i))
            elif x < 0.33 and any(c.split(".")[0] in H.DEP for c in live.values()):
                g = rng.choice(sorted({c.split(".")[0] for c in live.values()} & set(H.DEP)))
                dep[g] = "bad" if dep[g] == "good" else "good"
                h.append(_op("WriteDep", 0, g, dep[g]))
            else:
                s = rng.choice(sorted(live))
                g = live[s].split(".")[0]
                if rng.random() < 0.5:
                    h.append(_op("LoadStr", s, rng.choice(list(H.INPUTS[g]))))
                else:
                    h.append(_op("LoadFile", s, rng.choice(list(H.INPUTS[g]) + ["scratch"])))
        out.append(h)
    return out


def execute(ex, ops):
    """Run one history against the real textX in this interpreter; one event per call."""
    ex.reset_process_state()
    events, dumps = [], []
    for o in ops:
        if o["name"] in ("LoadStr", "LoadFile", "DropMM") and o["slot"] not in ex.lives:
            # the metamodel could not be built (that NewMM event already is not a step of the module)
            ex.n += 1
            events.append(dict(name=o["name"], slot=o["slot"], arg=o["arg"], inp=o.get("inp", "-"),
                               res=dict(kind="other:NoMetamodel", dig="-", ident=0), state=ex.state()))
            dumps.append({})
            continue
        if o["name"] in ("LoadStr", "LoadFile"):
            live = ex.lives[o["slot"]]
            g = live.flags["grammar"]
            inp = ex.scratch[g] if (o["name"] == "LoadFile" and o["arg"] == H.SCRATCH) else o["arg"]
        else:
            inp = o.get("inp", "-")
        r = ex.apply(dict(name=o["name"], slot=o["slot"], arg=o["arg"], inp=inp))
        events.append(dict(name=o["name"], slot=o["slot"], arg=o["arg"], inp=inp,
                           res=dict(kind=r["kind"], dig=r["dig"], ident=r["ident"]), state=ex.state()))
        dumps.append(r["dump"])
    return events, dumps


CHUNK = 60      # traces per TLC run (single worker each, up to tlc.NCPU runs side by side)


def validate(work, traces, pool_path, expect=False, tag="t"):
    """TLC decides for every trace how many of its events are steps of History!Next.
    Returns (TLCResult with summed counters, {tid (1-based): {reached, len}})."""
    chunks = [traces[k:k + CHUNK] for k in range(0, len(traces), CHUNK)] or [[]]

    def one(job):
        k, chunk = job
        tp = _write(work, f"traces_{tag}_{k}.json", chunk)
        r = tlc.model_check("TraceHistory", env={"VT_TRACES": tp, "VT_POOL": pool_path,
                                                 "VT_MODE": "expect" if expect else "check"},
                            workers=1, timeout=3600)
        tlc.require_ok(r, "trace validation")
        return r

    if len(chunks) == 1:
        rs = [one((0, chunks[0]))]
    else:
        with ThreadPoolExecutor(max_workers=tlc.NCPU) as ex:
            rs = list(ex.map(one, enumerate(chunks)))
    got = {}
    for k, r in enumerate(rs):
        for x in r.results("TRACE"):
            got[k * CHUNK + x["tid"]] = x
    if len(got) != len(traces):
        raise tlc.MachineryError("trace validation did not report every trace")
    total = rs[0]
    for r in rs[1:]:
        total.distinct += r.distinct
        total.generated += r.generated
        total.wall_s = max(total.wall_s, r.wall_s)
        total.prints += r.prints
    return total, got


def expected_of(work, ops_events, pool_path):
    """What History.tla prescribes for this sequence of calls (result and state per call)."""
    r, _ = validate(work, [ops_events], pool_path, expect=True, tag="exp")
    return {x["step"]: x for x in r.results("EXP")}


def _brief(events, upto=None):
    out = []
    for e in events[:upto]:
        a = [e["arg"]] if e["name"] not in ("WriteFile", "WriteDep") else [e["arg"], e["inp"]]
        out.append([e["name"], e["slot"], *a, e["res"]["kind"], e["res"]["ident"]])
    return out


def _nontrivial(events):
    """>= 3 loads, at least one of which comes after an earlier load (so history could matter)."""
    loads = [e for e in events if e["name"] in ("LoadStr", "LoadFile")]
    return len(loads) >= 3


def _subsets(devs):
    out = [[d] for d in devs]
    if len(devs) > 1:
        out.append(list(devs))
    return out


def _shrink(ex, work, events, pool_dev0, pool_all, rounds=8):
    """Smallest sub-history that History.tla (with every listed deviation allowed) still rejects."""
    ops = [dict(name=e["name"], slot=e["slot"], arg=e["arg"], inp=e["inp"]) for e in events]

    def valid(seq):
        live = set()
        for o in seq:
            if o["name"] == "NewMM":
                if o["slot"] in live:
                    return False
                live.add(o["slot"])
            elif o["name"] == "DropMM":
                if o["slot"] not in live:
                    return False
                live.discard(o["slot"])
            elif o["name"] not in ("WriteFile", "WriteDep") and o["slot"] not in live:
                return False
        return True

    best, best_ev = ops, events
    _, g0 = validate(work, [events], pool_all or pool_dev0, tag="shr0")     # cut after the call that is not a step
    if g0[1]["reached"] < g0[1]["len"]:
        best, best_ev = ops[:g0[1]["reached"] + 1], events[:g0[1]["reached"] + 1]
    for _ in range(rounds):
        cands = [best[:k] + best[k + 1:] for k in range(len(best))]
        cands = [c for c in cands if c and valid(c)]
        if not cands:
            break
        evs = []
        for c in cands:
            try:
                evs.append(execute(ex, c)[0])
            except Exception:
                evs.append(None)
        idx = [k for k, e in enumerate(evs) if e is not None]
        if not idx:
            break
        _, got = validate(work, [evs[k] for k in idx], pool_dev0, tag="shr")
        still = [idx[j] for j in range(len(idx)) if got[j + 1]["reached"] < got[j + 1]["len"]]
        if still and pool_all:
            _, got2 = validate(work, [evs[k] for k in still], pool_all, tag="shr2")
            still = [still[j] for j in range(len(still)) if got2[j + 1]["reached"] < got2[j + 1]["len"]]
        if not still:
            break
        k = min(still, key=lambda q: len(cands[q]))
        best, best_ev = cands[k], evs[k]
    return best_ev


def run(rep):
    quick = rep.tier == "quick"
    rng = random.Random(rep.seed)
    rep.rule = ("A case is one history (sequence of NewMM / DropMM / WriteFile / WriteDep / LoadStr / LoadFile calls over "
                f"3 slots, {len(H.CFGS)} configurations = 5 grammars x options out of {{plain, memoization, user classes, "
                "object processors, global repository, ignore_case}; the grammars share textually identical regexes "
                "and literals in different roles, two of them have stateful scope providers: string-registered RREL "
                "providers over match rules with different split parameters, ImportURI with a search path over model "
                "files in several directories; 5-9 inputs per grammar, one mutable model file and one mutable imported "
                "file per grammar directory) executed in one interpreter; every call's result (digest of the "
                "structural dump of the model or of the projected error, identity of the returned model) and the "
                "projected shared state after it must be a behaviour of History.tla whose expected results are the "
                "Fresh table. S->I: histories from `tlc -simulate`; I->S: those, the scripted interleavings (every "
                "ordered pair of inputs loaded consecutively per configuration, broken-then-repaired imports, "
                "metamodels of different grammars created between loads) and seeded-random longer ones validated by "
                "TLC. Non-trivial: >= 3 loads; distinct by the sequence of calls and results.")
    rep.assumptions = [
        "Fresh(cfg, input, mode) is produced by the implementation itself: each triple is run once in a brand-new "
        "interpreter (subprocess, same VT_REPO); the check therefore cannot see a defect that is the same in every state",
        "debug=False only (debug=True writes dot files into the working directory); two metamodels sharing user "
        "classes is out of scope",
        "files are named relative to the grammar directory of the pool; the content of the mutable imported file is "
        "one of two fixed texts (valid / syntax error), and Fresh is taken per content for the inputs importing it",
        "the shared state is observed by introspection: textx.lang.textX_parsers, _result_cache of every rule object "
        "reachable from the grammar parser / base-type rules / blueprint parsers, fields of mm._parser_blueprint, "
        "_tx_instrumented of the user classes, mm._tx_model_repository.all_models",
        "a structural dump consists of class names, attribute values with their Python type, containment, reference "
        "targets as (file, containment path), positions, the number of __init__ calls of user-class objects; an "
        "error is projected to (class, message, line, col, filename, err_type)",
        "between histories the interpreter is brought back to the module's initial state by dropping the metamodels "
        "and clearing textx.lang.textX_parsers; state the harness does not know about survives that reset, so a "
        "leak through such state may be reported at an early call of a later history (the earlier histories of the "
        "run are then part of the witness)",
    ]
    findings = common.open_findings(PID)
    devs = {f["deviation"]: f["id"] for f in findings}
    work = tlc.scratch("vt-c16-")
    import time
    t0 = [time.time()]
    phases = rep.extra.setdefault("phase_wall_s", {})

    def lap(name):
        phases[name] = round(time.time() - t0[0], 1)
        t0[0] = time.time()

    try:
        H.write_pool(work)
        # ---- Fresh
        fresh, freshmm, fdumps, nfresh = build_fresh(work, H.CFGS, lambda c: list(H.INPUTS[c.split(".")[0]]))
        if not quick:
            fresh2, freshmm2, _, _ = build_fresh(work, H.CFGS, lambda c: list(H.INPUTS[c.split(".")[0]]))
            if common.canon([fresh, freshmm]) != common.canon([fresh2, freshmm2]):
                raise tlc.MachineryError("the Fresh table is not reproducible (two rounds of new interpreters differ)")
        rep.bounds["fresh_runs"] = nfresh
        lap("fresh")
        kinds = {}
        for c in fresh:
            for i in fresh[c]:
                for m in fresh[c][i]:
                    k = fresh[c][i][m]["good"]["kind"]
                    kinds[k] = kinds.get(k, 0) + 1
        rep.extra["fresh_outcome_classes"] = kinds
        for want in ("model", "syntax", "unknown", "proc"):
            if not kinds.get(want):
                raise tlc.MachineryError(f"the pool produces no fresh outcome of class {want}: {kinds}")

        # ---- (M)
        r = model_check(work, fresh, freshmm)
        tlc.require_ok(r, "MC_History")
        rep.add_mc("MC_History", r, INVS)
        rep.bounds["mc"] = dict(cfgs=MC_CFGS, inputs=MC_INPUTS, slots=2, max_calls=5)
        sens = module_sensitivity(work, fresh, freshmm, DEV_BREAKS, {} if quick else SEEDED_BREAKS)
        rep.extra["module_sensitivity"] = sens
        lap("model_checking")

        # ---- (S->I) histories from TLC, executed and compared call by call
        inputs_all = {g: list(H.INPUTS[g]) for g in H.GRAMMARS}
        pool0 = _write(work, "pool.json", pool_doc(fresh, freshmm, H.CFGS, inputs_all, SLOTS, 0))
        pools = {tuple(ds): _write(work, "pool_" + "_".join(devs[d] for d in ds) + ".json",
                                   pool_doc(fresh, freshmm, H.CFGS, inputs_all, SLOTS, 0, dev=ds))
                 for ds in _subsets(sorted(devs))}
        num, depth = (100, 10) if quick else (2000, 12)
        rs, sims = simulate(work, pool0, num, depth, rep.seed)
        rep.add_mc("MC_History_Sim", rs, ["(history generation: -simulate)"])
        lap("simulation")
        ex = H.Executor(work, slots=SLOTS)
        traces, meta = [], []
        direct_mismatch = {}
        for hs in sims:
            ev, _ = execute(ex, [dict(name=s["name"], slot=s["slot"], arg=s["arg"], inp=s["inp"]) for s in hs])
            traces.append(ev)
            meta.append("simulated")
            for k, (s, e) in enumerate(zip(hs, ev)):
                if common.canon(s["res"]) != common.canon(e["res"]) or s["inp"] != e["inp"]:
                    direct_mismatch[len(traces)] = k
                    break
        for name, h in scripted():
            traces.append(execute(ex, h)[0])
            meta.append("scripted: " + name)
        nr, ln = (40, 30) if quick else (600, 40)
        for h in random_histories(rng, nr, ln):
            traces.append(execute(ex, h)[0])
            meta.append("random")
        ex.reset_process_state()
        rep.bounds["histories"] = dict(simulated=len(sims), simulated_length=depth,
                                       scripted=len(meta) - len(sims) - nr, random=nr, random_length=ln,
                                       calls=sum(len(t) for t in traces))

        lap("execution")
        # ---- (I->S) TLC validates every executed history
        rv, got = validate(work, traces, pool0)
        lap("trace_validation")
        rep.add_mc("TraceHistory", rv, ["TraceNext consumes every event"])
        rejected = [t for t in sorted(got) if got[t]["reached"] < got[t]["len"]]
        for t in sorted(got):
            if t not in rejected and t in direct_mismatch:
                raise tlc.MachineryError(f"history {t}: the simulation's expected result differs at call "
                                         f"{direct_mismatch[t] + 1} but trace validation accepted it")
        alt = {}
        if rejected:
            for ds, path in pools.items():
                _, g2 = validate(work, [traces[t - 1] for t in rejected], path, tag="dev")
                alt[ds] = {rejected[j]: g2[j + 1] for j in range(len(rejected))}
        nviol = 0
        for t in sorted(got):
            tr = traces[t - 1]
            case = dict(source=meta[t - 1], history=_brief(tr))
            if t not in rejected:
                rep.passed(case, nontrivial=_nontrivial(tr))
                continue
            ds = next((ds for ds in sorted(alt, key=len) if alt[ds][t]["reached"] == alt[ds][t]["len"]), None)
            if ds is not None:
                for d in ds:
                    rep.known_finding(devs[d])
                continue
            nviol += 1
            if nviol <= 2:          # shrink and explain the first few; the rest are stored as recorded
                small = _shrink(ex, work, tr, pool0, pools.get(tuple(sorted(devs))))
                _, g1 = validate(work, [small], pool0, tag="one")
                k = min(g1[1]["reached"], len(small) - 1)
                exp = expected_of(work, small[:k + 1], pool0).get(k + 1, {})
            else:
                small = tr
                far = max([got[t]["reached"]] + [alt[ds][t]["reached"] for ds in alt])   # first call no listed
                k = min(far, len(small) - 1)                                             # deviation explains
                small = small[:k + 1]
                exp = {}
            e = small[k]
            c = next((x["arg"] for x in reversed(small[:k + 1]) if x["name"] == "NewMM" and x["slot"] == e["slot"]), "-")
            rep.violation(dict(kind="history", source=meta[t - 1],
                               ops=[dict(name=x["name"], slot=x["slot"], arg=x["arg"], inp=x["inp"]) for x in small],
                               failing_call=k + 1, observed=dict(res=e["res"], state=e["state"]),
                               expected=dict(res=exp.get("res"), state=exp.get("state"))),
                          f"call {k + 1} of a history ({e['name']} slot {e['slot']} {e['arg']} on {c}, after "
                          f"{[x['name'] + ':' + str(x['arg']) for x in small[:k]]}) gave {e['res']} with shared state "
                          f"{_state_brief(e['state'])}"
                          + (f"; History.tla (Fresh table) prescribes {exp.get('res')} with "
                             f"{_state_brief(exp.get('state'))}" if exp else
                             "; not a step of History!Next (run --replay for the prescribed result)"))
        rep.exhaustive = False
        lap("verdicts")
    finally:
        shutil.rmtree(work, ignore_errors=True)


def _state_brief(st):
    if not st:
        return "?"
    mms = st["mms"]
    if isinstance(mms, dict):
        mms = [mms[k] for k in sorted(mms, key=int)]
    return dict(gp=st["gp"], cache=st["cache"],
                mms=[[m["cfg"], sorted(m["dirty"]), m["instr"], sorted(m["repo"])] for m in mms if m["cfg"] != "-"])


def replay(path):
    """Re-run one stored history against the real code; 0 if it is a behaviour of History.tla now."""
    with open(path) as f:
        rec = json.load(f)
    case = rec["case"]
    ops = case["ops"]
    work = tlc.scratch("vt-c16r-")
    try:
        H.write_pool(work)
        used = {}
        for o in ops:
            if o["name"] == "NewMM":
                used[o["arg"]] = True
        cfgs = sorted(set(used) | {c.split(".")[0] + ".plain" for c in used})
        fresh, freshmm, fdumps, _ = build_fresh(work, cfgs, lambda c: list(H.INPUTS[c.split(".")[0]]))
        inputs = {g: list(H.INPUTS[g]) for g in {c.split(".")[0] for c in cfgs}}
        pool0 = _write(work, "pool.json", pool_doc(fresh, freshmm, cfgs, inputs, SLOTS, 0))
        ex = H.Executor(work, slots=SLOTS, grammars=sorted(inputs))
        ev, dumps = execute(ex, ops)
        for e in ev:                               # the module only knows the grammars of this pool
            e["state"]["scratch"] = {g: e["state"]["scratch"][g] for g in inputs}
        _, got = validate(work, [ev], pool0)
        exp = expected_of(work, ev, pool0)
        for k, e in enumerate(ev):
            x = exp.get(k + 1, {})
            ok = k < got[1]["reached"]
            print(f"{k + 1:2d} {e['name']:9s} slot={e['slot']} {e['arg']:12s} -> {e['res']}  {'ok' if ok else 'NOT A STEP'}")
            if not ok:
                print("     observed state:", _state_brief(e["state"]))
                print("     expected      :", x.get("res"), _state_brief(x.get("state")))
                mode = "str" if e["name"] == "LoadStr" else "file"
                c = next((y["arg"] for y in reversed(ev[:k + 1]) if y["name"] == "NewMM" and y["slot"] == e["slot"]), None)
                w = e["state"]["dep"].get((c or "-").split(".")[0], "good")
                if (c, e["inp"], mode, w) in fdumps:
                    print("     observed dump :", common.canon(dumps[k])[:1500])
                    print("     fresh dump    :", common.canon(fdumps[(c, e["inp"], mode, w)])[:1500])
                break
        print("history reached", got[1]["reached"], "of", got[1]["len"])
        return 0 if got[1]["reached"] == got[1]["len"] else 1
    finally:
        shutil.rmtree(work, ignore_errors=True)


def selftest():
    """Rule 6 for the module: every deviation clause and every seeded breakage switched on makes
    TLC report the corresponding invariant violated on the (M) pool."""
    work = tlc.scratch("vt-c16s-")
    try:
        H.write_pool(work)
        cfgs = sorted(set(MC_CFGS) | {"ent.plain"})
        fresh, freshmm, _, _ = build_fresh(work, cfgs, lambda c: MC_INPUTS[c.split(".")[0]])
        sens = module_sensitivity(work, fresh, freshmm, DEV_BREAKS, SEEDED_BREAKS)
        for k, v in sens.items():
            print(f"clause {k}: TLC reports {v} violated")
        return 0
    finally:
        shutil.rmtree(work, ignore_errors=True)


META = dict(
    modules=["History", "MC_History", "TraceHistory"],
    level_text=("History.tla states what outlives a load (grammar-parser cache, packrat tables of the shared rule "
                "objects, blueprint parser state, class instrumentation, global repositories, file contents) as a "
                "state machine over a pool of metamodel configurations; TLC checks in every history of length <= 5 of a "
                "small pool that the outcome of each load equals the Fresh table (no shared variable influences it) and "
                "that the shared state is quiescent between calls; histories generated by TLC and longer seeded-random "
                "ones are executed in one interpreter against the real textX and validated by TLC call by call."),
    level_note=("Fresh is produced by the implementation itself (each (configuration, input, mode) once in a new "
                "interpreter), so only *dependence on history* is judged; debug=False; user classes are not shared "
                "between metamodels; conformance is sampled (simulation + scripted + random), not exhaustive."),
    technique="TLC model checking of History.tla + TLC-simulated histories replayed + TLC trace validation",
)
