"""C10 -- the FQN scope provider resolves only genuine qualified names.

(M)    spec/MC_Fqn.tla: TLC checks the property itself (C10Holds: resolves exactly when a chain
       of named objects, each *contained* in the previous one, exists from the nearest of
       <<referencing object, its ancestors>>, ends in the target type; never through parent links or
       references) as an invariant of Fqn.tla over a bounded universe of trees, cross references
       and probing names; with either deviation clause switched on the invariant fails.
(S->I) package/class trees of depth <= 3 over the names {p, q} (sibling names unique) with <= 2
       cross references (`ext` of a class, `uses` of a package) and one probing reference from every
       referencing position (a `use`/`open` in the root or a package, `ext`, `uses`) with every
       dotted name of <= 3 parts: rendered, loaded with {"*.*": FQN()}, and the outcome of the load
       (target of every reference in textual order, or Unknown object) compared with
       Expected(case, Dev) evaluated by TLC (FqnOracle.tla) for Dev = {} and the listed findings.
(I->S) seeded-random bigger trees (names p q r, <= 14 nodes, up to 5 references).
"""
from __future__ import annotations

import json
import os
import random

from .. import common, tlc
from ..drive import fqn as D

PID = "C10"
NAMES = ["p", "q"]
DEVKEY = {frozenset(): "doc", frozenset(["FqnWalksParent"]): "p", frozenset(["FqnWalksRefs"]): "r",
          frozenset(["FqnWalksParent", "FqnWalksRefs"]): "pr"}


# ------------------------------------------------------------------ enumeration
def level(d, names=NAMES):
    """all sibling lists of depth <= d: each name absent / a class / a package with children"""
    if d == 0:
        return [[]]
    sub = level(d - 1, names)
    per = []
    for nm in names:
        o = [None, dict(kind="cls", name=nm)]
        o.extend(dict(kind="pkg", name=nm, kids=k) for k in sub)
        per.append(o)
    out = [[]]
    for o in per:
        out = [t + ([x] if x else []) for t in out for x in o]
    return out


def size(t):
    return sum(1 + size(n.get("kids", [])) for n in t)


def dotted(names, maxlen):
    out, cur = [], [[]]
    for _ in range(maxlen):
        cur = [x + [n] for x in cur for n in names]
        out.extend(".".join(x) for x in cur)
    return out


def clone(t):
    return json.loads(json.dumps(t))


def nodes(t, path=()):
    """(path of indices, node) in textual order"""
    for i, n in enumerate(t):
        yield path + (i,), n
        yield from nodes(n.get("kids", []), path + (i,))


def at(t, path):
    n = None
    lst = t
    for i in path:
        n = lst[i]
        lst = n.get("kids", [])
    return n


def positions(t):
    """every referencing position: ('use'|'open', container path), ('ext'|'uses', node path)"""
    out = [("use", ()), ("open", ())]
    for p, n in nodes(t):
        if n["kind"] == "pkg":
            out += [("use", p), ("open", p), ("uses", p)]
        elif n["kind"] == "cls":
            out.append(("ext", p))
    return out


def with_ref(t, pos, name, front=False):
    """a copy of t with one more reference at the position"""
    t = clone(t)
    kind, p = pos
    if kind in ("use", "open"):
        lst = t if p == () else at(t, p).setdefault("kids", [])
        node = dict(kind=kind, refs=[name])
        lst.insert(0, node) if front else lst.append(node)
    else:
        at(t, p).setdefault("refs", []).append(name)
    return t


def qnames(t, prefix=()):
    """suffixes (<= 3 parts) of the qualified names of the named nodes: names likely to resolve"""
    out = []
    for n in t:
        if n.get("name"):
            q = prefix + (n["name"],)
            out.extend(".".join(q[i:]) for i in range(max(0, len(q) - 3), len(q)))
            out.extend(qnames(n.get("kids", []), q))
    return out


def pick_name(rng, t, uniform):
    q = qnames(t)
    return rng.choice(q) if q and rng.random() < 0.5 else rng.choice(uniform)


def random_tree(rng, names, maxnodes, depth=4):
    budget = [rng.randint(3, maxnodes)]

    def kids(d):
        out = []
        for nm in rng.sample(names, len(names)):
            if budget[0] <= 0 or rng.random() < 0.3:
                continue
            budget[0] -= 1
            if d > 1 and rng.random() < 0.55:
                out.append(dict(kind="pkg", name=nm, kids=kids(d - 1)))
            else:
                out.append(dict(kind="cls", name=nm))
        return out
    return kids(depth)


# ------------------------------------------------------------------ the check
def _judge(rep, real, cases, fids, label):
    """cases: [{id, tree}] -> load each, ask TLC, compare."""
    from concurrent.futures import ThreadPoolExecutor
    tcases = []
    for c in cases:
        objs, refs = D.abstract(c["tree"])
        tcases.append(dict(id=c["id"], objs=objs, refs=refs))
    with ThreadPoolExecutor(max_workers=1) as ex:
        fut = ex.submit(tlc.oracle, "FqnOracle", tcases)
        observed = {c["id"]: real.load(c["tree"]) for c in cases}
        res, st = fut.result()
    rep.add_oracle(label, st)
    for c, tc in zip(cases, tcases):
        obs, exp = observed[c["id"]], res[c["id"]]
        text = D.text(c["tree"])
        case = dict(model=text, refs=[[r["owner"], r["attr"], ".".join(r["parts"])] for r in tc["refs"]])
        if obs["error"] and obs["outcome"] == [-1]:
            rep.violation(dict(case=case, tree=c["tree"], observed=obs), f"loading failed unexpectedly: {obs['error']}")
            continue
        if [x[:3] for x in obs["calls"]] != case["refs"][:len(obs["calls"])]:
            raise tlc.MachineryError(f"driver: references were not resolved in the rendered order: "
                                     f"{obs['calls']} vs {case['refs']}")
        if not exp["c10"]:
            raise tlc.MachineryError(f"Fqn.tla: documented outcome violates C10 on {text!r}")
        nontrivial = exp["doc"] != exp["pr"] or (len(exp["doc"]) > 0 and exp["doc"][-1] != 0)
        dev = {}
        for devs, key in (("FqnWalksParent",), "p"), (("FqnWalksRefs",), "r"), (("FqnWalksParent", "FqnWalksRefs"), "pr"):
            if all(d in fids for d in devs):
                dev["+".join(fids[d] for d in devs)] = exp[key]
        # total verdict: documented -> pass; a listed deviation set -> known finding; else violation
        if obs["outcome"] == exp["doc"]:
            rep.passed(case, nontrivial)
            continue
        hit = next((k for k, v in dev.items() if obs["outcome"] == v), None)
        if hit:
            ids = hit.split("+")
            for f in ids:                     # one case, possibly explained by two clauses together
                rep.known_finding(f, case)
            rep.evaluations -= len(ids) - 1
            rep.traces -= len(ids) - 1
            continue
        rep.violation(dict(case=case, tree=c["tree"], observed=obs["outcome"], expected=exp["doc"],
                           with_deviations={k: exp[k] for k in ("p", "r", "pr")}),
                      f"model {text!r}: references {case['refs']} resolved to {obs['outcome']} (object ids in "
                      f"textual order, 0 = Unknown object); Fqn.tla prescribes {exp['doc']}; with FqnWalksParent "
                      f"{exp['p']}, with FqnWalksRefs {exp['r']}, with both {exp['pr']}")


def _cases(rep, rng, quick, witnesses):
    scale = float(os.environ.get("VT_SCALE", "1") or 1)
    if scale != 1:
        rep.note(f"VT_SCALE={scale}: reduced run")
    cases = [dict(tree=w) for w in witnesses]
    trees = [t for t in level(3) if size(t) >= 1]
    full_upto = 3 if quick else 5           # these trees: every position x every name, no cross reference
    names3, names2 = dotted(NAMES, 3), dotted(NAMES, 2)
    n_full = n_cross = 0
    for t in trees:
        sz = size(t)
        if sz <= full_upto:
            for pos in positions(t):
                for nm in names3:
                    cases.append(dict(tree=with_ref(t, pos, nm)))
                    n_full += 1
    # trees up to 6 (quick) / 8 (thorough) nodes with one or two cross references before the probe
    pool = [t for t in trees if 2 <= size(t) <= (6 if quick else 8)]
    want = int((3500 if quick else 40000) * scale)
    for _ in range(want):
        t = rng.choice(pool)
        ncross = rng.choice([0, 1, 1, 2])
        for _ in range(ncross):
            own = [p for p in positions(t) if p[0] in ("ext", "uses")]
            if not own:
                break
            t = with_ref(t, rng.choice(own), pick_name(rng, t, names2))
        pos = rng.choice(positions(t))
        cases.append(dict(tree=with_ref(t, pos, pick_name(rng, t, names3), front=rng.random() < 0.2)))
        n_cross += 1
    # (I->S) bigger seeded-random trees, names p q r, several references
    nbig = int((500 if quick else 6000) * scale)
    names = ["p", "q", "r"]
    big3 = dotted(names, 3)
    for _ in range(nbig):
        t = random_tree(rng, names, 14)
        if not t:
            continue
        for _ in range(rng.randint(1, 5)):
            t = with_ref(t, rng.choice(positions(t)), pick_name(rng, t, big3), front=rng.random() < 0.3)
        cases.append(dict(tree=t))
    for i, c in enumerate(cases):
        c["id"] = i
    rep.bounds.update(trees_depth3=len(trees), exhaustive_tree_nodes=full_upto, exhaustive_cases=n_full,
                      sampled_with_cross_refs=n_cross, random_big=nbig)
    return cases


def run(rep):
    quick = rep.tier == "quick"
    rng = random.Random(rep.seed)
    rep.rule = ("one case = a model text (nested pkg/cls tree, `ext`/`uses` cross references, `use`/`open` probes) "
                "loaded with {'*.*': FQN()}; observed = target of every reference in textual order or Unknown "
                "object; compared with Expected(case, Dev) of Fqn.tla. Non-trivial: the last reference resolves "
                "under the documented semantics, or the documented and the deviating outcome differ; distinct by "
                "model text.")
    rep.assumptions = ["sibling names are unique (the property's premise); object names are strings",
                       "single model, no scope_redirection_logic, no Postponed",
                       "references are resolved in textual order and loading stops at the first Unknown object "
                       "(the driver checks the order against the recorded provider calls)",
                       "the registered provider is a subclass of FQN that only records call and result"]
    skip_mc = bool(os.environ.get("VT_SKIP_MC"))      # harness debugging only; recorded in the evidence
    if skip_mc:
        rep.note("VT_SKIP_MC set: (M) skipped")
    for cfg in ([] if skip_mc else ["MC_Fqn.cfg"] if quick else ["MC_Fqn_Thorough.cfg"]):
        r = tlc.model_check("MC_Fqn", cfg=cfg, timeout=3000)
        tlc.require_ok(r, cfg)
        rep.add_mc(cfg[:-4], r, ["C10"])
    if not quick and not skip_mc:
        for cfg in ("MC_Fqn_P.cfg", "MC_Fqn_R.cfg"):
            r = tlc.model_check("MC_Fqn", cfg=cfg, timeout=3000)
            if r.violated != "C10":
                raise tlc.MachineryError(f"{cfg}: expected invariant C10 to be violated, got {r.violated} {r.error}")
            rep.extra.setdefault("deviation_breaks", {})[cfg[:-4]] = "C10"
    findings = common.open_findings(PID)
    fids = {f["deviation"]: f["id"] for f in findings}
    real = D.Real()
    cases = _cases(rep, rng, quick, [f["witness"]["tree"] for f in findings])
    _judge(rep, real, cases, fids, "FqnOracle")
    rep.exhaustive = False
    rep.bounds["cases"] = len(cases)


def replay(path):
    with open(path) as f:
        rec = json.load(f)
    tree = rec["case"]["tree"]
    common.ensure_repo_on_path()
    real = D.Real()
    print(D.text(tree))
    obs = real.load(tree)
    print("observed:", obs)
    objs, refs = D.abstract(tree)
    res, _ = tlc.oracle("FqnOracle", [dict(id=0, objs=objs, refs=refs)])
    print("Fqn.tla: documented", res[0]["doc"], "FqnWalksParent", res[0]["p"], "FqnWalksRefs", res[0]["r"],
          "both", res[0]["pr"])
    return 0 if obs["outcome"] == res[0]["doc"] else 1


META = dict(
    modules=["Fqn", "FqnOracle", "MC_Fqn"],
    level_text=("Fqn.tla states the FQN provider: chains through containment only, start object searched outward "
                "from the referencing object, type test at the end, references resolved in textual order. TLC checks "
                "the property (C10Holds, stated independently of the search as sets of genuine chain ends) as an "
                "invariant over a bounded universe of trees/references/names, and evaluates Expected(case, Dev) for "
                "enumerated and seeded-random models whose real load outcome is compared reference by reference. The "
                "real provider's walks through `parent` and through resolved references are the named deviation "
                "clauses FqnWalksParent / FqnWalksRefs; with them the module predicts the real outcome exactly."),
    level_note=("Trees of depth <= 3 over {p, q}: exhaustive x every position x every name of <= 3 parts only up to "
                "3 (quick) / 5 (thorough) nodes without cross references; larger trees and cross references are "
                "seeded samples. No scope_redirection_logic, no multi-file models."),
    technique="TLC model checking of Fqn.tla (property as invariant) + TLC-evaluated Expected(case, Dev) vs. real loads",
)
