"""C10 -- the FQN scope provider resolves only genuine qualified names.

(M)    spec/MC_Fqn.tla: TLC checks the property itself (C10Holds: resolves exactly when a chain
       of named objects, each *contained* in the previous one, exists from the nearest of
       <<referencing object, its ancestors>>, ends in the target type; never through parent links or
       references) as an invariant of Fqn.tla over a bounded universe of trees, cross references
       and probing names; with either deviation clause switched on the invariant fails.
(S->I) package/class trees of depth <= 3 over the names {p, q} (sibling names unique) with <= 2
       cross references (`ext` of a class, `uses` of a package) and one probing reference from every
       referencing position (a `use`/`open` in the root or a package, `ext`, `uses`) with every
       dotted name of <= 3 parts: rendered, loaded with {"*.*": FQN()}, and the outcome of the load
       (target of every reference in textual order, or Unknown object) compared with
       Expected(case, Dev) evaluated by TLC (FqnOracle.tla) for Dev = {} and the listed findings.
(I->S) seeded-random bigger trees (names p q r, <= 14 nodes, up to 5 references).
Anonymous containers (`grp { .. }`, an object without a name between named ones) are put around
the children of containers; every third case is loaded with a metamodel whose Pkg is a user class
with __len__ (packages without a class of their own are falsy in Python).  One provider object
serves all loads of a run.
"""
from __future__ import annotations

import json
import os
import random

from .. import common, tlc
from ..drive import fqn as D

PID = "C10"
NAMES = ["p", "q"]
DEVKEY = {frozenset(): "doc", frozenset(["FqnWalksParent"]): "p", frozenset(["FqnWalksRefs"]): "r",
          frozenset(["FqnWalksParent", "FqnWalksRefs"]): "pr"}


# ------------------------------------------------------------------ enumeration
def level(d, names=NAMES):
    """all sibling lists of depth <= d: each name absent / a class / a package with children"""
    if d == 0:
        return [[]]
    sub = level(d - 1, names)
    per = []
    for nm in names:
        o = [None, dict(kind="cls", name=nm)]
        o.extend(dict(kind="pkg", name=nm, kids=k) for k in sub)
        per.append(o)
    out = [[]]
    for o in per:
        out = [t + ([x] if x else []) for t in out for x in o]
    return out


def size(t):
    return sum(1 + size(n.get("kids", [])) for n in t)


def dotted(names, maxlen):
    out, cur = [], [[]]
    for _ in range(maxlen):
        cur = [x + [n] for x in cur for n in names]
        out.extend(".".join(x) for x in cur)
    return out


def clone(t):
    return json.loads(json.dumps(t))


def nodes(t, path=()):
    """(path of indices, node) in textual order"""
    for i, n in enumerate(t):
        yield path + (i,), n
        yield from nodes(n.get("kids", []), path + (i,))


def at(t, path):
    n = None
    lst = t
    for i in path:
        n = lst[i]
        lst = n.get("kids", [])
    return n


def positions(t):
    """every referencing position: ('use'|'open', container path), ('ext'|'uses', node path)"""
    out = [("use", ()), ("open", ())]
    for p, n in nodes(t):
        if n["kind"] == "grp":
            out += [("use", p), ("open", p)]
        elif n["kind"] == "pkg":
            out += [("use", p), ("open", p), ("uses", p)]
        elif n["kind"] == "cls":
            out.append(("ext", p))
    return out


def with_ref(t, pos, name, front=False):
    """a copy of t with one more reference at the position"""
    t = clone(t)
    kind, p = pos
    if kind in ("use", "open"):
        lst = t if p == () else at(t, p).setdefault("kids", [])
        node = dict(kind=kind, refs=[name])
        lst.insert(0, node) if front else lst.append(node)
    else:
        at(t, p).setdefault("refs", []).append(name)
    return t


def qnames(t, prefix=()):
    """suffixes (<= 3 parts) of the qualified names of the named nodes: names likely to resolve"""
    out = []
    for n in t:
        if n.get("name"):
            q = prefix + (n["name"],)
            out.extend(".".join(q[i:]) for i in range(max(0, len(q) - 3), len(q)))
            out.extend(qnames(n.get("kids", []), q))
    return out


def pick_name(rng, t, uniform):
    q = qnames(t)
    return rng.choice(q) if q and rng.random() < 0.5 else rng.choice(uniform)


def random_tree(rng, names, maxnodes, depth=4):
    budget = [rng.randint(3, maxnodes)]

    def kids(d):
        out = []
        for nm in rng.sample(names, len(names)):
            if budget[0] <= 0 or rng.random() < 0.3:
                continue
            budget[0] -= 1
            if d > 1 and rng.random() < 0.55:
                out.append(dict(kind="pkg", name=nm, kids=kids(d - 1)))
            else:
                out.append(dict(kind="cls", name=nm))
        return out
    return kids(depth)


# ------------------------------------------------------------------ anonymous containers
def containers(t, path=()):
    """paths of the containers (() = root, packages, groups) with at least one child"""
    out = [()] if t else []
    for p, n in nodes(t):
        if n["kind"] in ("pkg", "grp") and n.get("kids"):
            out.append(p)
    return out


def wrap(t, path, pick=None):
    """a copy of t in which (some of) the children of the container at `path` are moved into a
    new anonymous group standing where the first of them stood"""
    t = clone(t)
    if path == ():
        lst = t
    else:
        lst = at(t, path)["kids"]
    idx = [i for i in range(len(lst)) if pick is None or pick(i)]
    if not idx:
        return t
    moved = [lst[i] for i in idx]
    rest = [x for i, x in enumerate(lst) if i not in idx]
    rest.insert(min(idx[0], len(rest)), dict(kind="grp", kids=moved))
    lst[:] = rest
    return t


# ------------------------------------------------------------------ the check
def _dev_sets(fids):
    """the non-empty sets of listed open deviation clauses, smallest first"""
    names = sorted(fids)
    out = []
    for m in range(1, 2 ** len(names)):
        out.append([n for i, n in enumerate(names) if m >> i & 1])
    return sorted(out, key=len)


def _judge(rep, reals, cases, fids, label):
    """cases: [{id, tree, uc}] -> load each, ask TLC, compare."""
    from concurrent.futures import ThreadPoolExecutor
    devs = _dev_sets(fids)
    tcases = []
    for c in cases:
        objs, refs = D.abstract(c["tree"], c.get("uc", False))
        tcases.append(dict(id=c["id"], objs=objs, refs=refs, devs=devs))
    with ThreadPoolExecutor(max_workers=1) as ex:
        fut = ex.submit(tlc.oracle, "FqnOracle", tcases)
        observed = {c["id"]: reals[bool(c.get("uc"))].load(c["tree"]) for c in cases}
        res, st = fut.result()
    rep.add_oracle(label, st)
    for c, tc in zip(cases, tcases):
        obs, exp = observed[c["id"]], res[c["id"]]
        text = D.text(c["tree"])
        case = dict(model=text, user_classes=bool(c.get("uc")),
                    refs=[[r["owner"], r["attr"], ".".join(r["parts"])] for r in tc["refs"]])
        if obs["error"] and obs["outcome"] == [-1]:
            rep.violation(dict(case=case, tree=c["tree"], uc=bool(c.get("uc")), observed=obs),
                          f"loading failed unexpectedly: {obs['error']}")
            continue
        if [x[:3] for x in obs["calls"]] != case["refs"][:len(obs["calls"])]:
            raise tlc.MachineryError(f"driver: references were not resolved in the rendered order: "
                                     f"{obs['calls']} vs {case['refs']}")
        if not exp["c10"]:
            raise tlc.MachineryError(f"Fqn.tla: documented outcome violates C10 on {text!r}")
        nontrivial = len(exp["doc"]) > 0 and exp["doc"][-1] != 0
        # total verdict: documented -> pass; a set of listed deviations -> known finding; else violation
        if obs["outcome"] == exp["doc"]:
            rep.passed(case, nontrivial)
            continue
        hit = next((d for d, v in zip(devs, exp["dev"]) if obs["outcome"] == v), None)
        if hit:
            for d in hit:                     # one case, possibly explained by several clauses together
                rep.known_finding(fids[d], case)
            rep.evaluations -= len(hit) - 1
            rep.traces -= len(hit) - 1
            continue
        rep.violation(dict(case=case, tree=c["tree"], uc=bool(c.get("uc")), observed=obs["outcome"],
                           expected=exp["doc"], with_deviations=dict(zip(map("+".join, devs), exp["dev"]))),
                      f"model {text!r}{' (Pkg user class with __len__)' if c.get('uc') else ''}: references "
                      f"{case['refs']} resolved to {obs['outcome']} (object ids in textual order, 0 = Unknown "
                      f"object); Fqn.tla prescribes {exp['doc']}")


def _cases(rep, rng, quick, witnesses):
    scale = float(os.environ.get("VT_SCALE", "1") or 1)
    if scale != 1:
        rep.note(f"VT_SCALE={scale}: reduced run")
    cases = [dict(tree=w["tree"], uc=w.get("uc", False)) for w in witnesses]
    trees = [t for t in level(3) if size(t) >= 1]
    full_upto = 3 if quick else 5           # these trees: every position x every name, no cross reference
    names3, names2 = dotted(NAMES, 3), dotted(NAMES, 2)
    n_full = n_cross = n_grp = 0
    for t in trees:
        sz = size(t)
        if sz <= full_upto:
            for pos in positions(t):
                for nm in names3:
                    cases.append(dict(tree=with_ref(t, pos, nm)))
                    n_full += 1
        # the same with the children of one container moved into an anonymous group
        if sz <= (2 if quick else 4):
            for cp in containers(t):
                w = wrap(t, cp)
                for pos in positions(w):
                    for nm in names3:
                        cases.append(dict(tree=with_ref(w, pos, nm)))
                        n_grp += 1
    # trees up to 6 (quick) / 8 (thorough) nodes with one or two cross references before the probe,
    # a third of them with anonymous groups around some children
    pool = [t for t in trees if 2 <= size(t) <= (6 if quick else 8)]
    want = int((3500 if quick else 40000) * scale)
    for _ in range(want):
        t = rng.choice(pool)
        if rng.random() < 0.35:
            for _ in range(rng.choice([1, 1, 2])):
                t = wrap(t, rng.choice(containers(t)), pick=(lambda i: rng.random() < 0.6))
        ncross = rng.choice([0, 1, 1, 2])
        for _ in range(ncross):
            own = [p for p in positions(t) if p[0] in ("ext", "uses")]
            if not own:
                break
            t = with_ref(t, rng.choice(own), pick_name(rng, t, names2))
        pos = rng.choice(positions(t))
        cases.append(dict(tree=with_ref(t, pos, pick_name(rng, t, names3), front=rng.random() < 0.2)))
        n_cross += 1
    # (I->S) bigger seeded-random trees, names p q r, several references
    nbig = int((500 if quick else 6000) * scale)
    names = ["p", "q", "r"]
    big3 = dotted(names, 3)
    for _ in range(nbig):
        t = random_tree(rng, names, 14)
        if not t:
            continue
        if rng.random() < 0.4:
            for _ in range(rng.choice([1, 2, 3])):
                t = wrap(t, rng.choice(containers(t)), pick=(lambda i: rng.random() < 0.6))
        for _ in range(rng.randint(1, 5)):
            t = with_ref(t, rng.choice(positions(t)), pick_name(rng, t, big3), front=rng.random() < 0.3)
        cases.append(dict(tree=t))
    # every third case is loaded with the metamodel whose Pkg is a user class with __len__
    # (packages without a class of their own are falsy in Python)
    for i, c in enumerate(cases):
        c["id"] = i
        if "uc" not in c:
            c["uc"] = i % 3 == 0
    rep.bounds.update(trees_depth3=len(trees), exhaustive_tree_nodes=full_upto, exhaustive_cases=n_full,
                      exhaustive_with_group=n_grp, sampled_with_cross_refs=n_cross, random_big=nbig,
                      user_class_variant=sum(1 for c in cases if c["uc"]))
    return cases


def run(rep):
    quick = rep.tier == "quick"
    rng = random.Random(rep.seed)
    rep.rule = ("one case = a model text (nested pkg/cls tree, anonymous grp containers, `ext`/`uses` cross "
                "references, `use`/`open` probes) loaded with {'*.*': FQN()} -- generated classes, or the variant "
                "whose Pkg is a user class with __len__ -- ; observed = target of every reference in textual order "
                "or Unknown object; compared with Expected(case, Dev) of Fqn.tla. Non-trivial: the last reference "
                "resolves under the documented semantics; distinct by model text and variant.")
    rep.assumptions = ["sibling names are unique (the property's premise); object names are strings",
                       "single model, no scope_redirection_logic, no Postponed",
                       "references are resolved in textual order and loading stops at the first Unknown object "
                       "(the driver checks the order against the recorded provider calls)",
                       "the registered provider is a subclass of FQN that only records call and result; one "
                       "provider/metamodel serves all loads of a run (models are dropped between loads)"]
    skip_mc = bool(os.environ.get("VT_SKIP_MC"))      # harness debugging only; recorded in the evidence
    if skip_mc:
        rep.note("VT_SKIP_MC set: (M) skipped")
    for cfg in ([] if skip_mc else ["MC_Fqn.cfg", "MC_Fqn_Grp.cfg"] if quick else ["MC_Fqn_Thorough.cfg"]):
        r = tlc.model_check("MC_Fqn", cfg=cfg, timeout=3000)
        tlc.require_ok(r, cfg)
        rep.add_mc(cfg[:-4], r, ["C10"])
    if not quick and not skip_mc:
        for cfg in ("MC_Fqn_P.cfg", "MC_Fqn_R.cfg", "MC_Fqn_F.cfg"):
            r = tlc.model_check("MC_Fqn", cfg=cfg, timeout=3000)
            if r.violated != "C10":
                raise tlc.MachineryError(f"{cfg}: expected invariant C10 to be violated, got {r.violated} {r.error}")
            rep.extra.setdefault("deviation_breaks", {})[cfg[:-4]] = "C10"
    findings = common.open_findings(PID)
    fids = {f["deviation"]: f["id"] for f in findings}
    reals = {False: D.Real(), True: D.Real(user_classes=True)}
    cases = _cases(rep, rng, quick, [f["witness"] for f in findings])
    _judge(rep, reals, cases, fids, "FqnOracle")
    rep.exhaustive = False
    rep.bounds["cases"] = len(cases)


def replay(path):
    with open(path) as f:
        rec = json.load(f)
    tree, uc = rec["case"]["tree"], bool(rec["case"].get("uc"))
    common.ensure_repo_on_path()
    real = D.Real(user_classes=uc)
    print(D.text(tree) + ("(Pkg is a user class with __len__)" if uc else ""))
    obs = real.load(tree)
    print("observed:", obs)
    objs, refs = D.abstract(tree, uc)
    devs = _dev_sets({f["deviation"]: f["id"] for f in common.open_findings(PID)})
    res, _ = tlc.oracle("FqnOracle", [dict(id=0, objs=objs, refs=refs, devs=devs)])
    print("Fqn.tla: documented", res[0]["doc"], "with listed deviations", dict(zip(map("+".join, devs), res[0]["dev"])))
    return 0 if obs["outcome"] == res[0]["doc"] else 1


META = dict(
    modules=["Fqn", "FqnOracle", "MC_Fqn"],
    level_text=("Fqn.tla states the FQN provider: chains through containment only, start object searched outward "
                "from the referencing object, type test at the end, references resolved in textual order. TLC checks "
                "the property (C10Holds, stated independently of the search as sets of genuine chain ends) as an "
                "invariant over a bounded universe of trees/references/names, and evaluates Expected(case, Dev) for "
                "enumerated and seeded-random models whose real load outcome is compared reference by reference. The "
                "real provider's walks through `parent` and through resolved references are the named deviation "
                "clauses FqnWalksParent / FqnWalksRefs; with them the module predicts the real outcome exactly."),
    level_note=("Anonymous groups and the falsy-package user-class variant are part of the cases. "
                "Trees of depth <= 3 over {p, q}: exhaustive x every position x every name of <= 3 parts only up to "
                "3 (quick) / 5 (thorough) nodes without cross references; larger trees and cross references are "
                "seeded samples. No scope_redirection_logic, no multi-file models."),
    technique="TLC model checking of Fqn.tla (property as invariant) + TLC-evaluated Expected(case, Dev) vs. real loads",
)
