"""C25 -- grammar imports resolve rules in the documented order.

(M)    spec/Imports.tla: the loader as a state machine (depth-first traversal of the
       import statements, linking against the complete files); TLC checks, over every
       import graph of a small universe of files with overlapping rule names, that the
       traversal is well defined on cycles (no file twice on the stack, bounded steps,
       every reachable file loaded exactly once), that every reference is linked exactly
       once to the documented target (own file, else first import in order that defines
       it), that qualified names select the named file and that class names are file based.
(S->I) the same TLC runs print every enumerated case (file set + references) with the
       outcome an observer must see; each is rendered as .tx files and loaded by textX.
(I->S) seeded-random bigger file trees (more files, deeper directories, self imports,
       repeated imports): the skeleton goes to TLC, which completes it with references
       and evaluates the outcome; the real meta-model is compared with it.
"""
from __future__ import annotations

import atexit
import json
import os
import random
import shutil
from concurrent.futures import ProcessPoolExecutor, ThreadPoolExecutor

from .. import common, tlc
from ..drive import imports as drv

PID = "C25"
INVS = ["TypeOK", "StackNoDup", "Terminates", "OneClassSet", "DfsAgrees", "ResolvedAsDocumented",
        "FailsOnlyWhenDangling", "FqnFileBased", "KindIsLocal"]
# deviation clause -> invariant of Imports.tla it must break (rule 6, non-vacuity)
DEV_BREAKS = {"ResolveWhenFileEnds": "ResolvedAsDocumented|FailsOnlyWhenDangling",
              "QualifiedRuleRefRejected": "FailsOnlyWhenDangling",
              "QualifiedNameOneDot": "FailsOnlyWhenDangling",
              "ReloadOnImport": "OneClassSet|StackNoDup|Terminates"}
NPROC = tlc.NCPU     # processes / TLC shards running at once


def _env(univ="m", names="AB", maximp="2", dev="", emit="1", variants="1", cases="", shard=0, nshards=1, flt=""):
    return dict(VT_FILTER=flt, VT_UNIV=univ, VT_NAMES=names, VT_MAXIMP=maximp, VT_DEV=dev, VT_EMIT=emit, VT_VARIANTS=variants,
                VT_CASES=cases, VT_SHARD=str(shard), VT_NSHARDS=str(nshards))


class _Merged:
    """Several TLC shards presented as one run for the evidence."""

    def __init__(self, rs):
        self.distinct = sum(r.distinct for r in rs)
        self.generated = sum(r.generated for r in rs)
        self.depth = max(r.depth for r in rs)
        self.wall_s = max(r.wall_s for r in rs)
        self.cmd = rs[0].cmd + f"   (x{len(rs)} shards)"
        self.coverage = {}


def enumerate_cases(plan, dev="", cfg="MC_Imports_Gen.cfg", variants="1", maximp="2"):
    """plan: [(universe, names, shards[, graph filter])].  All shards of all universes share one pool of NPROC
    TLC processes."""
    plan = [tuple(e) + ("",) * (4 - len(e)) for e in plan]
    jobs = [(u, nm, k, max(1, min(sh, NPROC)), flt) for u, nm, sh, flt in plan for k in range(max(1, min(sh, NPROC)))]

    def one(job):
        u, nm, k, n, flt = job
        return tlc.model_check("MC_Imports", cfg=cfg, workers=1, timeout=3000, heap="2g",
                               env=_env(u, nm, maximp, dev, "1", variants, "", k, n, flt))
    with ThreadPoolExecutor(max_workers=NPROC) as ex:
        rs = list(ex.map(one, jobs))
    out = {}
    for job, r in zip(jobs, rs):
        tlc.require_ok(r, f"MC_Imports {job} dev={dev!r}")
        m, items = out.setdefault((job[0], job[1] + ("/" + job[4] if job[4] else "")), ([], []))
        m.append(r)
        items.extend(r.results("CASE"))
    return {k: (_Merged(m), items) for k, (m, items) in out.items()}


def evaluate_file_cases(skeletons, dev=""):
    """TLC completes the skeletons with references and evaluates the outcome (I->S, and Dev re-evaluation)."""
    if not skeletons:
        return None, []
    work = tlc.scratch("vt-c25o-")
    n = max(1, min(NPROC, (len(skeletons) + 39) // 40))
    chunks = [skeletons[i::n] for i in range(n)]

    def one(i):
        path = os.path.join(work, f"sk{i}.json")
        with open(path, "w") as f:
            json.dump(chunks[i], f)
        return tlc.model_check("MC_Imports", cfg="MC_Imports_File.cfg", workers=1, timeout=3000, heap="2g",
                               env=_env(dev=dev, cases=path))
    try:
        with ThreadPoolExecutor(max_workers=n) as ex:
            rs = list(ex.map(one, range(n)))
    finally:
        shutil.rmtree(work, ignore_errors=True)
    out = []
    for i, r in enumerate(rs):
        tlc.require_ok(r, f"MC_Imports file cases chunk {i} dev={dev!r}")
        out += r.results("CASE")
    return _Merged(rs), out


# ------------------------------------------------------------------ running the real code
_WORKDIR = {}      # pid -> (directory, the case rendered there before)


def _observe_one(case):
    """Render and load one case.  Every process renders all its cases into ONE directory (emptied in between),
    so the same file names recur with different contents: what a load sees must only depend on the files as they
    are now.  Returns (outcome, message, the case that was in the directory before)."""
    pid = os.getpid()
    if pid not in _WORKDIR:
        _WORKDIR.clear()
        d = tlc.scratch("vt-c25-")
        atexit.register(shutil.rmtree, d, True)
        _WORKDIR[pid] = [d, None]
    root, prev = _WORKDIR[pid]
    shutil.rmtree(root, ignore_errors=True)
    os.makedirs(root)
    _WORKDIR[pid][1] = case
    out, msg = drv.observe(case, root)
    return drv.norm(out), msg.replace(root, "<dir>"), prev


_POOL = None


def _pool():
    """One pool of worker processes for the whole run, forked after textX is imported and its grammar
    parser is built (the workers inherit both)."""
    global _POOL
    if _POOL is None:
        import textx  # noqa: F401
        textx.metamodel_from_str("Warm: 'w' x=INT;")
        _POOL = ProcessPoolExecutor(max_workers=NPROC)
    return _POOL


def _close_pool():
    global _POOL
    if _POOL is not None:
        _POOL.shutdown()
        _POOL = None


def _observe_many(cases):
    if len(cases) < 40 or NPROC < 2:
        return [_observe_one(c) for c in cases]
    return list(_pool().map(_observe_one, cases, chunksize=max(1, min(16, len(cases) // (4 * NPROC)))))


def skeleton_of(case, cid):
    """What FileInit of MC_Imports.tla reads: paths, import names split at the dots, rules, variant."""
    return dict(id=cid, names=case["names"], variant=case["variant"],
                files=[dict(path=f["path"], imports=[imp.split(".") for imp in f["imports"]],
                            defs=f["defs"]) for f in case["files"]])


def _nontrivial(case, exp):
    if case["variant"]["kind"] != "base":
        return True
    return any(r[0] != r[2].rsplit(".", 1)[0] and not r[1].startswith("P") for r in exp["res"])


def compare_batch(rep, items):
    """items: list of {case, out} from TLC (Dev = {}).  Observe and compare; returns the mismatching ones."""
    obs = _observe_many([it["case"] for it in items])
    pending = []
    for it, (o, msg, prev) in zip(items, obs):
        exp = drv.norm(it["out"])
        if common.canon(o) == common.canon(exp):
            rep.passed(_brief(it["case"], exp), nontrivial=_nontrivial(it["case"], exp))
        else:
            pending.append((it, o, msg, exp, prev))
    return pending


def explain(rep, pending, devs):
    """A mismatch is a known finding iff the outcome equals Expected(case, {d}) for a listed deviation d."""
    alt = {}
    if pending and devs:
        sk = [skeleton_of(p[0]["case"], f"k{n}") for n, p in enumerate(pending)]
        for fid, d in devs.items():
            m, res = evaluate_file_cases(sk, dev=d)
            rep.add_mc(f"MC_Imports_File[Dev={d}]", m, ["(Expected(case, {%s}))" % d])
            alt[fid] = {x["case"]["id"]: drv.norm(x["out"]) for x in res}
    for n, (it, o, msg, exp, prev) in enumerate(pending):
        hit = next((fid for fid in alt if common.canon(alt[fid].get(f"k{n}")) == common.canon(o)), None)
        if hit:
            rep.known_finding(hit, _brief(it["case"], exp))
            continue
        why = _why(it["case"], o, exp)
        if prev is not None:
            fresh = _observe_fresh(it["case"])
            if common.canon(fresh) == common.canon(exp) or any(common.canon(a.get(f"k{n}")) == common.canon(fresh)
                                                               for a in alt.values()):
                why = ("the load depends on what the process loaded before: in a fresh directory these files load as "
                       "prescribed, but not after another file set had been loaded from the same paths -- " + why)
        rep.violation(dict(case=it["case"], prev=prev, observed=o, expected=exp, message=msg[:300]), why)


def _observe_fresh(case):
    root = tlc.scratch("vt-c25f-")
    try:
        return drv.norm(drv.observe(case, root)[0])
    finally:
        shutil.rmtree(root, ignore_errors=True)


def _brief(case, exp):
    return dict(files={f["ns"]: dict(imports=f["imports"], rules=[" ".join(d).strip() for d in f["defs"]])
                       for f in case["files"]},
                variant=case["variant"]["kind"], status=exp["status"],
                resolved=[r[:3] for r in exp["res"] if not r[1].startswith("P")][:8])


def _why(case, o, exp):
    files = "; ".join(f"{f['ns']}.tx: imports {f['imports']} rules {[' '.join(d).strip() for d in f['defs']]} refs {f['refs']}"
                      + (f" qrefs {f['qrefs']}" if f["qrefs"] else "") for f in case["files"])
    if o["status"] != exp["status"] or o["err"] != exp["err"]:
        return f"load of [{files}] ended {o['status']}/{o['err']} but Imports.tla prescribes {exp['status']}/{exp['err']}"
    for k in ("loaded", "classes", "res", "qres", "main"):
        if o[k] != exp[k]:
            a = [x for x in o[k] if x not in exp[k]]
            b = [x for x in exp[k] if x not in o[k]]
            return f"[{files}]: {k} observed {a} but Imports.tla prescribes {b}"
    return "outcomes differ"


# ------------------------------------------------------------------ random skeletons (I->S)
DIRS = [[], ["d"], ["d", "e"], ["s"]]
FNAMES = ["f", "g", "h", "k"]


def random_skeletons(rng, count, names):
    out = []
    for c in range(count):
        nfiles = rng.randint(3, 6)
        paths = [[rng.choice(["m", "m", "first", "syntax", "text"])]]
        while len(paths) < nfiles:
            p = list(rng.choice(DIRS)) + [rng.choice(FNAMES)]
            if p not in paths:
                paths.append(p)
        files = []
        for p in paths:
            d = p[:-1]
            # import statements can only name files in the directory of the file or below it
            cand = [q[len(d):] for q in paths if q[:len(d)] == d and len(q) > len(d)]
            k = rng.choice([0, 1, 1, 2, 2, 3])
            imps = [list(rng.choice(cand)) for _ in range(k)] if cand else []
            defs = []
            for n in names:
                if rng.random() < 0.5:
                    continue
                if n == "A" and rng.random() < 0.3:
                    defs.append([n, "alias", rng.choice(["B", "ID"])])
                elif n in ("B", "ID") and (n == "ID" or rng.random() < 0.4):
                    defs.append([n, "match", ""])
                else:
                    defs.append([n, "common", ""])
            files.append(dict(path=p, imports=imps, defs=defs))
        # make every file reachable more often: the main grammar imports a few of the others
        if rng.random() < 0.7:
            extra = [q for q in paths[1:] if rng.random() < 0.5]
            files[0]["imports"] = (files[0]["imports"] + extra)[:4]
        out.append(dict(id=f"r{c}", names=list(names), files=files,
                        variant=dict(kind="any", file=0, name="-", form="-", target=0)))
    return out


# ------------------------------------------------------------------ entry points
def run(rep):
    quick = rep.tier == "quick"
    rng = random.Random(rep.seed)
    rep.rule = ("S->I: every import graph TLC enumerates over the listed universes (ordered import lists of <= 2 "
                "distinct files per grammar, every file reachable, each of the overlapping names defined in any subset "
                "of the files, references to every name that has a documented target, plus variants: one extra reference to "
                "a name no import defines, one extra qualified reference in a documented form, no qualified references "
                "at all on cyclic graphs) rendered as .tx files and loaded; I->S: "
                "seeded-random trees of 3-6 files in 4 directories with self/repeated imports, completed and judged by TLC. "
                "Non-trivial: a variant, or a case where some reference resolves into another file; distinct by content.")
    rep.rule += (" Universes with a graph filter `reorder` keep the acyclic graphs on which some file imports P before Q "
                 "while Q was loaded earlier through another file (import order differs from load order). Every worker "
                 "process renders all its cases into one directory, so the same paths recur with other contents: a load "
                 "must depend on the present files only (a mismatch that disappears in a fresh directory is reported as such).")
    rep.assumptions = [
        "imported files are those named by the import statements of the file itself (not transitively imported ones)",
        "import statements only name existing files (a missing file is outside the documented behaviour)",
        "qualified references are generated in grammars of the main directory only, where the name relative to the "
        "file and the name relative to the main grammar coincide",
        "one-extra-qualified-reference variants are generated on acyclic import graphs only, so that a case is "
        "explained by at most one deviation clause",
        "the error raised for an unresolvable reference is judged by its class and kind only, not by its location",
    ]
    findings = common.open_findings(PID)
    devs = {f["id"]: f["deviation"] for f in findings}
    plan = [("mf", "ABC", 2), ("mf", "K", 2), ("mf", "I", 2), ("first", "K", 2), ("syntax", "A", 3),
            ("mfg", "AB", 4), ("mgh", "A", 3), ("mfe", "A", 4), ("mkhh", "A", 4), ("mfeg", "A", 4, "reorder")] if quick else \
           [("m", "ABC", 1), ("mf", "ABC", 2), ("mf", "K", 2), ("mf", "I", 2), ("first", "ABC", 2), ("first", "K", 2),
            ("syntax", "AB", 4), ("mfg", "AB", 6), ("mfg", "K", 12), ("mfg", "I", 8), ("mgh", "AB", 6), ("mfe", "AB", 8),
            ("mfgh", "A", 8), ("mfeg", "A", 12), ("mfgk", "A", 8), ("mkhh", "AB", 12), ("mkhg", "A", 6),
            ("mfeg", "AB", 8, "reorder")]
    if os.environ.get("VT_C25_PLAN"):      # development aid: "mf:AB:2,mfg:A:3"
        plan = [(x.split(":") + [""])[:4] for x in os.environ["VT_C25_PLAN"].split(",")]
        plan = [(a, b, int(c), f) for a, b, c, f in plan]
    pending = []
    try:
        _run_conformance(rep, plan, quick, rng, pending, devs)
    finally:
        _close_pool()


def _run_conformance(rep, plan, quick, rng, pending, devs):
    for (univ, names), (m, items) in enumerate_cases(plan).items():
        rep.add_mc(f"MC_Imports_Gen[{univ},{names}]", m, INVS)
        n = len(items)
        if quick and n > 1000:
            items = [it for it in items if it["case"]["variant"]["kind"] == "base" or rng.random() < 0.3]
            if len(items) > 1000:
                items = rng.sample(items, 1000)
        pending += compare_batch(rep, items)
        rep.bounds[f"universe_{univ}_{names}"] = dict(enumerated=n, replayed=len(items))
    rep.exhaustive = not quick
    nr = int(os.environ.get("VT_C25_RANDOM", 60 if quick else 600))
    sk = random_skeletons(rng, nr, ["A", "B", "C", "ID"])
    m, items = evaluate_file_cases(sk)
    rep.add_mc("MC_Imports_File[random]", m, ["TypeOK", "StackNoDup", "Terminates"])
    if any(it["out"]["err"] == "nofile" for it in items):
        raise tlc.MachineryError("the random generator produced an import of a file the module does not find")
    if quick and len(items) > 900:
        items = rng.sample(items, 900)
    pending += compare_batch(rep, items)
    rep.bounds["random"] = dict(skeletons=nr, cases=len(items))
    explain(rep, pending, devs)


def selftest():
    """Non-vacuity: with a deviation clause switched on TLC must report one of the invariants violated."""
    bad = 0
    for dev, invs in DEV_BREAKS.items():
        univ, names = ("mfg", "A") if dev == "QualifiedNameOneDot" else ("mf", "AB")
        r = tlc.model_check("MC_Imports", cfg="MC_Imports_Gen.cfg", workers=1,
                            env=_env(univ, names, "2", dev, "0", "1", "", 0, 1))
        ok = r.violated in invs.split("|")
        print(f"Dev={{{dev}}} on universe {univ}/{names}: TLC reports {r.violated or r.error or 'no violation'}"
              f" -> {'ok' if ok else 'UNEXPECTED'}")
        bad += not ok
    r = tlc.model_check("MC_Imports", cfg="MC_Imports_Resolved.cfg", workers=1,
                        env=_env("mfg", "A", "2", "ResolveWhenFileEnds", "0", "1", "", 0, 1))
    print(f"Dev={{ResolveWhenFileEnds}} with only ResolvedAsDocumented/OneClassSet checked: {r.violated}")
    bad += r.violated != "ResolvedAsDocumented"
    return 1 if bad else 0


def replay(path):
    with open(path) as f:
        rec = json.load(f)
    case = rec["case"]["case"]
    if rec["case"].get("prev"):      # the file set that was loaded from the same paths before
        _observe_one(rec["case"]["prev"])
    o, msg, _ = _observe_one(case)
    for f in case["files"]:
        print(f"--- {'/'.join(f['path'])}.tx\n{drv.render_file(f)}", end="")
    _, res = evaluate_file_cases([skeleton_of(case, "replay")])
    exp = drv.norm(res[0]["out"])
    print("observed:", common.canon(o))
    print("expected:", common.canon(exp))
    if msg:
        print("message :", msg)
    return 0 if common.canon(o) == common.canon(exp) else 1


META = dict(
    modules=["Imports", "MC_Imports"],
    level_text=("Imports.tla states the loading of a set of grammar files as a state machine (depth-first traversal of "
                "the import statements, references linked against the complete files: own file first, then the imports "
                "in order; qualified names; one class set per file; file-based class names). TLC checks these clauses as "
                "invariants over every import graph of small file universes, including cycles and diamonds, prints every "
                "case with the outcome an observer must see, and evaluates seeded-random larger file trees; each case is "
                "rendered as .tx files, loaded with metamodel_from_file, and the classes, links, parsed-object types and "
                "metamodel[name] answers are compared with TLC's."),
    level_note=("Exhaustive only within the universes (<= 4 files in <= 3 directories, import lists of <= 2 files, "
                "names A/B/C); larger trees are seeded-random. Imported = directly imported. Error locations are not judged."),
    technique="TLC model checking of Imports.tla + exhaustive replay of the enumerated file sets + TLC-evaluated random file trees",
)
