"""C02 -- assignments never lose, duplicate or reorder matched values."""
from __future__ import annotations

import random

from ..drive import peg as D
from ..gen import peg as G
from . import c01
from . import pegcommon as P

PID = "C02"
OPTS = dict(max_rules=2, depth=3, comment=0.0, modifiers=0.05, unord=0.12, preds=0.03, sup=0.03, eol=0.03,
            sep=0.3, base=["INT", "ID", "STRING", "BOOL"], lits=["a", "b", "0", "k"], regroup=0.0, ws_mod=0.0)


class AsgGen(G.GrammarGen):
    """Grammars that assign the same attributes again and again."""

    def expr(self, d, names_below, assign, attrs):
        if assign and self.rng.random() < 0.35:
            op = self.pick(["=", "=", "=", "+=", "*=", "?="])
            a = self.pick(["x", "x", "y"])
            if op in ("+=", "*="):
                return G.Asg(a, op, self.rhs(names_below), self.sep(), False)
            return G.Asg(a, op, self.rhs(names_below))
        return super().expr(d, names_below, assign, attrs)


def cases_for(rng, n, per):
    gg = AsgGen(rng, OPTS)
    cases = []
    falsy = {"INT": ["0", "1", "0", "7"], "ID": ["a", "b"], "STRING": ['""', "'x'", '""'], "BOOL": ["0", "1", "false", "true"]}
    for _ in range(n):
        g = gg.grammar()
        cfg = D.default_cfg(autoinit=rng.random() < 0.6)
        if rng.random() < 0.3:
            # the same values are prescribed when the objects are instances of user classes, also of classes that
            # have class-level attributes named like the grammar attributes
            cfg["userclasses"] = rng.choice([True, "classattrs", "classattrs"])
        sg = G.SentenceGen(rng, g)
        sg.tok_base = lambda name, _f=falsy, _r=rng: _r.choice(_f[name])
        for k in range(per):
            toks = sg.sentence()
            s = G.join(rng, toks, False, glue=0.0)
            if k >= per - 2:
                s = G.mutate(rng, s, toks)
            cases.append(dict(id=len(cases), g=g, cfg=cfg, s=G.codes(s)))
    return cases


def run(rep):
    rng = random.Random(rep.seed)
    quick = rep.tier == "quick"
    P.replay_witnesses(rep, PID)
    rep.rule = ("S->I: every grammar of the MC_Peg 'asg' universe (assignment operators = += *= ?= on two attributes "
                "combined by sequence, choice, optional, repetition, unordered group) x every input of <= 4 symbols; "
                "I->S: seeded-random grammars assigning the same attribute repeatedly, inputs with falsy values. "
                "Compared: list-vs-scalar, values and their order, absence of 'Multiple assignments'. "
                "Non-trivial: accepted inputs; distinct by (grammar, input).")
    rep.assumptions = ["Peg!WellFormed fragment; an attribute assigned with ?= is not assigned otherwise"]
    P.judge_universe(rep, PID, "asg", 1 if quick else 2)
    P.judge_universe(rep, PID, "asg2", 1)
    rep.exhaustive = True
    n, per = (120, 8) if quick else (1500, 10)
    info, stats = P.judge_cases(rep, PID, cases_for(rng, n, per), label="random-assignments")
    rep.bounds["random"] = stats


def replay(path):
    return P.replay_case(path, PID)


META = dict(
    modules=["Peg", "PegOracle", "MC_Peg"],
    level_text=("MC_Peg checks on the whole 'asg' universe that in Peg.tla no value assigned to an attribute is lost, "
                "duplicated or reordered and that IsList is sound (NoValueLost); every case of that universe and "
                "seeded-random multi-assignment grammars are replayed against textX and the models compared."),
    level_note="Fragment Peg!WellFormed; bounded sizes; renderer/projector trusted.",
    technique="TLC model checking of the multiplicity/assignment clauses of Peg.tla + exhaustive replay + TLC oracle on random grammars",
)
