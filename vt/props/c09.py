"""C09 -- postponed resolution reaches the right fixpoint and terminates.

(M)    spec/LoaderResolve.tla model-checked over every dependency structure of a small universe
       (deps in [Refs -> SUBSET Refs], never-resolving references, 1-2 files), references and models
       visited in *any* order: C09_Verdict (success <=> the least fixpoint of deps covers every reference,
       otherwise the error names exactly the complement; the resolved set is the fixpoint whatever the order),
       RoundBound, C09_Terminates (<>Idle under weak fairness, no constraint);
(S->I) every dependency structure over <= 4 references spread over 1-2 files (cycles and never-resolving
       references included) is rendered, loaded with real textX under a provider that answers "resolved iff
       all of deps[r] are resolved, else Postponed", and success / failure / the names in the
       "Unresolvable cross references" message compared with the module;
(I->S) the provider calls logged in those loads (and in bigger seeded-random ones) are validated by TLC:
       rounds visit the models in order and the pending references in textual order, a postponed reference is
       retried in the next round, and the loop stops exactly where the module stops.
"""
from __future__ import annotations

import random

from .. import common, tlc
from ..drive import resolve as R

PID = "C09"
INVS = ["TypeOK", "C09_Verdict", "C09_Sound", "RoundBound", "OncePerRound", "ErrorNamesUnresolved",
        "AttrsComplete", "C08_Partial", "C08_ListOrder", "C09_Terminates"]
# clauses of the module that model breakage no textX version is known to have; switched on once to show
# that the invariants of C09 are not vacuous
VACUITY = {"StopAfterTwoRounds": ("C09_Verdict",), "ErrorNamesAllReferences": ("C09_Verdict", "ErrorNamesUnresolved")}


def _nontrivial(sc):
    return any(sc["deps"]) or bool(sc["never"])


def run(rep):
    quick = rep.tier == "quick"
    rng = random.Random(rep.seed)
    rep.rule = ("S->I: every dependency structure [reference -> set of other references] x never-resolving subset "
                "x file layouts enumerated by TLC (<= 3 references: all; 4 references: all 4096 structures, quick "
                "without / thorough with never-resolving subsets), plus the mixed family (schedules x dependencies x "
                "never x unknown over <= 3 references), the object-structure family (one object with two reference lists "
                "[and a single reference]; a parent and its first child starting at the same position, both with a list "
                "of the same name) over <= 3 (thorough 4) references, lists naming a target twice, and the api family (the "
                "provider asks textX whether its dependencies are resolved: every structure over <= 3 references, "
                "4 references in one layout), loaded with real "
                "textX, one metamodel per worker process reused for all loads (earlier models dropped); I->S: the provider calls of those "
                "loads (quick: of every second enumerated scenario) plus seeded-random scenarios (<= 3 files, <= 9 references) validated by TLC. Non-trivial: at "
                "least one dependency or never-resolving reference; distinct by scenario content.")
    rep.assumptions = [
        "attribute contents are compared exactly (as sequences): 'the result does not depend on which order is "
        "taken' includes the content of every list attribute",
        "references are told apart by their position in the text; several references may name the same target, the "
        "error message is compared as the multiset of target names it mentions",
        "the provider is the inner provider of textx.scoping.providers.ImportURI registered under '*.*', so the "
        "references of all files are resolved by the main model's loop",
        "every rendered file holds at least one definition",
        "mode 'api': the provider decides whether deps[r] are resolved by asking textX "
        "(textx.scoping.tools.resolve_model_path on the attribute holding the reference, which answers Postponed while "
        "the attribute waits); the module states what textX reports: an attribute waits while one of its references "
        "is in the parser's pending list, which changes when a resolution step of that model ends",
        "every scenario is loaded with the provider registered under '*.*' and with the provider attached to the "
        "reference attributes (as lang.py does for a grammar RREL) and nothing registered",
    ]
    devs = {f["id"]: f["deviation"] for f in common.open_findings(PID)}
    # (M)
    fam = "c09mc" if quick else "c09small"
    r = tlc.require_ok(R.check_model(fam, "any", ""), f"MC_LoaderResolve {fam}")
    rep.add_mc(f"MC_LoaderResolve[{fam}, any order, FairSpec]", r, INVS)
    if not quick:
        for f2, order in (("c09four", "any"), ("mixed", "textual")):
            r = tlc.require_ok(R.check_model(f2, order, "", cfg="MC_LoaderResolve_Safety.cfg"), f"MC_LoaderResolve {f2}")
            rep.add_mc(f"MC_LoaderResolve[{f2}, {order}, safety]", r, INVS[:-1])
    for d, clauses in (list(VACUITY.items())[:1] if quick else VACUITY.items()):
        r = R.check_model("c09mc", "textual", d, cfg="MC_LoaderResolve_Safety.cfg")
        if r.violated not in clauses:
            raise tlc.MachineryError(f"clause {d} does not violate {clauses} in the module: {r.violated} {r.error}")
        rep.add_mc(f"MC_LoaderResolve[c09mc, Dev={{{d}}}] violates {r.violated}", r, [r.violated])
    for fid, d in devs.items():
        r = R.check_model("c09mc", "textual", d, cfg="MC_LoaderResolve_Safety.cfg")
        if r.violated is None:
            raise tlc.MachineryError(f"deviation {d} does not violate C09 in the module")
    # conformance
    # c09quick = c09small + c09four + mixed + c09grp + c09dup; c09thorough adds c09never, c09grpfour (MC_LoaderResolve.tla)
    families = ["c09quick"] if quick else ["c09thorough"]
    stats = R.conformance(rep, families, "seq", devs, _nontrivial, 300 if quick else 4000, rng,
                          dict(max_files=3, max_refs=9, max_sched=2, p_dep=0.3, p_never=0.1, p_unknown=0.03),
                          trace_every=2 if quick else 1)
    rep.exhaustive = True
    rep.bounds.update(stats)


def replay(path):
    return R.replay_case(path)


META = dict(
    modules=["LoaderResolve", "MC_LoaderResolve", "TraceLoaderResolve"],
    level_text=("LoaderResolve.tla states the resolution loop of textx/model.py as a state machine whose environment is "
                "the scope provider (dependencies between references, never-resolving references); TLC checks the "
                "verdict against the least fixpoint of the dependency structure, the round bound and termination for "
                "every structure and every visiting order of a small universe, every enumerated structure is loaded "
                "with real textX and outcome and named references compared with the module, and the provider calls "
                "recorded from real loads are validated by TLC as behaviours of the module."),
    level_note=("Bounded universe (<= 4 references in 1-2 files for the exhaustive part, seeded-random <= 9 references "
                "in <= 3 files beyond); order-independence is a theorem of the module (Order = any), the real loader "
                "takes one order, which the trace validation pins down."),
    technique="TLC model checking of LoaderResolve.tla + exhaustive scenario replay + TLC trace validation",
)
