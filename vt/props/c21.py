"""C21 -- autokwd matches keyword-like literals only on word boundaries."""
from __future__ import annotations

import random

from .. import common
from ..drive import peg as D
from ..gen import peg as G
from . import pegcommon as P

PID = "C21"
OPTS = dict(max_rules=3, depth=3, comment=0.05, modifiers=0.1, unord=0.1, preds=0.08, sup=0.08, eol=0.05, sep=0.4,
            base=["ID", "INT", "STRING"], lits=["a", "a1", "_a", "1a", "+", "a+", "if", "a_", "x", ";", "é", "a\n", "if\n", "a b"],
            regroup=0.0, ws_mod=0.0, esc=0.3)


def cases_for(rng, n, per):
    gg = G.GrammarGen(rng, OPTS)
    cases, pairs = [], []
    for _ in range(n):
        g = gg.grammar()
        ic = rng.random() < 0.2
        rg = rng.random() < 0.25              # use_regexp_group: keywords matched as regexes have no group
        sg = G.SentenceGen(rng, g)
        for _k in range(per):
            toks = sg.sentence()
            s = G.join(rng, toks, False, glue=0.45)      # keywords glued to what follows
            ids = []
            for kw in (True, False):
                cases.append(dict(id=len(cases), g=g, cfg=D.default_cfg(autokwd=kw, icase=ic, regroup=rg), s=G.codes(s)))
                ids.append(cases[-1]["id"])
            pairs.append(ids)
    return cases, pairs


def run(rep):
    rng = random.Random(rep.seed)
    quick = rep.tier == "quick"
    P.replay_witnesses(rep, PID)
    rep.rule = ("S->I: the MC_Peg 'kwd' universe (identifier-like and symbol literals, ID and regex next to them, "
                "literal separators) with autokwd=True x all inputs of <= 4 symbols over {a, b, 1, +, space}; I->S: "
                "seeded-random grammars mixing keyword-like and other literals, inputs with tokens glued together, "
                "each parsed with autokwd on and off. Verdict: textX equals Peg!Outcome for both settings (TLC checks "
                "the three clauses of C21 on the universe: AutoKwd). Non-trivial: accepted inputs.")
    rep.assumptions = ["Peg!WellFormed fragment", "word characters: ASCII letters, digits, '_' and e-acute"]
    P.judge_universe(rep, PID, "kwd", 1)
    rep.exhaustive = True
    n, per = (100, 6) if quick else (1200, 8)
    cases, pairs = cases_for(rng, n, per)
    info, stats = P.judge_cases(rep, PID, cases, label="random-autokwd")
    rep.bounds["random"] = stats


def replay(path):
    return P.replay_case(path, PID)


META = dict(
    modules=["Peg", "PegOracle", "MC_Peg"],
    level_text=("Peg!MatchStr requires a word boundary after identifier-like literals under autokwd; TLC checks the three "
                "clauses of C21 on the 'kwd' universe (AutoKwd); the universe and random grammars with glued tokens are "
                "replayed against textX with autokwd on and off."),
    level_note="Fragment Peg!WellFormed; ASCII plus one non-ASCII letter; renderer/projector trusted.",
    technique="TLC model checking of the autokwd theorems + oracle replay",
)
