"""C11 -- RREL reference resolution follows the documented expression semantics.

(M)    spec/MC_Rrel.tla: TLC enumerates a bounded universe of (expression, model, name,
       referencing object) cases and checks design theorems of spec/Rrel.tla as invariants.
(S->I) RREL ASTs enumerated up to a node bound over the attributes {packages, classes,
       extends, type} and all operators, with/without `+p:`; models with nested
       packages/classes, `extends` lists and `type` references; every name of <= 3 parts;
       every object as referencing object.  TLC (RrelOracle.tla) says per alternative which
       objects are accepted, which alternative decides and hence which objects the reference
       may resolve to; the real code is called three ways (rrel.find, RREL in the grammar,
       RREL string registered as scope provider) and compared.
(I->S) seeded-random bigger expressions (<= 6 nodes) and models (<= 12 objects); for `+p:`
       the observed proxy path is handed to TLC which decides whether it is the path of a
       witnessing derivation of the deciding alternative.
"""
from __future__ import annotations

import json
import os
import random
import time

from .. import common, tlc
from ..drive import rrel as D

PID = "C11"
ATTRS = D.ATTRS
TYPES = ["Model", "Package", "Class"]
DEVS = {"StarMarksStart": "sms", "ProxyLastNamed": "pln"}


# ------------------------------------------------------------------ expressions
def atoms(fixed):
    out = []
    for a in ATTRS:
        out.append(dict(k="nav", attr=a, mode="consume", fixed="-"))
        out.append(dict(k="nav", attr=a, mode="all", fixed="-"))
        for f in fixed:
            out.append(dict(k="nav", attr=a, mode="fixed", fixed=f))
    for t in TYPES:
        out.append(dict(k="parent", type=t))
    return out


PREFIX = [dict(k="up")] + [dict(k="dots", n=n) for n in (1, 2, 3)]


class Exprs:
    """All RREL ASTs with exactly n nodes (nav/dots/^/parent/brackets/star count 1 each)."""

    def __init__(self, fixed=("a", "b")):
        self.A = atoms(fixed)
        self._e, self._ns, self._els, self._p, self._s = {}, {}, {}, {}, {}

    def elem(self, n):                      # one path element (not a prefix)
        if n not in self._e:
            self._e[n] = self.A if n == 1 else (
                [dict(k="star", e=x) for x in self.nostar(n - 1)] + self.nostar(n))
        return self._e[n]

    def nostar(self, n):
        if n not in self._ns:
            self._ns[n] = self.A if n == 1 else [dict(k="br", paths=s) for s in self.seq(n - 1)]
        return self._ns[n]

    def els(self, n):                       # sequences of elements of total size n
        if n not in self._els:
            self._els[n] = [[]] if n == 0 else [
                [e] + r for k in range(1, n + 1) for e in self.elem(k) for r in self.els(n - k)]
        return self._els[n]

    def path(self, n):
        if n not in self._p:
            self._p[n] = [dict(els=x) for x in self.els(n)] + [
                dict(els=[p] + x) for p in PREFIX for x in self.els(n - 1)]
        return self._p[n]

    def seq(self, n):                       # comma separated alternatives, total size n
        if n not in self._s:
            self._s[n] = [[p] for p in self.path(n)] + [
                [p] + r for k in range(1, n) for p in self.path(k) for r in self.seq(n - k)]
        return self._s[n]

    def exprs(self, n):
        return [dict(paths=s) for s in self.seq(n)]


def random_expr(rng, size, fixed):
    """A seeded-random AST with about `size` nodes."""
    A = atoms(fixed)

    def elem(n, allow_star=True):
        if n <= 1:
            return rng.choice(A)
        r = rng.random()
        if allow_star and r < 0.5:
            return dict(k="star", e=elem(n - 1, False))
        return dict(k="br", paths=seq(n - 1))

    def path(n):
        els = []
        if rng.random() < 0.35:
            els.append(rng.choice(PREFIX))
            n -= 1
        while n > 0:
            k = rng.choice([1, 1, 1, 2, 2, 3, 4])
            k = min(k, n)
            els.append(elem(k))
            n -= k
        if not els:
            els.append(rng.choice(A))
        return dict(els=els)

    def seq(n):
        parts = []
        while n > 0:
            k = n if rng.random() < 0.6 else rng.randint(1, n)
            parts.append(path(k))
            n -= k
        return parts
    return dict(paths=seq(size))


def guided_walk(rng, objs, start, want=None):
    """A path that follows a random walk through the model from `start` (or from the root);
    with `want` the walk must consume exactly these names.  -> (elements, names, last object)"""
    els = []
    if rng.random() < 0.45:                        # absolute: a leading navigation starts at the root
        cur = 1
    else:                                          # relative
        up = []
        x = start
        while objs[x - 1]["parent"]:
            x = objs[x - 1]["parent"]
            up.append(x)
        k = rng.randint(0, len(up))
        cur = start if k == 0 else up[k - 1]
        q = rng.random()
        if q < 0.4:
            els.append(dict(k="dots", n=k + 1))
        elif q < 0.75 or k == 0:
            els.append(dict(k="up"))
        else:
            els.append(dict(k="parent", type=objs[cur - 1]["cls"]))
    names = []
    steps = rng.randint(1, 4) if want is None else len(want) + rng.randint(0, 2)
    for _ in range(steps):
        cands = [(a, x) for a in ATTRS for x in objs[cur - 1]["attrs"][a]["els"]]
        if want is not None and len(names) < len(want):
            hit = [(a, x) for a, x in cands if objs[x - 1]["name"] == want[len(names)]]
            if hit and rng.random() < 0.7:
                a, x = rng.choice(hit)
                els.append(dict(k="nav", attr=a, mode="consume", fixed="-"))
                names.append(objs[x - 1]["name"])
                cur = x
                continue
        if not cands:
            break
        a, x = rng.choice(cands)
        m = rng.random()
        if want is None and m < 0.55 and len(names) < 3:
            els.append(dict(k="nav", attr=a, mode="consume", fixed="-"))
            names.append(objs[x - 1]["name"])
        elif m < 0.85:
            els.append(dict(k="nav", attr=a, mode="all", fixed="-"))
        else:
            els.append(dict(k="nav", attr=a, mode="fixed", fixed=objs[x - 1]["name"]))
        cur = x
    if want is not None:
        return (els, names, cur) if names == want else None
    if not names:
        names = [rng.choice(model_alphabet(objs) or ["a"])]
        cands = [a for a in ATTRS if objs[cur - 1]["attrs"][a]["has"]]
        els.append(dict(k="nav", attr=rng.choice(cands or ATTRS), mode="consume", fixed="-"))
    return els, names, cur


def guided_case(rng, objs, max_nodes=6):
    """A (expression, name, target class) triple that follows a random walk through the model
    and is then perturbed (stars, brackets, extra alternatives -- often a second walk that
    consumes the same name and ends elsewhere, so that precedence matters), so that a fair
    share of the cases resolves.  Pure generation heuristics; the expected outcome comes from TLC."""
    n = len(objs)
    start = rng.randint(1, n)
    els, names, cur = guided_walk(rng, objs, start)
    cls = objs[cur - 1]["cls"] if rng.random() < 0.8 else rng.choice(["Class", "Package"])
    if cls == "Model":
        cls = "Class"
    second = None
    if rng.random() < 0.4:
        for _ in range(25):
            w = guided_walk(rng, objs, start, want=names)
            if w and w[2] != cur and objs[w[2] - 1]["cls"] == objs[cur - 1]["cls"]:
                second = w[0]
                break
    # perturbations
    out = []
    i = 0
    pre = []
    if els and els[0]["k"] in ("dots", "up"):
        pre, els = [els[0]], els[1:]
    while i < len(els):
        e = els[i]
        if (i + 1 < len(els) and e["k"] == "nav" and els[i + 1] == e and rng.random() < 0.7):
            out.append(dict(k="star", e=e))        # a.a -> a*
            i += 2
            continue
        q = rng.random()
        if q < 0.18 and e["k"] != "star":
            out.append(dict(k="star", e=e))
            out.append(e) if rng.random() < 0.3 else None
        elif q < 0.30 and i + 1 < len(els):
            body = dict(k="br", paths=[dict(els=[e, els[i + 1]])])
            if rng.random() < 0.5:
                body["paths"].insert(rng.randint(0, 1), dict(els=[rng.choice(atoms(model_alphabet(objs)[:2] or ["a"]))]))
            out.append(dict(k="star", e=body) if rng.random() < 0.6 else body)
            i += 1
        elif q < 0.38:
            out.append(dict(k="br", paths=[dict(els=[rng.choice(atoms(["a"]))]), dict(els=[e])]))
        else:
            out.append(e)
        i += 1
    if rng.random() < 0.12:
        out.insert(rng.randint(0, len(out)), dict(k="star", e=rng.choice(atoms(["a", "b"]))))
    paths = [dict(els=pre + out)] if (pre or out) else [dict(els=[dict(k="up")])]
    if not paths[0]["els"] or (paths[0]["els"][0]["k"] in ("dots", "up") and False):
        paths = [dict(els=[dict(k="up")])]
    if second:
        paths.insert(rng.randint(0, 1), dict(els=second))
        return dict(paths=paths), names, cls
    q = rng.random()
    if q < 0.25:
        paths.insert(0, random_expr(rng, rng.randint(1, 3), model_alphabet(objs)[:2] or ["a"])["paths"][0])
    elif q < 0.4:
        paths.append(random_expr(rng, rng.randint(1, 3), model_alphabet(objs)[:2] or ["a"])["paths"][0])
    expr = dict(paths=paths)
    return expr, names, cls


def mixed_groups():
    """The family `(A,B)*.tail` / `(B,A)*.tail`: a starred comma group in first position whose
    alternatives start differently -- A at the model root (a navigation), B at the referencing
    object (dots, parent(T)) -- followed by one name-consuming navigation."""
    sr = [dict(k="nav", attr=a, mode="all", fixed="-") for a in ATTRS] + \
         [dict(k="nav", attr=a, mode="consume", fixed="-") for a in ("packages", "classes")]
    sl = [dict(k="dots", n=2), dict(k="dots", n=3), dict(k="parent", type="Package"), dict(k="parent", type="Class")]
    out = []
    for a in sr:
        for b in sl:
            for order in (0, 1):
                for t in ATTRS:
                    alts = [dict(els=[a]), dict(els=[b])]
                    if order:
                        alts.reverse()
                    out.append(dict(paths=[dict(els=[dict(k="star", e=dict(k="br", paths=alts)),
                                                     dict(k="nav", attr=t, mode="consume", fixed="-")])]))
    return out


def own_collection_names(rng, objs, attr):
    """a name (and class) found in some object's own collection `attr`: for expressions whose
    zero-fold expansion looks into the referencing object itself"""
    own = [(i, x) for i, o in enumerate(objs, 1) for x in o["attrs"][attr]["els"]]
    if not own:
        return None
    i, x = rng.choice(own)
    return [objs[x - 1]["name"]], objs[x - 1]["cls"]


def size(expr):
    def el(e):
        if e["k"] == "star":
            return 1 + el(e["e"])
        if e["k"] == "br":
            return 1 + sum(el(x) for p in e["paths"] for x in p["els"])
        return 1
    return sum(el(x) for p in expr["paths"] for x in p["els"])


# ------------------------------------------------------------------ models
class MB:
    def __init__(self):
        self.objs = [D.new_obj("Model", None, 0)]

    def _add(self, cls, parent, name):
        self.objs.append(D.new_obj(cls, name, parent))
        i = len(self.objs)
        self.objs[parent - 1]["attrs"]["packages" if cls == "Package" else "classes"]["els"].append(i)
        return i

    def pkg(self, parent, name):
        return self._add("Package", parent, name)

    def cls(self, parent, name):
        return self._add("Class", parent, name)

    def ext(self, c, *ts):
        self.objs[c - 1]["attrs"]["extends"]["els"].extend(ts)

    def typ(self, c, t):
        self.objs[c - 1]["attrs"]["type"]["els"] = [t]

    def done(self):
        D.check_model(self.objs)
        return self.objs


def curated_models():
    out = {}
    b = MB()      # nesting, the same names at every level
    p1 = b.pkg(1, "a"); p2 = b.pkg(p1, "a"); c1 = b.cls(p2, "a"); c2 = b.cls(p2, "b")
    c3 = b.cls(p1, "b"); c4 = b.cls(1, "b"); b.ext(c3, c2); b.typ(c1, c4)
    out["nest"] = b.done()
    b = MB()      # inheritance cycle, nested classes
    c1 = b.cls(1, "a"); c2 = b.cls(1, "b"); c3 = b.cls(c1, "b"); c4 = b.cls(c2, "a"); c5 = b.cls(c3, "a")
    b.ext(c1, c2); b.ext(c2, c1, c3); b.ext(c3, c3); b.typ(c4, c1); b.typ(c5, c4)
    out["cycle"] = b.done()
    b = MB()      # same-named classes in different packages, extends across packages, diamond
    p1 = b.pkg(1, "a"); p2 = b.pkg(1, "b"); c1 = b.cls(p1, "a"); c2 = b.cls(p2, "a"); c3 = b.cls(p2, "b")
    c4 = b.cls(c3, "a")
    b.ext(c3, c1, c2); b.ext(c1, c2); b.ext(c4, c3); b.typ(c2, c3); b.typ(c3, c4)
    out["cross"] = b.done()
    b = MB()      # type chain through structs (docs example shape), names a b c
    c1 = b.cls(1, "a"); c2 = b.cls(1, "b"); c3 = b.cls(1, "c"); c4 = b.cls(c1, "c"); c5 = b.cls(c2, "a")
    c6 = b.cls(c3, "b")
    b.typ(c4, c3); b.typ(c5, c1); b.typ(c6, c2); b.typ(c1, c1); b.ext(c6, c5, c4)
    out["types"] = b.done()
    b = MB()      # deep package chain with classes on the way
    p1 = b.pkg(1, "a"); p2 = b.pkg(p1, "b"); p3 = b.pkg(p2, "a"); c1 = b.cls(p3, "b"); c2 = b.cls(p2, "a")
    c3 = b.cls(p1, "b"); p4 = b.pkg(1, "b")
    b.ext(c1, c2, c3); b.typ(c2, c1)
    out["deep"] = b.done()
    return out


def random_model(rng, nobj, names, sibling_dups=False):
    b = MB()
    for _ in range(nobj):
        kind = rng.choice(["Package", "Class", "Class"])
        if kind == "Package":
            cands = [i for i, o in enumerate(b.objs, 1) if o["cls"] in ("Model", "Package")]
        else:
            cands = [i for i, o in enumerate(b.objs, 1)]
        par = rng.choice(cands)
        attr = "packages" if kind == "Package" else "classes"
        used = {b.objs[x - 1]["name"] for x in b.objs[par - 1]["attrs"][attr]["els"]}
        free = [n for n in names if n not in used] if not sibling_dups else list(names)
        if not free:
            continue
        (b.pkg if kind == "Package" else b.cls)(par, rng.choice(free))
    classes = [i for i, o in enumerate(b.objs, 1) if o["cls"] == "Class"]
    for c in classes:
        if rng.random() < 0.55:
            b.ext(c, *[rng.choice(classes) for _ in range(rng.choice([1, 1, 2, 3]))])
        if rng.random() < 0.45:
            b.typ(c, rng.choice(classes))
    return b.done()


def all_names(alphabet, maxlen=3):
    out = [[]]
    res = []
    for _ in range(maxlen):
        out = [x + [n] for x in out for n in alphabet]
        res.extend(out)
    return res


def model_alphabet(objs):
    return sorted({o["name"] for o in objs if o["named"]})


# ------------------------------------------------------------------ oracle plumbing
def tlc_reach(rep, cases, label):
    """cases: [{id, objs, expr, names, cls, starts}] -> {id: {start: answer}}"""
    for c in cases:
        c["q"] = "reach"
    res, st = tlc.oracle("RrelOracle", cases)
    rep.add_oracle(label, st)
    return {cid: {p["start"]: p for p in r["per"]} for cid, r in res.items()}


def tlc_paths(rep, queries, label):
    for q in queries:
        q["q"] = "path"
    if not queries:
        return {}
    res, st = tlc.oracle("RrelOracle", queries)
    rep.add_oracle(label, st)
    return res


class Judge:
    """Compares observations with the answers of the module; path checks are deferred to a
    second TLC pass (the observed path is part of the question)."""

    def __init__(self, rep, findings):
        self.rep = rep
        self.fid = {f["deviation"]: f["id"] for f in findings}
        self.pending = []      # (case, obs, query)
        self.notes = {}

    def _case(self, ctx, start, way, flags, delim):
        return dict(expr=D.expr_text(ctx["expr"], flags), model=ctx["model"], start=start,
                    name=delim.join(ctx["names"]), delim=delim, cls=ctx["cls"], way=way)

    def observe(self, ctx, start, way, flags, obs, ans, delim="."):
        case = self._case(ctx, start, way, flags, delim)
        nontrivial = bool(ans["allowed"])
        full = dict(case=case, objs=ctx["objs"], ast=ctx["expr"], names=ctx["names"], flags=flags,
                    observed=obs, allowed=ans["allowed"], alt=ans["alt"], acc=ans["acc"])
        if obs["res"] < 0:
            self.rep.violation(full, f"{case}: the resolver failed with {obs.get('err')}")
            return
        if obs["proxy"]:
            q = dict(objs=ctx["objs"], expr=ctx["expr"], names=ctx["names"], cls=ctx["cls"], start=start,
                     obs=obs["path"], alt=ans["alt"], altd=ans["altd"])
            self.pending.append((case, full, q, nontrivial))
            return
        self._set_verdict(case, full, obs["res"], ans, nontrivial)

    def _set_verdict(self, case, full, res, ans, nontrivial):
        def ok(allowed):
            return (res == 0 and not allowed) or res in allowed
        if ok(ans["allowed"]):
            self.rep.passed(case, nontrivial)
        elif "StarMarksStart" in self.fid and ok(ans["allowedd"]):
            self.rep.known_finding(self.fid["StarMarksStart"], case)
        else:
            self.rep.violation(full, self._why(case, res, ans))

    @staticmethod
    def _why(case, res, ans):
        if res == 0:
            return (f"{case}: not resolved although alternative {ans['alt']} accepts {ans['allowed']} "
                    f"(completeness)")
        if not ans["allowed"]:
            return f"{case}: resolved to object {res} although no alternative accepts any object (soundness)"
        j = next((i + 1 for i, a in enumerate(ans["acc"]) if res in a), 0)
        if j:
            return (f"{case}: resolved to object {res} of alternative {j} although alternative {ans['alt']} "
                    f"accepts {ans['allowed']} (precedence)")
        return f"{case}: resolved to object {res}, not accepted by any alternative; allowed {ans['allowed']} (soundness)"

    def flush(self, label):
        if not self.pending:
            return
        uniq = {}
        for _, _, q, _ in self.pending:            # the three ways mostly observe the same path
            key = common.canon(q)
            q["id"] = uniq.setdefault(key, len(uniq))
        res = tlc_paths(self.rep, list({q["id"]: q for _, _, q, _ in self.pending}.values()), label)
        for case, full, q, nontrivial in self.pending:
            r = res[q["id"]]
            full = dict(full, path_verdicts={k: r[k] for k in ("doc", "sms", "pln", "both")})
            if r["doc"]:
                self.rep.passed(case, nontrivial)
                continue
            need = None
            for key, devs in (("sms", ["StarMarksStart"]), ("pln", ["ProxyLastNamed"]),
                              ("both", ["StarMarksStart", "ProxyLastNamed"])):
                if r[key] and all(d in self.fid for d in devs):
                    need = devs
                    break
            if need:
                for d in need:                 # one case, possibly explained by two clauses together
                    self.rep.known_finding(self.fid[d], case)
                self.rep.evaluations -= len(need) - 1
                self.rep.traces -= len(need) - 1
            else:
                self.rep.violation(full, f"{case}: the proxy path {q['obs']} (objects by id) is not the path of a "
                                         f"derivation of the deciding alternative ending in its target")
        self.pending = []


# ------------------------------------------------------------------ running a batch
def run_batch(rep, real, judge, ctxs, ways_for, label):
    """ctxs: [{model, objs, expr, names, cls, flags(list)}]; one TLC case per ctx with every object
    as referencing object.  TLC evaluates the module while the real code is being run."""
    from concurrent.futures import ThreadPoolExecutor
    cases = []
    for n, c in enumerate(ctxs):
        c["id"] = n
        cases.append(dict(id=n, objs=c["objs"], expr=c["expr"], names=c["names"],
                          cls=c["cls"], starts=list(range(1, len(c["objs"]) + 1))))
    t0, c0 = time.time(), time.process_time()
    with ThreadPoolExecutor(max_workers=1) as ex:
        fut = ex.submit(tlc_reach, rep, cases, label)
        observed = []
        for c in ctxs:
            for flags in c["flags"]:
                ok, text = real.parse_check(c["expr"], flags)
                if not ok:
                    raise tlc.MachineryError(f"renderer self-check failed for {text!r}")
            # one expression text at a time, every referencing object in turn: a registered provider
            # object serves all these loads, the name being written with '.' (match rule QName) and
            # with '/' (match rule SName[split='/']) alternately
            for flags in c["flags"]:
                for start in range(1, len(c["objs"]) + 1):
                    delim = "/" if (c["id"] + start) % 2 else "."
                    for way in ways_for(c, start, flags):
                        if way == "find":
                            obs = real.find(c["model"], c["objs"], start, c["names"], c["cls"], c["expr"], flags,
                                            delim)
                        else:
                            obs = real.load(way, c["objs"], start, c["names"], c["cls"], c["expr"], flags, delim)
                        observed.append((c, start, way, flags, obs, delim))
        t1 = time.time()
        answers = fut.result()
    t2 = time.time()
    for c, start, way, flags, obs, delim in observed:
        judge.observe(c, start, way, flags, obs, answers[c["id"]][start], delim)
    judge.flush(label + "/paths")
    rep.extra["phase_wall_s"] = dict(real_code=round(t1 - t0, 1), real_code_cpu=round(time.process_time() - c0, 1),
                                     waiting_for_oracle=round(t2 - t1, 1), judging_and_paths=round(time.time() - t2, 1))
    return len(observed)


# ------------------------------------------------------------------ the check
WITNESS_MODELS = {}


def _witness_ctxs(findings):
    out = []
    for f in findings:
        w = f["witness"]
        out.append(dict(model="witness:" + f["id"], objs=w["objs"], expr=w["ast"], names=w["names"],
                        cls=w["cls"], flags=[w["flags"]], witness=True))
    return out


def _mc(rep, quick):
    if os.environ.get("VT_SKIP_MC"):          # harness debugging only; recorded in the evidence
        rep.note("VT_SKIP_MC set: (M) skipped")
        return
    invs = ["Terminates", "FixpointWithinBound", "Monotone", "UpIsDotsStar", "ExpansionsIncluded",
            "DevOnlyRemoves", "ProxyEndsInTarget", "ZeroRepetition"]
    cfgs = ["MC_Rrel.cfg"] if quick else ["MC_Rrel_Wide.cfg", "MC_Rrel_Thorough.cfg"]
    for cfg in cfgs:
        r = tlc.model_check("MC_Rrel", cfg=cfg, timeout=3000)
        tlc.require_ok(r, cfg)
        rep.add_mc(cfg[:-4], r, invs)
    if not quick:
        # the module is not vacuous: each deviation clause breaks the theorem it contradicts
        for cfg, inv in (("MC_Rrel_SMS.cfg", "ExpansionsIncluded"), ("MC_Rrel_PLN.cfg", "ProxyEndsInTarget")):
            r = tlc.model_check("MC_Rrel", cfg=cfg, timeout=3000)
            if r.violated != inv:
                raise tlc.MachineryError(f"{cfg}: expected invariant {inv} to be violated, got "
                                         f"violated={r.violated} error={r.error}")
            rep.extra.setdefault("deviation_breaks", {})[cfg[:-4]] = inv


def _contexts(rep, rng, quick):
    # VT_SCALE < 1 shrinks the run (harness debugging only; recorded in the evidence)
    scale = float(os.environ.get("VT_SCALE", "1") or 1)
    if scale != 1:
        rep.note(f"VT_SCALE={scale}: reduced run")
    models = curated_models()
    nrand = 6 if quick else 40
    for i in range(nrand):
        models["rand%d" % i] = random_model(rng, rng.randint(3, 7), ["a", "b"], sibling_dups=False)
    if not quick:
        for i in range(10):
            models["dup%d" % i] = random_model(rng, rng.randint(4, 7), ["a", "b"], sibling_dups=True)
    big = {}
    for i in range(10 if quick else 80):
        big["big%d" % i] = random_model(rng, rng.randint(8, 12), ["a", "b", "c"], sibling_dups=not quick and i % 4 == 0)
    keys = sorted(models)
    E = Exprs()
    ctxs = []
    # (S->I) every AST up to the node bound, in seeded-random contexts of the small universe
    bound = 2 if quick else 3
    per = 1 if quick else 1
    n_enum = 0
    for n in range(1, bound + 1):
        for e in E.exprs(n):
            if scale < 1 and rng.random() > scale:
                continue
            n_enum += 1
            for _ in range(per):
                mk = rng.choice(keys)
                objs = models[mk]
                alpha = model_alphabet(objs)
                if rng.random() < 0.5:
                    names = rng.choice(all_names(alpha))
                else:
                    _, names, _ = guided_case(rng, objs)
                cls = rng.choice(["Class", "Class", "Package", "OBJECT"])
                flags = ["", "p"] if n < 3 else [["", "p"][n_enum % 2]]
                ctxs.append(dict(model=mk, objs=objs, expr=e, names=names, cls=cls, flags=flags, src="enum"))
    rep.bounds["enumerated_asts"] = dict(max_nodes=bound, count=n_enum)
    # the small universe exhaustively for a few expressions: every name of <= 3 parts
    shapes = [E.exprs(2)[i] for i in sorted(rng.sample(range(len(E.exprs(2))), 6 if quick else 60))]
    for e in shapes:
        mk = rng.choice(sorted(curated_models()))
        objs = models[mk]
        for names in all_names(model_alphabet(objs)[:2]):
            ctxs.append(dict(model=mk, objs=objs, expr=e, names=names, cls="Class", flags=[""], src="allnames"))
    # the family of starred groups with mixed start kinds in first position, each in a context
    # where some object owns a matching element in the collection navigated after the group
    fam = mixed_groups()
    n_fam = 0
    for e in fam:
        if scale < 1 and rng.random() > scale:
            continue
        tail = e["paths"][0]["els"][1]["attr"]
        for _ in range(1 if quick else 3):
            mk = rng.choice(keys)
            objs = models[mk]
            nc = own_collection_names(rng, objs, tail)
            if nc is None:
                continue
            ex = e
            if rng.random() < 0.3:            # followed by a second alternative that also looks further up
                ex = dict(paths=e["paths"] + [dict(els=[dict(k="up"), e["paths"][0]["els"][1]])])
            ctxs.append(dict(model=mk, objs=objs, expr=ex, names=nc[0], cls=nc[1], flags=["", "p"], src="mixed"))
            n_fam += 1
    rep.bounds["mixed_start_groups"] = dict(family=len(fam), contexts=n_fam)
    # (I->S) walk-guided random expressions of up to ~8 nodes, small and big models
    nguided = int((900 if quick else 12000) * scale)
    allm = dict(models)
    allm.update(big)
    akeys = sorted(allm)
    for _ in range(nguided):
        mk = rng.choice(akeys)
        objs = allm[mk]
        e, names, cls = guided_case(rng, objs)
        if rng.random() < 0.1:
            cls = "OBJECT"
        ctxs.append(dict(model=mk, objs=objs, expr=e, names=names, cls=cls, flags=["", "p"], src="guided"))
    nrandom = int((150 if quick else 3000) * scale)
    for _ in range(nrandom):
        mk = rng.choice(akeys)
        objs = allm[mk]
        e = random_expr(rng, rng.randint(2, 6), model_alphabet(objs)[:2])
        names = rng.choice(all_names(model_alphabet(objs)[:2]))
        ctxs.append(dict(model=mk, objs=objs, expr=e, names=names, cls=rng.choice(["Class", "Package"]),
                         flags=["", "p"], src="random"))
    rep.bounds.update(models=len(allm), max_objects=max(len(o) for o in allm.values()) - 1,
                      contexts=len(ctxs), guided=nguided, random=nrandom)
    return ctxs


def run(rep):
    quick = rep.tier == "quick"
    rng = random.Random(rep.seed)
    rep.rule = ("one case = (RREL expression, +p: or not, model, referencing object, dotted name, target class, "
                "name delimiter '.' or '/' (match rule with split='/'), "
                "way of calling the real code: rrel.find / RREL in the grammar / RREL string as scope provider, one "
                "provider object registered under '*.*' serving all referencing objects and both delimiters of an "
                "expression in turn). "
                "S->I: every RREL AST up to the node bound in seeded contexts, every object of the model as "
                "referencing object; I->S: walk-guided and uniformly random expressions up to ~8 nodes on "
                "models of up to 12 objects. Non-trivial: the module lets the reference resolve (Allowed # {}); "
                "distinct by content.")
    rep.assumptions = [
        "single model, all other references of the model resolved before the RREL is evaluated (no Postponed, no +m:)",
        "object names are strings; every name part is non-empty; the name is written with '.' (match rule QName) "
        "or '/' (match rule SName[split='/']) -- the module sees the name parts, the delimiter is a rendering choice",
        "a name-matching step takes the first element of the collection with that name (Appendix G); "
        "sibling names are unique in the quick tier",
        "the exact object among several accepted ones and the depth-first order are not judged",
        "the `+p:` path is judged as: list of the objects selected by name (consumed or fixed), followed by the "
        "target when that is not already its last entry"]
    findings = common.open_findings(PID)
    _mc(rep, quick)
    real = D.Real()
    judge = Judge(rep, findings)
    ctxs = _witness_ctxs(findings) + _contexts(rep, rng, quick)
    every = 4 if quick else 12

    def ways_for(c, start, flags):
        if c.get("witness"):
            return ["find", "grammar", "provider"]
        if c["cls"] != "OBJECT" and c["id"] % every == 0:
            return ["find", "provider", "grammar"] if c["id"] % (3 * every) == 0 else ["find", "provider"]
        return ["find"]
    n = run_batch(rep, real, judge, ctxs, ways_for, "RrelOracle")
    rep.exhaustive = False
    rep.bounds["evaluations"] = n


def replay(path):
    with open(path) as f:
        rec = json.load(f)
    full = rec["case"]
    case = full["case"]
    common.ensure_repo_on_path()
    real = D.Real()
    objs, expr, names, flags = full["objs"], full["ast"], full["names"], full["flags"]
    print("model:\n" + D.model_text(objs))
    print("expression:", D.expr_text(expr, flags), " name:", ".".join(names), " target class:", case["cls"],
          " referencing object:", case["start"], " way:", case["way"])
    delim = case.get("delim", ".")
    if case["way"] == "find":
        obs = real.find("replay", objs, case["start"], names, case["cls"], expr, flags, delim)
    else:
        obs = real.load(case["way"], objs, case["start"], names, case["cls"], expr, flags, delim)
    print("observed:", obs)
    res, _ = tlc.oracle("RrelOracle", [dict(id=0, q="reach", objs=objs, expr=expr, names=names, cls=case["cls"],
                                            starts=[case["start"]])])
    ans = res[0]["per"][0]
    print("Rrel.tla: accepted per alternative", ans["acc"], "deciding", ans["alt"], "may resolve to", ans["allowed"])
    if obs["res"] < 0:
        return 1
    if obs["proxy"]:
        pr, _ = tlc.oracle("RrelOracle", [dict(id=0, q="path", objs=objs, expr=expr, names=names, cls=case["cls"],
                                               start=case["start"], obs=obs["path"], alt=ans["alt"],
                                               altd=ans["altd"])])
        print("path verdicts:", {k: pr[0][k] for k in ("doc", "sms", "pln", "both")})
        return 0 if pr[0]["doc"] else 1
    ok = (obs["res"] == 0 and not ans["allowed"]) or obs["res"] in ans["allowed"]
    return 0 if ok else 1


META = dict(
    modules=["Rrel", "RrelOracle", "MC_Rrel"],
    level_text=("Rrel.tla gives every RREL node a one-step relation over configurations (object, remaining name, "
                "path) of an object graph, `*` as a least fixpoint, Reach per comma alternative and the result rule "
                "(any accepted object of the first alternative that accepts one). TLC checks design theorems of the "
                "module over a bounded universe (termination on cyclic graphs, fixpoint bound, monotonicity, "
                "^ = (..)*, every finite expansion included, the deviation clause only removes), and evaluates the "
                "module as oracle for enumerated and seeded-random (expression, model, name) cases whose outcome in "
                "the real code -- called as rrel.find, as RREL in the grammar and as registered scope provider -- "
                "is compared for soundness, completeness, precedence and the `+p:` path."),
    level_note=("Exhaustive only over ASTs of <= 2 (quick) / <= 3 (thorough) nodes and the 192 leading starred groups "
                "with mixed start kinds, each in seeded contexts; larger "
                "expressions and models are seeded-random. Single model, no +m:, no Postponed. Which of several "
                "accepted objects is returned is not judged."),
    technique="TLC model checking of Rrel.tla theorems + TLC-evaluated oracle (Reach/Allowed/PathWitness) vs. real code",
)
