"""C32 -- scope provider selection follows the documented precedence.

(M)    spec/LoaderProvider.tla: Provider(registeredKeys, cls, attr, hasGrammarRrel) with the precedence theorem
       (grammar RREL first; else the first registered of Rule.attr, *.attr, Rule.*, *.*; else default; keys of other
       rules/attributes never matter; a lower-ranked key never changes the choice) checked by TLC over all 2^9 key
       subsets x 2 rules x 2 attributes x grammar RREL yes/no; Registered(string) = GrammarRrel(expression);
(S->I) TLC enumerates the 128 configurations (focus slot x 2^4 subsets of its keys x grammar RREL yes/no; thorough:
       all 2^9 key subsets x all 2^4 sets of slots with a grammar RREL) with the provider the module selects for each
       of the four reference slots; the harness registers a recording provider per key, loads a model with real
       textX and compares which provider actually resolved each reference;
(I->S) for every RREL string the module says what register_scope_providers makes of it (the same provider as the
       expression in the grammar); on a sample of (expression, place, name) triples the model is loaded once with
       the expression in the grammar and once with the string registered under a key, and the outcomes must agree.
"""
from __future__ import annotations

import json
import random
import shutil

from .. import common, tlc
from ..drive import provsel as P

PID = "C32"


def _cases(mode, dev=""):
    r = tlc.model_check("MC_LoaderProvider", env={"VT_C32": mode, "VT_DEV": dev}, workers=1, timeout=3000)
    tlc.require_ok(r, f"MC_LoaderProvider {mode}")
    return r, r.results("CASE"), r.results("STRING")


def _string_triples(strings, quick, rng):
    out = []
    for s in sorted(strings, key=lambda x: x["expr"]):
        for place in P.PLACES:
            for i, name in enumerate(P.NAMES):
                for lst in (False, True):
                    if quick and lst and (i + place) % 3:
                        continue
                    out.append(dict(kind="string", expr=s["expr"], place=place, name=name, list=lst,
                                    key=P.KEYS[(i + place) % 4], registered=s["registered"], grammar=s["grammar"]))
    return out


def _judge_string(rep, c, work):
    g, r = P.string_case(c["expr"], c["place"], c["name"], c["list"], c["key"], work)
    if c["registered"] == c["grammar"]:
        expected = g                      # the module: same provider, hence the same outcome
    else:                                 # a deviation clause left the string in the table
        expected = {"ok": False, "error": "TypeError"}
        r = {"ok": r["ok"], "error": r.get("error")} if not r["ok"] else r
    common.judge(rep, {k: c[k] for k in ("kind", "expr", "place", "name", "list", "key")}, r, expected,
                 nontrivial=True,
                 why=f"RREL string {c['expr']!r} registered under {c['key']} gives {r} for reference {c['name']!r} "
                     f"(place {c['place']}, list={c['list']}), the same expression in the grammar gives {g}")


def run(rep):
    quick = rep.tier == "quick"
    rng = random.Random(rep.seed)
    rep.rule = ("S->I: every configuration TLC enumerates (focus slot x how its attribute is assigned [once without / "
                "with RREL, twice plain-then-RREL / RREL-then-plain] x subset of its four keys x which of these "
                "providers are falsy callables x an earlier registration of all other keys or none = 2592, i.e. the 128 "
                "configurations of the property in every variant; thorough: 2^9 key subsets x 2^4 RREL slot sets = "
                "8192); each configuration is a sequence of three registrations on one metamodel (earlier keys, the "
                "keys under test, nothing), four reference slots observed after each; "
                "RREL strings: 12 expressions (3 with +m:, a main model importing a second file) x 3 places x 17 names "
                "(local, nested, imported, unknown) x single/list, each on a fresh metamodel as the first load after "
                "registration. Non-trivial: >= 2 registered keys or "
                "a grammar RREL; distinct by configuration content.")
    rep.assumptions = [
        "each key is bound to a provider that returns a definition named after the key and records the call; the "
        "grammar expression (pkgs.defs) and the default provider are recognised by their distinct targets for the "
        "reference text p.x",
        "RREL semantics itself is C11's subject: here only 'registered string behaves like the grammar expression' "
        "(same targets, or the same error class, message and position)",
    ]
    devs = {f["id"]: f["deviation"] for f in common.open_findings(PID)}
    mode = "focused" if quick else "full"
    r, cases, strings = _cases(mode)
    rep.add_mc("MC_LoaderProvider", r, ["ASSUME Precedence(Rules, Attrs)", "ASSUME Registered(string) = GrammarRrel(expr)",
                                        "(configuration and expected provider emission)"])
    if len(cases) != (2592 if quick else 8192):
        raise tlc.MachineryError(f"expected 2592/8192 configurations, TLC emitted {len(cases)}")

    def ckey(c):
        return common.canon([c["focus"], c["occ"], sorted(c["keys"]), sorted(c["falsy"]), sorted(c["prev"])])

    dcases = {}
    for fid, d in devs.items():
        _, dc, ds = _cases(mode, d)
        dcases[fid] = {ckey(c): c for c in dc}
    for c in sorted(cases, key=ckey):
        keys, falsy, prev = sorted(c["keys"]), sorted(c["falsy"]), sorted(c["prev"])
        obs = P.run_config(c["occ"], prev, keys, falsy)
        k = ckey(c)
        common.judge(rep, dict(kind="config", focus=c["focus"], occ=c["occ"], keys=keys, falsy=falsy, prev=prev),
                     obs, c["expected"], {fid: t[k]["expected"] for fid, t in dcases.items()},
                     nontrivial=len(keys) >= 2 or any(any(o) for o in c["occ"].values()),
                     why=f"assignments {c['occ']}, registrations {prev} then {keys} (falsy callables: {falsy}) then "
                         f"none: references were resolved by {obs}, LoaderProvider selects {c['expected']}")
    work = tlc.scratch("vt-c32-")
    try:
        for c in _string_triples(strings, quick, rng):
            _judge_string(rep, c, work)
    finally:
        shutil.rmtree(work, ignore_errors=True)
    rep.exhaustive = True
    rep.bounds["configurations"] = len(cases)
    rep.bounds["slots_observed"] = 4 * len(cases)
    rep.bounds["string_expressions"] = len(strings)


def replay(path):
    with open(path) as f:
        rec = json.load(f)
    c = rec["case"]
    case, expected = c.get("case", c), c.get("expected")
    if case["kind"] == "config":
        obs = P.run_config(case["occ"], case["prev"], case["keys"], case["falsy"])
        print("assignments", case["occ"], "registrations", case["prev"], "then", case["keys"], "falsy", case["falsy"])
        print("observed:", obs)
        print("expected:", expected)
        return 0 if common.canon(obs) == common.canon(expected) else 1
    work = tlc.scratch("vt-c32-")
    try:
        g, r = P.string_case(case["expr"], case["place"], case["name"], case["list"], case["key"], work)
    finally:
        shutil.rmtree(work, ignore_errors=True)
    print("expression", case["expr"], "registered under", case["key"], "reference", case["name"])
    print("in the grammar:", g)
    print("registered    :", r)
    return 0 if g == r else 1


META = dict(
    modules=["LoaderProvider", "MC_LoaderProvider"],
    level_text=("LoaderProvider.tla states the provider selection of ReferenceResolver.resolve_one_step as the function "
                "Provider(keys, cls, attr, grammarRrel) and what register_scope_providers stores; TLC proves the "
                "precedence theorem over every key subset of a two-rule, two-attribute universe, enumerates every "
                "configuration with the selected provider per reference slot, and each configuration is set up in real "
                "textX with recording providers and compared; RREL strings are compared differentially with the same "
                "expression in the grammar as the module prescribes."),
    level_note=("The module is a decision table: TLC contributes the exhaustive enumeration and the theorem, not "
                "interleavings. Two rules, single and list attributes; RREL equivalence on a fixed sample."),
    technique="TLC-evaluated decision table (LoaderProvider.tla) + exhaustive configuration replay",
)
