"""C27 -- model parameters are validated and reach every loaded model.

(M)    spec/LoaderRepo.tla over the family FamC27 (EnumLoaderRepo.tla): declared x given parameter names
       x string / string-with-file-name / file loads x import graphs x six import mechanisms x global
       repository on/off, parameter values std / None / falsy, closures over two languages whose
       metamodels declare different parameters, parameters declared between two loads, forms of the
       project_root value; invariants C27_Reject (rejected iff an undeclared name is given, and then nothing
       has happened) and C27_Params (every model created by the load exposes exactly the given parameters);
(S->I) every scenario executed on the real loader: TextXError iff undeclared, dict(_tx_model_params) of
       every model of the closure, opens and repositories untouched on rejection;
(I->S) seeded-random sessions recorded and validated by TLC (TraceLoaderRepo.tla).
"""
from ..drive import multifile as mf

PID = "C27"


def _nontrivial(sc, hist):
    return any(op["op"] == "load" and op["given"] for op in sc["session"]) and (
        len(sc["files"]) >= 2 or any(not h["res"]["ok"] for h in hist))

def run(rep):
    mf.run_property(rep, PID, _nontrivial,
                    "S->I: every scenario of the TLC-enumerated family FamC27: declared {}, {p}, {p,q} (+ built-in "
                    "project_root) x given subsets of {p, q, project_root, zzz} x load kinds x graphs x providers; compared: "
                    "result (error kind), parameters of every included model, opens, repositories. I->S: seeded-random "
                    "sessions. Non-trivial: parameters are given and the closure has >= 2 files or the load is rejected; "
                    "distinct by content.")


def replay(path):
    from .. import common
    return mf.replay_case(path, common.open_findings(PID))


META = dict(
    modules=["LoaderRepo", "MC_LoaderRepo", "EnumLoaderRepo", "TraceLoaderRepo"],
    level_text=("LoaderRepo.tla states the parameter check as the first step of a load and the parameters as an attribute "
                "of every model the load creates; TLC checks reject-iff-undeclared, nothing-happens-on-reject and exact "
                "parameters on every created model over the bounded family; every scenario is replayed against the real "
                "loader (string and file loads, every import mechanism) and seeded-random sessions are validated by TLC."),
    level_note=("Bounded: parameter names {p, q, project_root, zzz}, <= 3 files; models returned from the global "
                "repository keep the parameters of the load that created them (the property speaks of created models). "
                "Values 1/'v'/0, None, 0/''/False; two-language closures a -> b -> c with parameters declared by the "
                "outer language only."),
    technique="TLC model checking of LoaderRepo.tla + scenario replay against TLC-printed behaviours + TLC trace validation",
)
