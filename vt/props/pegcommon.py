"""Shared engine of the Peg.tla family (C01 C02 C03 C06 C19 C20 C21 C22).

A case is (grammar record, cfg, input text).  TLC evaluates Peg!Outcome for the
documented semantics (D = {}) and for the deviation clauses of the *listed open*
findings of the property being checked; the real textX outcome is compared with both.
"""
from __future__ import annotations

import json
import os

from .. import common, tlc
from ..drive import peg as D
from ..gen import peg as G

# deviation clauses that exist in Peg.tla (only those listed open for the property are ever tried)
PEG_DEVS = ["MultResetAtChoice", "SepKeptAfterFailedElement", "ModifierOnlyOnSeqOrChoice",
            "AbstractTakesFirstNonTerminal", "RegroupOnlyDirect", "CommentCacheIgnoresCtx",
            "AbstractAllMatchTakesFirstNonTerminal",
            "MemoKeyIgnoresCtx"]


def open_devs(pid):
    """[(finding id, deviation)] for this property, restricted to clauses Peg.tla has."""
    return [(f["id"], f["deviation"]) for f in common.open_findings(pid) if f["deviation"] in PEG_DEVS]


class MMCache:
    def __init__(self):
        self.c = {}

    def get(self, g, cfg):
        key = (G.render_grammar(g), common.canon(cfg))
        if key not in self.c:
            try:
                self.c[key] = D.Built(g, cfg, key[0])
            except Exception as e:  # grammar refused by textX: outside what the generator should produce
                self.c[key] = e
        return self.c[key]


def real_outcome(built, inp):
    try:
        return built.run(inp)
    except Exception as e:  # any other exception type is an observable outcome
        return {"accept": "exception", "far": 0, "model": {"t": "exc", "v": type(e).__name__ + ": " + str(e)[:120]}}


def nontrivial(out):
    return bool(out.get("accept") is True and out["model"].get("t") in ("obj", "str", "int", "list"))


def describe(case):
    return dict(grammar=G.render_grammar(case["g"]), cfg=case["cfg"], input=G.text(case["s"]))


def evaluate(pid, cases, extra_devsets=()):
    """oracle pass: returns {id: result}, stats, the list of deviation sets used."""
    od = open_devs(pid)
    devsets = [[]]
    if od:
        devsets.append(sorted({d for _, d in od}))
    devsets += [list(x) for x in extra_devsets]
    for c in cases:
        c["devs"] = devsets
    res, st = tlc.oracle("PegOracle", cases)
    return res, st, devsets


def attribute(pid, cases_known, reals):
    """Which single listed deviation explains each case explained by the union?"""
    od = open_devs(pid)
    if not cases_known:
        return {}
    singles = [[d] for _, d in od]
    for c in cases_known:
        c["devs"] = singles
    res, _ = tlc.oracle("PegOracle", cases_known)
    out = {}
    for c in cases_known:
        r = reals[c["id"]]
        fid = None
        for j, (f, _d) in enumerate(od):
            if common.canon(D.strip_far(res[c["id"]]["out"][j])) == common.canon(D.strip_far(r)):
                fid = f
                break
        out[c["id"]] = fid or od[0][0] + "+"
    return out


def judge_cases(rep, pid, cases, compare=D.strip_far, label="", mmcache=None, keep_far=False):
    """Run the real code and the oracle on `cases`, give the verdicts. Returns per-case info."""
    mmcache = mmcache or MMCache()
    res, st, devsets = evaluate(pid, cases)
    rep.add_oracle("PegOracle" + (f"[{label}]" if label else ""), st)
    reals, info = {}, {}
    known = []
    stats = dict(cases=len(cases), not_wf=0, refused=0, accepted=0, rejected=0)
    for c in cases:
        r = res[c["id"]]
        if not r["wf"]:
            stats["not_wf"] += 1
            continue
        b = mmcache.get(c["g"], c["cfg"])
        if isinstance(b, Exception):
            # a well-formed grammar of the fragment must compile
            rep.violation(dict(describe(c), raw=c, error=f"{type(b).__name__}: {b}"),
                          f"textX refuses a grammar of the fragment: {type(b).__name__}: {str(b)[:200]}")
            stats["refused"] += 1
            continue
        real = real_outcome(b, G.text(c["s"]))
        reals[c["id"]] = real
        exp = r["out"][0]
        stats["accepted" if exp["accept"] else "rejected"] += 1
        info[c["id"]] = dict(real=real, exp=exp)
        if common.canon(compare(real)) == common.canon(compare(exp)):
            rep.passed(describe(c) | {"outcome": compare(exp)} if nontrivial(exp) else None,
                       nontrivial=nontrivial(exp)) if nontrivial(exp) else rep.passed(None)
            if nontrivial(exp):
                rep.nontrivial.add(common.digest([c["g"], c["cfg"], c["s"]]))
            continue
        if len(devsets) > 1 and common.canon(compare(real)) == common.canon(compare(r["out"][1])):
            known.append(c)
            info[c["id"]]["verdict"] = "known"
            continue
        if len(rep.violations) < 2 and os.environ.get("VT_NO_SHRINK") != "1":
            sm = shrink(pid, c, compare)      # the replay file holds a small case
            c = dict(c, g=sm["g"], s=sm["s"])
            b2 = D.Built(c["g"], c["cfg"])
            real = real_outcome(b2, G.text(c["s"]))
            exp = tlc.oracle("PegOracle", [dict(id=0, g=c["g"], cfg=c["cfg"], s=c["s"], devs=[[]])])[0][0]["out"][0]
        rep.violation(dict(describe(c), raw=dict(g=c["g"], cfg=c["cfg"], s=c["s"]), observed=compare(real),
                           expected=compare(exp)),
                      f"{label or pid}: grammar {G.render_grammar(c['g']).strip()!r} input {G.text(c['s'])!r}: "
                      f"textX gives {common.canon(compare(real))[:260]} but Peg.tla prescribes "
                      f"{common.canon(compare(exp))[:260]}")
    if known:
        att = attribute(pid, [dict(id=c["id"], g=c["g"], cfg=c["cfg"], s=c["s"]) for c in known], reals)
        for c in known:
            rep.known_finding(att[c["id"]].rstrip("+"), describe(c))
    return info, stats


def replay_case(path, pid, compare=D.strip_far):
    with open(path) as f:
        rec = json.load(f)
    raw = rec["case"].get("raw") or rec["case"]["case"]["raw"]
    c = dict(id=0, g=raw["g"], cfg=raw["cfg"], s=raw["s"])
    res, _, _ = evaluate(pid, [c])
    print(G.render_grammar(c["g"]))
    print("cfg:", c["cfg"])
    print("input:", repr(G.text(c["s"])))
    try:
        b = D.Built(c["g"], c["cfg"])
        real = real_outcome(b, G.text(c["s"]))
    except Exception as e:
        real = {"accept": "grammar refused", "model": {"t": "exc", "v": f"{type(e).__name__}: {e}"}}
    exp = res[0]["out"][0]
    print("textX  :", common.canon(compare(real)))
    print("Peg.tla:", common.canon(compare(exp)))
    return 0 if common.canon(compare(real)) == common.canon(compare(exp)) else 1


# ----------------------------------------------------------------------------- bounded universes (MC_Peg.tla)
MC_INVARIANTS = ["MemoTransparent", "WsInsertion", "CaseInsensitive", "AutoKwd", "NoValueLost",
                 "OnlyCommonObjects", "SpansExact"]


def universe(rep, family, depth=1, emit=True, maxlen=""):
    """(M) + enumeration: model-check MC_Peg for `family` (sharded), return the emitted universe
    [(g, cfg, inputs, outs)] -- the theorems are checked on every grammar in the same runs."""
    from concurrent.futures import ThreadPoolExecutor
    n = 16 if tlc.NCPU >= 16 else 8 if tlc.NCPU >= 8 else 4 if tlc.NCPU >= 4 else 1
    if depth == 1 and family in ("ops",):
        n = min(n, 4)

    def one(k):
        return tlc.model_check("MC_Peg", env=dict(VT_FAMILY=family, VT_DEPTH=str(depth), VT_SHARD=str(k),
                                                   VT_NSHARDS=str(n), VT_EMIT="1" if emit else "0", VT_MAXLEN=str(maxlen)),
                               workers=1, timeout=3000 if depth == 1 else 9000)

    with ThreadPoolExecutor(max_workers=min(n, tlc.NCPU)) as ex:
        rs = list(ex.map(one, range(n)))
    out, inputs = [], None
    for k, r in enumerate(rs):
        tlc.require_ok(r, f"MC_Peg family={family} depth={depth} shard={k}")
        rep.add_mc(f"MC_Peg[{family},d{depth},shard {k}/{n}]", r, MC_INVARIANTS)
        for x in r.results("INPUTS"):
            inputs = x["inputs"]
        out += r.results("CASE")
    return out, inputs


def judge_universe(rep, pid, family, depth=1, compare=D.strip_far, sample=None, rng=None, cfg_over=None, maxlen=""):
    """Replay the whole emitted universe (or a seeded sample of its grammars) into textX."""
    uni, inputs = universe(rep, family, depth, maxlen=maxlen)
    if sample is not None and len(uni) > sample:
        uni = rng.sample(uni, sample)
    mmcache = MMCache()
    mism = []
    n = 0
    for u in uni:
        b = mmcache.get(u["g"], u["cfg"])
        if isinstance(b, Exception):
            rep.violation(dict(grammar=G.render_grammar(u["g"]), cfg=u["cfg"], error=f"{type(b).__name__}: {b}"),
                          f"textX refuses a grammar of the fragment: {type(b).__name__}: {str(b)[:200]}")
            continue
        for i, s in enumerate(inputs):
            exp = u["outs"][i]
            real = real_outcome(b, G.text(s))
            n += 1
            if common.canon(compare(real)) == common.canon(compare(exp)):
                nt = nontrivial(exp)
                rep.passed(dict(grammar=b.text, input=G.text(s), outcome=compare(exp)) if nt and len(rep.samples) < 4 else None,
                           nontrivial=False)
                if nt:
                    rep.nontrivial.add(common.digest([u["gi"], family, depth, s]))
            else:
                mism.append(dict(id=len(mism), g=u["g"], cfg=u["cfg"], s=s, real=real, exp=exp))
    # mismatches: explained by a listed deviation?
    od = open_devs(pid)
    if mism and od:
        cases = [dict(id=m["id"], g=m["g"], cfg=m["cfg"], s=m["s"], devs=[[d] for _, d in od] + [sorted({d for _, d in od})])
                 for m in mism]
        res, st = tlc.oracle("PegOracle", cases)
        rep.add_oracle("PegOracle[deviations]", st)
    for m in mism:
        fid = None
        if od:
            outs = res[m["id"]]["out"]
            for j, (f, _d) in enumerate(od):
                if common.canon(compare(outs[j])) == common.canon(compare(m["real"])):
                    fid = f
                    break
            if fid is None and common.canon(compare(outs[-1])) == common.canon(compare(m["real"])):
                fid = od[0][0]
        c = dict(g=m["g"], cfg=m["cfg"], s=m["s"])
        if fid:
            rep.known_finding(fid, describe(c))
        else:
            rep.violation(dict(describe(c), raw=c, observed=compare(m["real"]), expected=compare(m["exp"])),
                          f"{family}: grammar {G.render_grammar(m['g']).strip()!r} input {G.text(m['s'])!r}: textX gives "
                          f"{common.canon(compare(m['real']))[:260]} but Peg.tla prescribes {common.canon(compare(m['exp']))[:260]}")
    rep.bounds[f"universe_{family}_d{depth}"] = dict(grammars=len(uni), inputs=len(inputs), compared=n)
    return n


def judge_universe_memo(rep, pid, family, depth, maxlen=""):
    """C19: every case of the universe with memoization on and off; both must equal the module's outcome
    (accept, model and error position), hence each other."""
    uni, inputs = universe(rep, family, depth, maxlen=maxlen)
    mism = []
    n = 0
    for u in uni:
        built = {}
        for memo in (True, False):
            try:
                built[memo] = D.Built(u["g"], dict(u["cfg"], memo=memo))
            except Exception as e:
                rep.violation(dict(grammar=G.render_grammar(u["g"]), error=str(e)), f"grammar refused: {e}")
        if len(built) < 2:
            continue
        for i, s in enumerate(inputs):
            exp = u["outs"][i]
            for memo in (True, False):
                real = real_outcome(built[memo], G.text(s))
                n += 1
                if common.canon(real) == common.canon(exp):
                    rep.passed(None)
                    if nontrivial(exp):
                        rep.nontrivial.add(common.digest([u["gi"], family, depth, s, memo]))
                        if len(rep.samples) < 3:
                            rep.samples.append(dict(grammar=built[memo].text, input=G.text(s), memoization=memo, outcome=exp))
                else:
                    mism.append(dict(id=len(mism), g=u["g"], cfg=dict(u["cfg"], memo=memo), s=s, real=real, exp=exp))
    od = open_devs(pid)
    res = {}
    if mism and od:
        cases = [dict(id=m["id"], g=m["g"], cfg=m["cfg"], s=m["s"],
                      devs=[[d] for _, d in od] + [sorted({d for _, d in od})]) for m in mism]
        res, st = tlc.oracle("PegOracle", cases)
        rep.add_oracle("PegOracle[deviations]", st)
    for m in mism:
        fid = None
        if od:
            outs = res[m["id"]]["out"]
            for j, (f, _d) in enumerate(od):
                if common.canon(outs[j]) == common.canon(m["real"]):
                    fid = f
                    break
            if fid is None and common.canon(outs[-1]) == common.canon(m["real"]):
                fid = od[0][0]
        c = dict(g=m["g"], cfg=m["cfg"], s=m["s"])
        if fid:
            rep.known_finding(fid, describe(c))
        else:
            rep.violation(dict(describe(c), raw=c, observed=m["real"], expected=m["exp"]),
                          f"{family} memo={m['cfg']['memo']}: grammar {G.render_grammar(m['g']).strip()!r} input "
                          f"{G.text(m['s'])!r}: textX gives {common.canon(m['real'])[:240]} but Peg.tla prescribes "
                          f"{common.canon(m['exp'])[:240]}")
    rep.bounds[f"universe_{family}_d{depth}_memo"] = dict(grammars=len(uni), inputs=len(inputs), compared=n)
    return n


def replay_witnesses(rep, pid, compare=D.strip_far):
    """Each listed open finding's stored witness is replayed at the start of a run; KNOWN-FINDING is
    printed only while the witness still departs from the documented semantics (Peg!Outcome with D = {})."""
    fs = [f for f in common.open_findings(pid) if isinstance(f.get("witness"), dict) and "raw" in f["witness"]]
    if not fs:
        return
    cases = []
    for i, f in enumerate(fs):
        raw = f["witness"]["raw"]
        cases.append(dict(id=i, g=raw["g"], cfg=raw["cfg"], s=raw["s"], devs=[[]]))
    res, st = tlc.oracle("PegOracle", cases)
    rep.add_oracle("PegOracle[witnesses]", st)
    for i, f in enumerate(fs):
        raw = f["witness"]["raw"]
        try:
            real = real_outcome(D.Built(raw["g"], raw["cfg"]), G.text(raw["s"]))
        except Exception as e:
            real = {"accept": "grammar refused", "model": {"t": "exc", "v": str(e)}}
        if common.canon(compare(real)) != common.canon(compare(res[i]["out"][0])):
            rep.known_finding(f["id"], describe(raw))
        else:
            rep.note(f"finding {f['id']}: stored witness no longer misbehaves")


# ----------------------------------------------------------------------------- shrinking of violations
def _subexprs_replacements(e):
    """Candidates obtained by replacing e by one of its children, or dropping one element."""
    k = e["k"]
    out = []
    if k in ("seq", "alt", "unord"):
        for i in range(len(e["es"])):
            out.append(e["es"][i])
            if len(e["es"]) > 2 or (k != "unord" and len(e["es"]) > 1):
                rest = e["es"][:i] + e["es"][i + 1:]
                out.append(dict(e, es=rest) if len(rest) > 1 else rest[0])
        for i, c in enumerate(e["es"]):
            for r in _subexprs_replacements(c):
                out.append(dict(e, es=e["es"][:i] + [r] + e["es"][i + 1:]))
    elif k in ("opt", "star", "plus", "and", "not"):
        out.append(e["e"])
        for r in _subexprs_replacements(e["e"]):
            out.append(dict(e, e=r))
    return out


def _grammar_candidates(g):
    out = []
    rules = g["rules"]
    for i in range(1, len(rules)):
        out.append(dict(rules=rules[:i] + rules[i + 1:]))
    for i, r in enumerate(rules):
        for b in _subexprs_replacements(r["body"])[:40]:
            out.append(dict(rules=rules[:i] + [dict(r, body=b)] + rules[i + 1:]))
        if r["skipws"] != "inherit" or r["ws"]:
            out.append(dict(rules=rules[:i] + [dict(r, skipws="inherit", ws=[])] + rules[i + 1:]))
    return out


def shrink(pid, case, compare=D.strip_far, rounds=6):
    """Greedy shrinking: drop a rule, replace a sub-expression by a child, drop input characters;
    every candidate is re-judged (real code vs Peg!Outcome); keeps candidates that still disagree."""
    import copy
    cur = dict(g=case["g"], cfg=case["cfg"], s=list(case["s"]))
    for _ in range(rounds):
        cands = []
        for g2 in _grammar_candidates(cur["g"]):
            g2 = G.number(copy.deepcopy(g2))
            cands.append(dict(g=g2, cfg=cur["cfg"], s=cur["s"]))
        for i in range(len(cur["s"])):
            cands.append(dict(g=cur["g"], cfg=cur["cfg"], s=cur["s"][:i] + cur["s"][i + 1:]))
        cands = cands[:400]
        for i, c in enumerate(cands):
            c["id"] = i
            c["devs"] = [[]]
        if not cands:
            break
        try:
            res, _ = tlc.oracle("PegOracle", cands)
        except tlc.MachineryError:
            break
        best = None
        for c in cands:
            r = res[c["id"]]
            if not r["wf"]:
                continue
            try:
                real = real_outcome(D.Built(c["g"], c["cfg"]), G.text(c["s"]))
            except Exception:
                continue
            if common.canon(compare(real)) != common.canon(compare(r["out"][0])):
                size = len(common.canon(c["g"])) + 5 * len(c["s"])
                if best is None or size < best[0]:
                    best = (size, c)
        cursize = len(common.canon(cur["g"])) + 5 * len(cur["s"])
        if best is None or best[0] >= cursize:
            break
        cur = dict(g=best[1]["g"], cfg=best[1]["cfg"], s=best[1]["s"])
    return cur
