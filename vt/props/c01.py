"""C01 -- the compiled parser and the model follow the grammar's PEG semantics."""
from __future__ import annotations

import random

from .. import tlc
from ..drive import peg as D
from ..gen import peg as G
from . import pegcommon as P

PID = "C01"


def random_cases(rng, n_grammars, per_grammar, opts=None, cfgf=None):
    gg = G.GrammarGen(rng, opts)
    cases = []
    for _ in range(n_grammars):
        g = gg.grammar()
        cfg = cfgf(rng) if cfgf else D.default_cfg(
            skipws=rng.random() < 0.7, autoinit=rng.random() < 0.6, regroup=rng.random() < 0.4,
            ws=G.codes(rng.choice(["", "", " ", " \n", "\t "])))
        if not cfg["ws"] and rng.random() < 0.06:
            cfg["wsnone"] = True           # ws='' given: nothing is whitespace, comments are still skipped
        if rng.random() < 0.2:
            cfg["userclasses"] = rng.choice([True, True, "classattrs"])
        sg = G.SentenceGen(rng, g)
        has_c = any(r["name"] == "Comment" for r in g["rules"])
        for k in range(per_grammar):
            toks = sg.sentence()
            s = G.join(rng, toks, has_c)
            if k >= per_grammar // 2:
                s = G.mutate(rng, s, toks)
            cases.append(dict(id=len(cases), g=g, cfg=cfg, s=G.codes(s)))
    return cases


def run(rep):
    rng = random.Random(rep.seed)
    quick = rep.tier == "quick"
    P.replay_witnesses(rep, PID)
    rep.rule = ("I->S: seeded-random well-formed grammars (1-3 rules, depth <= 3, all operators, assignments, "
                "predicates, suppression, rule modifiers, Comment rule) with inputs derived from the grammar and "
                "mutated; the real outcome (accept / model with classes, attribute values, defaults, containment, "
                "spans) is compared with Peg!Outcome evaluated by TLC. Non-trivial: accepted with a model; distinct "
                "by (grammar, cfg, input).")
    rep.assumptions = ["grammars restricted to Peg!WellFormed (DESIGN.md section 7)",
                       "regexes of the shape pre[set]{min,}post; base types ID INT BOOL STRING; ASCII inputs plus one "
                       "non-ASCII letter"]
    # (M) + (S->I): bounded universes, every case replayed
    for fam, depth in ([("ops", 1), ("kinds", 1), ("opts", 1), ("alias", 1)] if quick else
                       [("ops", 2), ("kinds", 2), ("asg", 1), ("mods", 1), ("opts", 2), ("alias", 1)]):
        P.judge_universe(rep, PID, fam, depth, maxlen=4 if quick else "")
    rep.exhaustive = True
    ng, per = (100, 8) if quick else (1500, 10)
    cases = random_cases(rng, ng, per)
    # chains and cycles of abstract / match / common rules in any order of definition (what an attribute of such
    # a type holds depends on the inferred rule kinds)
    from . import c03
    for c in c03.cases_for(rng, 40 if quick else 500, 5):
        c["id"] = len(cases)
        cases.append(c)
    # the same semantics when the rules are distributed over a chain of grammar files (cfg split3)
    from . import c19
    for c in c19.chain_cases(rng, 15 if quick else 150, 6):
        c["id"] = len(cases)
        cases.append(c)
    info, stats = P.judge_cases(rep, PID, cases, label="random")
    rep.bounds["random"] = stats


def replay(path):
    return P.replay_case(path, PID)


META = dict(
    modules=["Peg", "PegOracle", "MC_Peg"],
    level_text=("Peg.tla is an executable statement of the documented PEG matching, meta-model inference and model "
                "construction; TLC evaluates it on every generated (grammar, options, input) and the real parser's "
                "verdict and model are compared with it."),
    level_note="Fragment Peg!WellFormed; bounded grammar/ input sizes; renderer and projector are trusted.",
    technique="TLC-evaluated TLA+ PEG/model-construction semantics as oracle over enumerated and random grammars",
)
