"""Running TLC / SANY and reading what they print.

Three uses (DESIGN.md section 2.1):
  * model_check(): TLC on a module + cfg, invariants checked in every state;
  * oracle():      TLC evaluates a module's function on JSON cases (sharded);
  * trace runs are model_check() with IOEnv variables pointing at trace files.
"""
from __future__ import annotations

import json
import os
import re
import shutil
import subprocess
import tempfile
import time
from concurrent.futures import ThreadPoolExecutor
from dataclasses import dataclass, field

VERIF = os.path.dirname(os.path.dirname(os.path.abspath(__file__)))
SPEC = os.path.join(VERIF, "spec")
JAR = "/opt/veriftools/tla/tla2tools.jar"
DEPS = "/opt/veriftools/tla/CommunityModules-deps.jar"


def _ncpu():
    """Cores a single check may use. /verif/.cpus (untracked) or VT_CPUS cap it while several
    builders share the machine; registered commands run with all cores."""
    try:
        with open(os.path.join(VERIF, ".cpus")) as f:
            return max(1, int(f.read().strip()))
    except Exception:
        pass
    return max(1, int(os.environ.get("VT_CPUS", os.cpu_count() or 4)))


NCPU = _ncpu()


class MachineryError(Exception):
    """TLC/SANY did not do its job (exit 2 of ./check, never a VIOLATION)."""


@dataclass
class TLCResult:
    ok: bool                 # finished without error / invariant violation
    stdout: str
    generated: int = 0
    distinct: int = 0
    depth: int = 0
    violated: str | None = None      # name of violated invariant / property
    error: str | None = None         # other TLC error text
    prints: list = field(default_factory=list)   # raw PrintT lines
    wall_s: float = 0.0
    cmd: str = ""
    coverage: dict = field(default_factory=dict)

    def results(self, tag="RESULT"):
        """Decoded `PrintT("TAG|" \\o ToJson(x))` lines."""
        out = []
        pre = tag + "|"
        for ln in self.prints:
            if ln.startswith(pre):
                out.append(json.loads(ln[len(pre):]))
        return out


def scratch(prefix="vt-"):
    return tempfile.mkdtemp(prefix=prefix, dir=os.environ.get("VT_SCRATCH", "/tmp"))


def _java(extra_jvm=()):
    return ["java", "-XX:+UseParallelGC", "-Xss64m", *extra_jvm, "-cp", JAR + ":" + DEPS]


_PRINT_RE = re.compile(r'^"((?:[^"\\]|\\.)*)"$')


def _decode_tlc_string(line):
    m = _PRINT_RE.match(line)
    if not m:
        return None
    body = m.group(1)
    try:
        return json.loads('"' + body + '"')
    except Exception:
        return body.replace('\\"', '"').replace("\\\\", "\\")


def _parse(stdout, res):
    for ln in stdout.splitlines():
        if ln.startswith('"'):
            s = _decode_tlc_string(ln)
            if s is not None:
                res.prints.append(s)
    m = re.search(r"(\d+) states generated, (\d+) distinct states found", stdout)
    if m:
        res.generated, res.distinct = int(m.group(1)), int(m.group(2))
    m = re.search(r"depth of the complete state graph search is (\d+)", stdout)
    if m:
        res.depth = int(m.group(1))
    m = re.search(r"Invariant (\S+) is violated", stdout)
    if m:
        res.violated = m.group(1)
    m = re.search(r"Action property (\S+) is violated", stdout) or re.search(
        r"Temporal properties were violated", stdout)
    if m and not res.violated:
        res.violated = m.group(1) if m.groups() else "temporal"
    if "Error:" in stdout and not res.violated:
        i = stdout.index("Error:")
        res.error = stdout[i:i + 1500]
    # coverage lines:  <Action line .. of module M>: distinct:generated
    for m in re.finditer(r"^<(\w+) line \d+, col \d+ to line \d+, col \d+ of module (\w+)>: (\d+):(\d+)",
                         stdout, re.M):
        res.coverage[m.group(1)] = res.coverage.get(m.group(1), 0) + int(m.group(4))


def model_check(module, cfg=None, env=None, workers=None, timeout=3600, extra=(),
                spec_dir=SPEC, coverage=False, heap="4g", simulate=None, depth=None, deadlock=None):
    """Run TLC on spec_dir/module.tla with spec_dir/cfg (default module.cfg)."""
    cfg = cfg or module + ".cfg"
    meta = scratch("vt-tlc-")
    # the JVM sizes its GC / JIT thread pools by the processor count: tell it how many this run may use,
    # or 16 single-worker oracle shards start 16 x 16 helper threads
    nproc = max(2, int(workers or NCPU))
    cmd = _java(["-Xmx" + heap, "-XX:ActiveProcessorCount=%d" % nproc, "-Djava.io.tmpdir=" + meta]) + [
        "tlc2.TLC", "-workers", str(workers or NCPU), "-metadir", meta,
                                    "-noGenerateSpecTE", "-config", cfg]
    if coverage:
        cmd += ["-coverage", "1"]
    if simulate:
        cmd += ["-simulate", simulate]
    if depth:
        cmd += ["-depth", str(depth)]
    if deadlock is False:
        cmd += ["-deadlock"]
    cmd += list(extra) + [module + ".tla"]
    e = dict(os.environ)
    e.update({k: str(v) for k, v in (env or {}).items()})
    t0 = time.time()
    try:
        p = subprocess.run(cmd, cwd=spec_dir, env=e, capture_output=True, text=True, timeout=timeout)
        out = p.stdout + p.stderr
        rc = p.returncode
    except subprocess.TimeoutExpired as ex:
        out = (ex.stdout or b"").decode("utf8", "replace") if isinstance(ex.stdout, bytes) else (ex.stdout or "")
        out += "\nError: TIMEOUT"
        rc = -1
    finally:
        shutil.rmtree(meta, ignore_errors=True)
    res = TLCResult(ok=False, stdout=out, wall_s=time.time() - t0,
                    cmd="tlc " + " ".join(cmd[cmd.index("tlc2.TLC") + 1:]))
    _parse(out, res)
    finished = ("Model checking completed. No error has been found." in out) or (
        simulate and rc in (0,) and "Error:" not in out)
    res.ok = bool(finished) and res.violated is None and res.error is None
    return res


def require_ok(res, what):
    if not res.ok:
        tail = res.stdout[-3000:]
        raise MachineryError(f"TLC failed for {what}: violated={res.violated} error={res.error}\n{tail}")
    return res


def sany(module, spec_dir=SPEC):
    p = subprocess.run(_java() + ["tla2sany.SANY", module + ".tla"], cwd=spec_dir,
                       capture_output=True, text=True)
    out = p.stdout + p.stderr
    ok = p.returncode == 0 and "Semantic errors" not in out and "***Parse Error***" not in out \
        and "Fatal errors" not in out and "Could not" not in out
    return ok, out


def oracle(module, cases, env_name="VT_CASES", cfg=None, shards=None, env=None, timeout=3600,
           tag="RESULT", heap="3g", key="id"):
    """Evaluate a function-like module on `cases` (list of dicts with unique `id`).

    The module reads JsonDeserialize(IOEnv.<env_name>) and prints one
    `TAG|json` line per case (the json carries the id).  Returns {id: result}.
    """
    if not cases:
        return {}, dict(generated=0, distinct=0, wall_s=0.0, runs=0, cmd="")
    shards = max(1, min(shards or NCPU, (len(cases) + 199) // 200))
    work = scratch("vt-orc-")
    chunks = [cases[i::shards] for i in range(shards)]
    t0 = time.time()

    def one(i):
        path = os.path.join(work, f"cases{i}.json")
        with open(path, "w") as f:
            json.dump(chunks[i], f)
        ev = dict(env or {})
        ev[env_name] = path
        return model_check(module, cfg=cfg or module + ".cfg", env=ev, workers=1, timeout=timeout, heap=heap)

    try:
        with ThreadPoolExecutor(max_workers=shards) as ex:
            rs = list(ex.map(one, range(shards)))
    finally:
        shutil.rmtree(work, ignore_errors=True)
    out = {}
    gen = dist = 0
    for i, r in enumerate(rs):
        require_ok(r, f"oracle {module} shard {i}")
        gen += r.generated
        dist += r.distinct
        for x in r.results(tag):
            out[x[key]] = x
    if len(out) != len(cases):
        missing = [c[key] for c in cases if c[key] not in out][:5]
        raise MachineryError(f"oracle {module}: {len(cases) - len(out)} cases without result, e.g. {missing}")
    return out, dict(generated=gen, distinct=dist, wall_s=time.time() - t0, runs=shards, cmd=rs[0].cmd)
