"""Regenerates /verif/MANIFEST.json from the META of every built property module.

    /venv/bin/python -m vt.manifest
"""
import importlib
import json
import os

from . import tlc

BASELINE_OFF = ("cd /repo && /venv/bin/python -m pytest -ra -q -p no:cacheprovider --timeout=900 "
                "--continue-on-collection-errors")


def main():
    props = [json.loads(l) for l in open(os.path.join(tlc.VERIF, "properties.jsonl"))]
    checks, na = [], []
    engines = {}
    ready_file = os.path.join(tlc.VERIF, "vt", "props", "READY")
    ready = set(open(ready_file).read().split()) if os.path.exists(ready_file) else set()
    for p in props:
        pid = p["id"]
        if pid not in ready:
            na.append(dict(property_id=pid, reason="check not integrated yet in this round; planned as TLA+ module + "
                                                   "conformance harness, see DESIGN.md section 6 " + pid))
            continue
        try:
            mod = importlib.import_module(f"vt.props.{pid.lower()}")
            meta = mod.META
        except (ModuleNotFoundError, AttributeError):
            na.append(dict(property_id=pid, reason="check not built yet in this round; planned as TLA+ module + "
                                                   "conformance harness, see DESIGN.md section 6 " + pid))
            continue
        if meta.get("not_applicable"):
            na.append(dict(property_id=pid, reason=meta["not_applicable"]))
            continue
        for m in meta.get("modules", []):
            engines.setdefault(m, []).append(pid)
        checks.append(dict(
            property_id=pid,
            quick_cmd=f"./check {pid} --tier quick",
            thorough_cmd=f"./check {pid} --tier thorough",
            evidence_file=f"/verif/evidence/{pid}.json",
            replay_cmd_template=f"./check {pid} --replay {{path}}",
            engine="tlc",
            level_claimed=dict(category="model_checking", text=meta["level_text"],
                               design_ref=f"DESIGN.md section 6 {pid}"),
            level_note=meta["level_note"],
            technique=meta.get("technique", "TLA+ specification model-checked with TLC; conformance by replaying "
                                            "TLC-enumerated behaviours into textX and validating recorded traces"),
        ))
    man = dict(
        version=1,
        setup_cmd="./setup.sh",
        hooks=dict(guard="TEXTX_VERIF",
                   enable="none needed: the harness observes textX through its public callbacks (scope providers, "
                          "processors, user classes), introspection and wrapped open(); no source hooks exist",
                   baseline_off_cmd=BASELINE_OFF, source_commits=[], add_only=True),
        engines=[dict(name=m, path=f"/verif/spec/{m}.tla", serves_properties=sorted(set(v)),
                      kind_free_text="TLA+ module checked with TLC 1.8 (model checking, oracle evaluation, trace validation)")
                 for m, v in sorted(engines.items())],
        checks=checks,
        not_applicable=na,
        notes="One entry point: ./check <id> [--tier quick|thorough] [--replay file]. Exit 0 held, 1 VIOLATION, "
              "2 machinery failure. Known findings: /verif/known_findings.json.",
    )
    with open(os.path.join(tlc.VERIF, "MANIFEST.json"), "w") as f:
        json.dump(man, f, indent=1)
    print(f"MANIFEST.json: {len(checks)} checks, {len(na)} not_applicable")


if __name__ == "__main__":
    main()
