"""Entry point: ./check Cnn [--tier quick|thorough] [--replay FILE]."""
import argparse
import importlib
import os
import sys
import traceback

from . import common, tlc


def main():
    ap = argparse.ArgumentParser()
    ap.add_argument("prop")
    ap.add_argument("--tier", default=os.environ.get("VERIF_TIER", "quick"), choices=["quick", "thorough"])
    ap.add_argument("--replay")
    ap.add_argument("--selftest", action="store_true")
    a = ap.parse_args()
    seed = int(os.environ.get("VERIF_SEED", "0") or 0)
    pid = a.prop.upper()
    common.ensure_repo_on_path()
    try:
        mod = importlib.import_module(f"vt.props.{pid.lower()}")
    except ModuleNotFoundError as e:
        print(f"no check for {pid}: {e}", file=sys.stderr)
        return 2
    try:
        if a.replay:
            return mod.replay(a.replay)
        if a.selftest:
            return mod.selftest()
        rep = common.Report(pid, a.tier, seed)
        mod.run(rep)
        return rep.finish()
    except tlc.MachineryError as e:
        print(f"MACHINERY-FAILURE {pid}: {e}", file=sys.stderr)
        return 2
    except Exception:
        traceback.print_exc()
        print(f"MACHINERY-FAILURE {pid}: harness exception", file=sys.stderr)
        return 2


if __name__ == "__main__":
    sys.exit(main())
