"""textX verification harness: TLA+ specifications checked with TLC and bound to the code."""
