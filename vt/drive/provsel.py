"""Driver for spec/LoaderProvider.tla (C32): a carrier grammar with two rules x (single, list) reference
attributes, recording scope providers bound to registration keys, and the projection "which provider
resolved this reference"."""
from __future__ import annotations

RULES = ["RA", "RB"]
ATTRS = ["one", "many"]
SLOTS = [f"{c}.{a}" for c in RULES for a in ATTRS]
RREL = "pkgs.defs"          # the expression used when the grammar gives an RREL for a slot

# key -> name of the definition the provider bound to that key returns (its label)
LABEL = {"RA.one": "kRAone", "RA.many": "kRAmany", "RB.one": "kRBone", "RB.many": "kRBmany",
         "*.one": "kSone", "*.many": "kSmany", "RA.*": "kRAS", "RB.*": "kRBS", "*.*": "kSS"}


def _occ_of(spec):
    """spec: a collection of slot names (one assignment with an RREL each) or {slot: [bool per assignment]}."""
    if isinstance(spec, dict):
        return {s: [bool(b) for b in spec.get(s, [False])] for s in SLOTS}
    return {s: [s in spec] for s in SLOTS}


def grammar(spec=(), expr=RREL):
    """Each rule has as many alternatives (keywords ra, rax, ..) as its attributes have assignments."""
    occ = _occ_of(spec)

    def ref(slot, i):
        o = occ[slot]
        return f"[Def:QName|{expr}]" if o[min(i, len(o) - 1)] else "[Def:QName]"
    rules = ""
    for c in RULES:
        n = max(len(occ[c + ".one"]), len(occ[c + ".many"]))
        # keywords ra, xra, ..: none is a prefix of another; the alternatives stand in assignment order
        alts = [f"'{'x' * i}{c.lower()}' one={ref(c + '.one', i)} ('many' many+={ref(c + '.many', i)}[','])?"
                for i in range(n)]
        rules += f"{c}: " + " | ".join(alts) + ";\n"
    return ("Model: imports*=Import defs*=Def pkgs*=Pkg items*=Item;\n"
            "Import: 'import' importURI=STRING;\n"
            "Def:   'def' name=QName;\n"
            "Pkg:   'pkg' name=ID '{' defs*=Def pkgs*=Pkg items*=Item '}';\n"
            "Item:  RA | RB;\n" + rules +
            "QName: ID('.'ID)*;\n")


_MM = {}


def metamodel(spec=(), expr=RREL):
    from textx import metamodel_from_str
    occ = _occ_of(spec)
    k = (tuple(sorted((s, tuple(o)) for s, o in occ.items())), expr)
    if k not in _MM:
        _MM[k] = metamodel_from_str(grammar(occ, expr))
    return _MM[k]


class Recording:
    """A scope provider that returns the definition named after its own label and records the call."""

    def __init__(self, key, log):
        self.key, self.log = key, log

    def __call__(self, obj, attr, obj_ref):
        from textx import get_model
        self.log.append((self.key, type(obj).__name__, attr.name, obj_ref.position))
        for d in get_model(obj).defs:
            if d.name == LABEL[self.key]:
                return d
        return None


class MemoRecording(dict):
    """The same as a memoising provider derived from dict: a callable whose truth value is False until its
    cache gets the first entry."""

    def __init__(self, key, log):
        super().__init__()
        self.inner = Recording(key, log)

    def __call__(self, obj, attr, obj_ref):
        r = self.inner(obj, attr, obj_ref)
        self[obj_ref.position] = r
        return r


# the model of the precedence check: `p.x` is a top-level definition (what the default provider finds by its
# full name) and also the definition x of package p (what the grammar expression pkgs.defs finds)
def precedence_model(occ):
    text = "def p.x\n" + "".join(f"def {n}\n" for n in LABEL.values()) + "pkg p { def x }\n"
    refs = []      # (slot, rule, item index among the items of that rule, offset)
    for c in RULES:
        n = max(len(occ[c + ".one"]), len(occ[c + ".many"]))
        for i in range(n):
            text += "x" * i + c.lower() + " "
            refs.append((f"{c}.one", c, i, len(text)))
            text += "p.x many "
            refs.append((f"{c}.many", c, i, len(text)))
            text += "p.x, "
            refs.append((f"{c}.many", c, i, len(text)))
            text += "p.x\n"
    return text, refs


def _observe(mm, occ, log):
    """Load the precedence model and report for every slot which provider resolved its references."""
    from textx import get_children_of_type
    text, refs = precedence_model(occ)
    del log[:]
    try:
        model = mm.model_from_str(text)
    except Exception as e:
        return {"error": f"{type(e).__name__}: {e}"[:300]}
    calls = {}
    for key, cls, attr, pos in log:
        calls.setdefault(pos, []).append((key, f"{cls}.{attr}"))
    objs = {c: get_children_of_type(c, model) for c in RULES}
    seen = {s: [] for s in SLOTS}
    idx = {}
    for slot, c, i, pos in refs:
        a = slot.split(".")[1]
        o = objs[c][i] if i < len(objs[c]) else None
        k = idx.get((slot, i), 0)
        idx[(slot, i)] = k + 1
        if o is None:
            tgt = None
        else:
            tgt = o.one if a == "one" else (o.many[k] if k < len(o.many) else None)
        cs = calls.get(pos, [])
        if len(cs) > 1 or any(w != slot for _, w in cs):
            seen[slot].append(f"calls:{cs}")
        elif len(cs) == 1:
            key = cs[0][0]
            ok = tgt is not None and tgt.name == LABEL[key]
            seen[slot].append(key if ok else f"{key}-but-target-{getattr(tgt, 'name', None)}")
        elif tgt is None:
            seen[slot].append("unresolved")
        elif type(tgt.parent).__name__ == "Pkg" and tgt.name == "x":
            seen[slot].append("grammar")
        elif type(tgt.parent).__name__ == "Model" and tgt.name == "p.x":
            seen[slot].append("default")
        else:
            seen[slot].append(f"target:{tgt.name}")
    return {s: (v[0] if len(set(v)) == 1 else "mixed:" + ",".join(v)) for s, v in seen.items()}


def run_config(occ_spec, prev, keys, falsy):
    """On ONE metamodel: register `prev`, load; register `keys` (providers of `falsy` are falsy callables),
    load; register {}, load.  -> the observation after each registration."""
    occ = _occ_of(occ_spec)
    mm = metamodel(occ)
    log = []
    out = []
    try:
        for reg in (prev, keys, []):
            try:
                mm.register_scope_providers(
                    {k: (MemoRecording(k, log) if (reg is keys and k in falsy) else Recording(k, log)) for k in reg})
            except Exception as e:
                out.append({"error": f"register: {type(e).__name__}: {e}"[:300]})
                continue
            out.append(_observe(mm, occ, log))
    finally:
        mm.scope_providers = {}      # leave the cached metamodel without registrations, whatever the code did
    return out


# ---------------------------------------------------------------- RREL strings registered as providers
# main model (imports lib.m) and the imported file; the single reference is put at one of three places
SKELETON = ('import "lib.m"\ndef x\ndef p.x\ndef y\n'
            "pkg p { def x def z pkg q { def y def x %s } %s }\n"
            "pkg q { def y def w }\n%s")
LIB = "def lx\ndef y\npkg lp { def ly def x }\npkg p { def lz }\n"
NAMES = ["x", "y", "z", "w", "p.x", "q.y", "p.q.y", "p.z", "q.w", "nope", "p.nope", "q.x",
         "lx", "lp.ly", "lp.x", "p.lz", "ly"]
PLACES = [2, 1, 0]           # index of the %s the single reference is put at: top level, in p, in p.q
KEYS = ["RA.one", "*.one", "RA.*", "*.*"]


def _path(o):
    import os
    from textx import get_model
    parts = []
    fn = os.path.basename(get_model(o)._tx_filename or "-")
    while o is not None and hasattr(o, "name"):
        parts.append(o.name)
        o = getattr(o, "parent", None)
    return fn + ":" + "/".join(reversed(parts))


def load_one(mm, workdir, place, name, lst):
    import os
    slots = ["", "", ""]
    slots[place] = (f"ra {name}" if not lst else f"ra {name} many {name}, {name}")
    with open(os.path.join(workdir, "lib.m"), "w") as f:
        f.write(LIB)
    with open(os.path.join(workdir, "main.m"), "w") as f:
        f.write(SKELETON % tuple(slots))
    from textx import get_children_of_type
    try:
        model = mm.model_from_file(os.path.join(workdir, "main.m"))
    except Exception as e:
        msg = getattr(e, "message", None) or str(e)
        return {"ok": False, "error": type(e).__name__, "message": str(msg)[:200],
                "line": getattr(e, "line", 0) or 0, "col": getattr(e, "col", 0) or 0}
    ra = get_children_of_type("RA", model)[0]
    return {"ok": True, "targets": [_path(ra.one)] + [_path(t) for t in ra.many]}


def string_case(expr, place, name, lst, key, workdir):
    """-> (outcome with the expression in the grammar, outcome with the same string registered under key).
    The registration happens on a fresh metamodel and the compared load is the first one after it."""
    from textx import metamodel_from_str
    slots = ("RA.one", "RA.many") if lst else ("RA.one",)
    keys = {key, key.replace("one", "many")} if lst else {key}
    g = load_one(metamodel(slots, expr), workdir, place, name, lst)
    mm = metamodel_from_str(grammar(()))
    try:
        mm.register_scope_providers({k: expr for k in sorted(keys)})
        r = load_one(mm, workdir, place, name, lst)
    except Exception as e:     # registration itself refused the string
        r = {"ok": False, "error": "register:" + type(e).__name__, "message": str(e)[:200], "line": 0, "col": 0}
    return g, r
