"""Driver for the FQN scope provider (C10): renders an abstract package/class tree with
references into text of a fixed carrier grammar, loads it with `{"*.*": FQN()}` and reports
what every reference resolved to.

Abstract tree node: {kind: pkg|cls|grp|use|open, name, refs: [dotted names], kids: [nodes]}
  pkg NAME [uses r1, r2] { kids }     cls NAME [ext r1, r2]     use r     open r
  grp { kids }    an anonymous container (it has no `name` attribute at all)
Two metamodels: generated classes only, and a variant with a user class for Pkg whose
len() is the number of classes it directly contains (so some packages are falsy in Python).
Object ids are assigned in textual (pre-)order, 1 = the model root; references are listed in
textual order, which is the order in which textX resolves them.
No semantics lives here: rendering, loading, reading what happened.
"""
from __future__ import annotations

GRAMMAR = r'''
Model: elems*=Elem;
Elem:  Pkg | Cls | Grp | Use | Open;
Pkg:   'pkg' name=ID ('uses' uses+=[Cls:QName][','])? '{' elems*=Elem '}';
Grp:   'grp' '{' elems*=Elem '}';
Cls:   'cls' name=ID ('ext' ext+=[Cls:QName][','])?;
Use:   'use' ref=[Cls:QName];
Open:  'open' pk=[Pkg:QName];
QName: ID('.'ID)*;
'''
# attributes in grammar order: this is the order of the object's __dict__
ATTRS = {"Model": [("cont", "elems")], "Pkg": [("ref", "uses"), ("cont", "elems")],
         "Grp": [("cont", "elems")], "Cls": [("ref", "ext")], "Use": [("ref", "ref")], "Open": [("ref", "pk")]}
CLS = {"pkg": "Pkg", "cls": "Cls", "grp": "Grp", "use": "Use", "open": "Open"}
REFATTR = {"grp": (None, None), "pkg": ("uses", "Cls"), "cls": ("ext", "Cls"), "use": ("ref", "Cls"), "open": ("pk", "Pkg")}


def abstract(tree, user_classes=False):
    """tree (list of top-level nodes) -> (objs, refs) as Fqn.tla wants them.
    user_classes: the load uses the Pkg user class, whose truth value is "contains a class"."""
    objs = [dict(cls="Model", name="-", named=False, truthy=True, parent=0,
                 attrs=[dict(k="cont", attr="elems", els=[])])]
    refs = []

    def add(node, parent):
        cls = CLS[node["kind"]]
        truthy = not (user_classes and cls == "Pkg") or any(k["kind"] == "cls" for k in node.get("kids", []))
        objs.append(dict(cls=cls, name=node.get("name") or "-", named=bool(node.get("name")), truthy=truthy,
                         parent=parent,
                         attrs=[dict(k=k, attr=a, els=[]) for k, a in ATTRS[cls]]))
        i = len(objs)
        for a in objs[parent - 1]["attrs"]:
            if a["k"] == "cont":
                a["els"].append(i)
        attr, tcls = REFATTR[node["kind"]]
        for r in node.get("refs", []):
            refs.append(dict(owner=i, attr=attr, parts=r.split("."), cls=tcls))
        for k in node.get("kids", []):
            add(k, i)
    for n in tree:
        add(n, 1)
    return objs, refs


def text(tree):
    out = []

    def emit(n, ind):
        pad = "  " * ind
        if n["kind"] == "pkg":
            u = (" uses " + ", ".join(n["refs"])) if n.get("refs") else ""
            out.append(f"{pad}pkg {n['name']}{u} {{")
            for k in n.get("kids", []):
                emit(k, ind + 1)
            out.append(pad + "}")
        elif n["kind"] == "grp":
            out.append(f"{pad}grp {{")
            for k in n.get("kids", []):
                emit(k, ind + 1)
            out.append(pad + "}")
        elif n["kind"] == "cls":
            e = (" ext " + ", ".join(n["refs"])) if n.get("refs") else ""
            out.append(f"{pad}cls {n['name']}{e}")
        elif n["kind"] == "use":
            out.append(f"{pad}use {n['refs'][0]}")
        else:
            out.append(f"{pad}open {n['refs'][0]}")
    for n in tree:
        emit(n, 0)
    return "\n".join(out) + "\n"


class Real:
    def __init__(self, user_classes=False):
        from textx import metamodel_from_str
        from textx.scoping.providers import FQN

        log = self.log = []

        class RecordingFQN(FQN):
            """The FQN provider itself; every call and its result is written down."""

            def __call__(self, obj, attr, obj_ref):
                from textx import get_model
                r = FQN.__call__(self, obj, attr, obj_ref)
                # ids are taken now: after a failed load user-class objects lose their attributes
                ids = Real._ids(get_model(obj))
                log.append((ids[id(obj)], attr.name, obj_ref.obj_name, 0 if r is None else ids.get(id(r), -1)))
                return r

        classes = []
        if user_classes:
            class Pkg:
                """A package counts its classes: len(pkg) == 0 (falsy) when it directly contains none."""

                def __init__(self, parent=None, name=None, uses=None, elems=None):
                    self.parent, self.name, self.uses, self.elems = parent, name, uses, elems

                def __len__(self):
                    return sum(1 for x in self.elems if type(x).__name__ == "Cls")
            classes = [Pkg]
        self.mm = metamodel_from_str(GRAMMAR, classes=classes)
        self.mm.register_scope_providers({"*.*": RecordingFQN()})

    @staticmethod
    def _ids(root):
        ids = {id(root): 1}
        n = [1]

        def walk(o):
            for x in getattr(o, "elems", []):
                n[0] += 1
                ids[id(x)] = n[0]
                walk(x)
        walk(root)
        return ids

    def load(self, tree):
        """-> dict(outcome=[target id per reference in textual order, 0 = unknown, nothing after it],
                   calls=[[owner, attr, name]], error=None|str)"""
        from textx.exceptions import TextXSemanticError
        del self.log[:]
        err = None
        model = None
        try:
            model = self.mm.model_from_str(text(tree))
        except TextXSemanticError as e:
            err = str(e)
            if "Unknown object" not in err:
                return dict(outcome=[-1], calls=[], error="TextXSemanticError: " + err[:200])
        except Exception as e:  # noqa
            return dict(outcome=[-1], calls=[], error=type(e).__name__ + ": " + str(e)[:200])
        if not self.log:
            return dict(outcome=[], calls=[], error=err)
        outcome, calls = [], []
        for owner, attr, name, r in self.log:
            calls.append([owner, attr, name])
            outcome.append(r)
        if (err is not None) != (outcome[-1] == 0) or 0 in outcome[:-1]:
            return dict(outcome=[-1], calls=calls, error=f"load outcome inconsistent with provider results: {err} {outcome}")
        if model is not None:
            # what the model holds must be what the provider returned
            ids = self._ids(model)
            held = []

            def walk(o):
                for a in ("uses", "ext"):
                    held.extend(ids[id(x)] for x in getattr(o, a, []) or [])
                for a in ("ref", "pk"):
                    if getattr(o, a, None) is not None:
                        held.append(ids[id(getattr(o, a))])
                for x in getattr(o, "elems", []):
                    walk(x)
            walk(model)
            if held != outcome:
                return dict(outcome=[-1], calls=calls, error=f"model holds {held}, provider returned {outcome}")
        return dict(outcome=outcome, calls=calls, error=err)
