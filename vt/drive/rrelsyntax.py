"""Driver for textx.scoping.rrel (C12): runs the real parser / printer on RREL text and
projects the expression objects onto the abstract syntax of spec/RrelSyntax.tla
(normal form: that is the shape the implementation holds), and evaluates expressions on
small fixed models for the differential "same results" part of the property.

Projection (attribute readers only):
  RRELExpression  {flags: sorted distinct flag letters, seq}     (+ mp: [importURI, use_proxy])
  RRELSequence    [path, ...]
  RRELPath        {lead: {k: none} | {k: dots, n}, els: [...]}   (a leading RRELDots is the lead)
  RRELNavigation  {k: nav, mode: name | multi | fixed, attr, fixed, q: 0}
  RRELParent      {k: par, type}      RRELBrackets {k: br, seq}      RRELZeroOrMore {k: star, e}
Names are sequences of code points.
"""
from __future__ import annotations


def codes_of(s):
    return [ord(ch) for ch in s]


def text_of(codes):
    return "".join(map(chr, codes))


def _rr():
    import textx.scoping.rrel as rr
    return rr


def project(node):
    rr = _rr()
    if isinstance(node, rr.RRELExpression):
        return dict(flags=codes_of("".join(sorted(set(node.flags)))), seq=project(node.seq))
    if isinstance(node, rr.RRELSequence):
        return [project(p) for p in node.paths]
    if isinstance(node, rr.RRELPath):
        els = list(node.path_elements)
        if els and isinstance(els[0], rr.RRELDots):
            return dict(lead=dict(k="dots", n=els[0].num), els=[project(e) for e in els[1:]])
        return dict(lead=dict(k="none"), els=[project(e) for e in els])
    if isinstance(node, rr.RRELNavigation):
        mode = "name" if node.consume_name else ("fixed" if node.fixed_name is not None else "multi")
        return dict(k="nav", mode=mode, attr=codes_of(node.name),
                    fixed=codes_of(node.fixed_name) if node.fixed_name is not None else [], q=0)
    if isinstance(node, rr.RRELParent):
        return dict(k="par", type=codes_of(node.type))
    if isinstance(node, rr.RRELBrackets):
        return dict(k="br", seq=project(node.seq))
    if isinstance(node, rr.RRELZeroOrMore):
        return dict(k="star", e=project(node.path_element))
    if isinstance(node, rr.RRELDots):           # dots anywhere but in front of a path
        return dict(k="dots", n=node.num)
    return dict(k="?" + type(node).__name__)


def read(text):
    """parse -> (tree or None, [projection] or [] , error class name)"""
    rr = _rr()
    try:
        tree = rr.parse(text)
    except Exception as e:
        return None, [], type(e).__name__
    return tree, [dict(project(tree), mp=[bool(tree.importURI), bool(tree.use_proxy)])], ""


# ---------------------------------------------------------------------------- small models
_GRAMMAR = """
Model: 'model' name=ID a*=T b*=U;
T: 'T' name=ID ('{' a*=T b*=U \xe9l*=\xc9c '}')?;
U: 'U' name=ID ('{' a*=T b*=U \xe9l*=\xc9c '}')?;
\xc9c: 'E' name=ID ('{' a*=T '}')?;
"""
_MODELS = [
    "model n T n { T m { U n E m } U n { T n { T m } E n { T m } } } T m U n { T m U m { U n } } U m",
]
_LOOKUPS = [["n"], ["m"], ["n", "m"], ["m", "n"], ["x"]]
_state = {}


def _models():
    if "models" not in _state:
        from textx import metamodel_from_str
        mm = metamodel_from_str(_GRAMMAR)
        ms = [mm.model_from_str(t) for t in _MODELS]
        objs = []
        for mi, m in enumerate(ms):
            def walk(o, path):
                objs.append((o, path))
                for attr in ("a", "b", "\xe9l"):
                    for i, c in enumerate(getattr(o, attr, []) or []):
                        walk(c, path + [f"{attr}{i}"])
            walk(m, [f"M{mi}"])
        _state["models"] = objs
        _state["paths"] = {id(o): "/".join(p) for o, p in objs}
    return _state["models"], _state["paths"]


def evaluate(tree):
    """find() with this expression from every object of the fixed models for a few names:
    a list of outcomes named by stable object paths."""
    rr = _rr()
    objs, paths = _models()
    out = []
    for o, _ in objs:
        for lk in _LOOKUPS:
            try:
                r = rr.find(o, list(lk), tree, use_proxy=tree.use_proxy)
                if r is None:
                    out.append("-")
                elif isinstance(r, rr.ReferenceProxy):
                    out.append("proxy:" + ">".join(paths.get(id(x), "?") for x in r._tx_path))
                elif id(r) in paths:
                    out.append(paths[id(r)])
                else:
                    out.append("other:" + type(r).__name__)
            except Exception as e:
                out.append("EXC:" + type(e).__name__)
    return out


def run_case(text, textsp):
    """The whole observation for one expression text (pure data, picklable)."""
    t1, p1, err1 = read(text)
    _, p1sp, _ = read(textsp)
    obs = dict(p1=p1, p1sp=p1sp, printed="", p2=[], eval_same="n/a", err=err1, found=0)
    if t1 is None:
        return obs
    try:
        printed = str(t1)
    except Exception as e:
        obs["err"] = "print:" + type(e).__name__
        return obs
    obs["printed"] = printed
    t2, p2, err2 = read(printed)
    obs["p2"] = p2
    obs["err"] = err2
    if t2 is not None and p2 == p1:
        e1, e2 = evaluate(t1), evaluate(t2)
        obs["eval_same"] = e1 == e2
        obs["found"] = sum(1 for x in e1 if x != "-" and not x.startswith("EXC"))
    return obs


def run_chunk(chunk):
    return [run_case(text_of(c["text"]), text_of(c["textsp"])) for c in chunk]
