"""Driver for spec/LoaderProc.tla (C13, C33, C34).

render()  abstract scenario (forest of objects, references, as emitted by TLC or drawn at
          random) -> model text in the carrier grammar, with the positions read off the
          text that was written (offset, line, column of every object and reference);
load()    runs the real textX on it with recording object processors, a scheduling
          scope provider, optional user classes, an optional failing processor;
project   call log, final containment contents, error fields, _pos_crossref_list,
          _pos_rule_dict in the vocabulary of the module.

Nothing here decides what is expected: that comes from TLC evaluating LoaderProc.
"""
from __future__ import annotations

import os
import random

GRAMMAR = r"""
Model:   ('model' name=ID)? imports*=Import ('first' first=Def)? ('root' root=Pkg)? elems*=Elem;
Import:  'import' importURI=STRING;
Elem:    Pkg | Grp | Box | Slot | Bag | Def | Use | UseList;
Pkg:     'pkg' name=ID '{' ('head' head=DefB)? ('defs' defs+=Def ';')? elems*=Elem (note=Note)? '}';
Note:    'note' name=ID;
Grp:     items+=Def['&'] ';';
Box:     inner=Cell;
Cell:    'cell' name=ID;
Slot:    'slot' val=Value;
Value:   Tag | INT | Cell;
Bag:     'bag' vals+=Value[','];
Tag:     /t[0-9]+/;
Def:     DefA | DefB;
DefA:    'defa' name=ID ('extends' extends+=[Def:QName][','])?;
DefB:    'defb' name=ID;
Use:     'use' ref=[Def:QName];
UseList: 'refs' refs+=[Def:QName][','];
QName:   ID('.'ID)*;
Comment: /#.*$/;
"""

# containment attributes per kind in meta-attribute order (the renderer's view of the carrier;
# the module has the same table as CarrierMeta and the driver checks both against the metamodel)
SLOTS = {
    "Model": [("imports", True, "Import"), ("first", False, "Def"), ("root", False, "Pkg"), ("elems", True, "Elem")],
    "Import": [],
    "Pkg": [("head", False, "DefB"), ("defs", True, "Def"), ("elems", True, "Elem"), ("note", False, "Note")],
    "Note": [],
    "Grp": [("items", True, "Def")],
    "Box": [("inner", False, "Cell")],
    "Slot": [("val", False, "Value")],
    "Bag": [("vals", True, "Value")],
    "Cell": [], "DefA": [], "DefB": [], "Use": [], "UseList": [],
    "Plain": [],          # a plain value (Tag alternative of Value) held by Slot.val: not an object
}
ALLOWED = {"Import": ["Import"], "Def": ["DefA", "DefB"], "DefB": ["DefB"], "Cell": ["Cell"],
           "Value": ["Plain", "Cell"], "Pkg": ["Pkg"], "Note": ["Note"],
           "Elem": ["Pkg", "Grp", "Box", "Slot", "Bag", "DefA", "DefB", "Use", "UseList"]}
REF_ATTR = {"Use": ("ref", False), "UseList": ("refs", True), "DefA": ("extends", True)}
RULES = ["Model", "Import", "Elem", "Pkg", "Note", "Grp", "Box", "Cell", "Slot", "Bag", "Value", "Def", "DefA", "DefB", "Use",
         "UseList"]
NAMED = {"Pkg": "p", "Cell": "c", "DefA": "a", "DefB": "b", "Note": "n"}
# replacement values a processor may return: an identifying string or a falsy (but not None) value
# ("zero" is the float 0.0: the int 0 is what a plain INT value of the model may be)
FALSY = {"zero": 0.0, "empty": "", "list": [], "false": False, "tuple": ()}
SEPS = [" ", " ", " ", "\n", "  ", "\n  ", "\t", " # note\n", "\n\n"]


def check_carrier(mm):
    """The table above is what the real metamodel says (containment attributes, order, types)."""
    for kind, slots in SLOTS.items():
        if kind == "Plain":
            continue
        cls = mm[kind]
        got = [(a.name, a.mult in ("0..*", "1..*"), a.cls.__name__) for a in cls._tx_attrs.values()
               if a.cont and a.cls.__name__ not in ("ID", "STRING", "INT")]
        if got != [tuple(s) for s in slots]:
            raise AssertionError(f"carrier table out of date for {kind}: {got}")


# ---------------------------------------------------------------------------------- rendering
class _Writer:
    def __init__(self, rng, plain):
        self.rng, self.plain = rng, plain
        self.buf, self.pos, self.line, self.col = [], 0, 1, 1
        self.first = True

    def _emit(self, s):
        self.buf.append(s)
        for ch in s:
            self.pos += 1
            if ch == "\n":
                self.line += 1
                self.col = 1
            else:
                self.col += 1

    def tok(self, text):
        if self.first:
            self.first = False
            if not self.plain and self.rng.random() < 0.3:
                self._emit(self.rng.choice(["\n", "  ", "# head\n", " \n "]))
        else:
            self._emit(" " if self.plain else self.rng.choice(SEPS))
        at = (self.pos, self.line, self.col)
        self._emit(text)
        return at

    def text(self):
        return "".join(self.buf)


def children(objs, o, slot=None):
    return [i for i in range(1, len(objs) + 1)
            if objs[i - 1]["parent"] == o and (slot is None or objs[i - 1]["slot"] == slot)]


def plain_value(o):
    """The Python value of a plain value object (a Tag string or an INT)."""
    return int(o["name"]) if o.get("pv") == "num" else o["name"]


def render(scn, rng=None, plain=False, collide=0.0):
    """scn: dict(objs=[{kind,parent,slot,file,hdr,nref}], refs=[{owner,target,parts,sched}], files=[..]).
    Returns a new scenario with positions taken from the written text, plus the texts."""
    rng = rng or random.Random(0)
    objs = [dict(o) for o in scn["objs"]]
    refs = [dict(r) for r in scn["refs"]]
    n = len(objs)
    nfiles = max(o["file"] for o in objs)
    # names first (references may precede their target)
    for i, o in enumerate(objs, 1):
        if o["kind"] in NAMED:
            o["name"] = NAMED[o["kind"]] * (1 if plain else rng.choice([1, 1, 2, 3])) + str(i)
        elif o["kind"] == "Plain":
            # the match-rule alternatives of Value: a Tag, or an INT (the first one is 0: falsy)
            o.setdefault("pv", "tag" if plain else rng.choice(["tag", "num"]))
            if o["pv"] == "num":
                first_num = not any(x.get("pv") == "num" for x in objs[:i - 1])
                o["name"] = "0" if first_num else str(i)
            else:
                o["name"] = "t" + str(i)
        elif o["kind"] == "Model":
            o["name"] = "m" + str(o["file"]) if o.get("hdr") else ""
        else:
            o["name"] = ""
        o["namelen"] = len(o["name"])
    # names need not be unique: definitions (also of the two different classes DefA and DefB) may share
    # a name, so that the same reference text can mean different targets
    if collide:
        defs = [o for o in objs if o["kind"] in ("DefA", "DefB")]
        for k, o in enumerate(defs):
            if k and rng.random() < collide:
                o["name"] = rng.choice(defs[:k])["name"]
                o["namelen"] = len(o["name"])
    # paths
    for i, o in enumerate(objs, 1):
        if o["parent"] == 0:
            o["path"] = str(o["file"]) + ":"
        else:
            p = objs[o["parent"] - 1]
            many = dict((s[0], s[1]) for s in SLOTS[p["kind"]])[o["slot"]]
            idx = children(objs, o["parent"], o["slot"]).index(i)
            step = o["slot"] + ("." + str(idx) if many else "")
            o["path"] = p["path"] + ("" if p["path"].endswith(":") else "/") + step

    def qname(r):
        t = r["target"]
        names = [objs[t - 1]["name"]]
        p = objs[t - 1]["parent"]
        while p and len(names) < r["parts"]:
            if objs[p - 1]["kind"] == "Pkg":
                names.append(objs[p - 1]["name"])
            p = objs[p - 1]["parent"]
        if len(names) != r["parts"]:
            raise ValueError("reference with more parts than enclosing packages")
        return ".".join(reversed(names))

    refs_of = {}
    for k, r in enumerate(refs):
        refs_of.setdefault(r["owner"], []).append(k)
    texts, matches = {}, []

    def emit(w, i):
        o = objs[i - 1]
        kind = o["kind"]
        marks = []

        def t(s):
            at = w.tok(s)
            marks.append((at, len(s)))
            return at

        def name():
            at = t(o["name"])
            matches.append(dict(rule="ID", file=o["file"], text=o["name"], line=at[1], col=at[2]))

        def kids(slot):
            out = []
            for c in children(objs, i, slot):
                out.append(emit(w, c))
            return out

        def reflist(sep):
            for j, k in enumerate(refs_of.get(i, [])):
                if j:
                    t(sep)
                name_ = qname(refs[k])
                dot = "." if plain else w.rng.choice([".", ".", ".", " . ", " .", ". "])
                txt = dot.join(name_.split("."))          # blanks inside a qualified name are part of its text
                at = t(txt)
                refs[k].update(start=at[0], len=len(txt), text=txt, line=at[1], col=at[2])
                off = 0
                for pk, part in enumerate(name_.split(".")):
                    matches.append(dict(rule="ID", file=o["file"], text=part, line=at[1], col=at[2] + off, part=pk))
                    off += len(part) + len(dot)
                matches.append(dict(rule="QName", file=o["file"], text=name_, line=at[1], col=at[2]))

        spans = []
        if kind == "Model":
            if o.get("hdr"):
                t("model")
                name()
            spans += kids("imports")
            if children(objs, i, "first"):
                t("first")
                spans += kids("first")
            if children(objs, i, "root"):
                t("root")
                spans += kids("root")
            spans += kids("elems")
        elif kind == "Import":
            t("import")
            t('"' + scn_files[children(objs, o["parent"], "imports").index(i) + 1] + '"')
        elif kind == "Pkg":
            t("pkg"); name(); t("{")
            if children(objs, i, "head"):
                t("head")
                spans += kids("head")
            if children(objs, i, "defs"):
                t("defs")
                spans += kids("defs")
                t(";")
            spans += kids("elems")
            if children(objs, i, "note"):
                spans += kids("note")
            t("}")
        elif kind == "Grp":
            for j, c in enumerate(children(objs, i, "items")):
                if j:
                    t("&")
                spans.append(emit(w, c))
            t(";")
        elif kind == "Box":
            spans += kids("inner")
        elif kind == "Cell":
            t("cell"); name()
        elif kind == "Note":
            t("note"); name()
        elif kind == "Slot":
            t("slot")
            spans += kids("val")
        elif kind == "Bag":
            t("bag")
            for j, c in enumerate(children(objs, i, "vals")):
                if j:
                    t(",")
                spans.append(emit(w, c))
        elif kind == "Plain":
            at = t(o["name"])
            if o["pv"] == "tag":
                matches.append(dict(rule="Tag", file=o["file"], text=o["name"], line=at[1], col=at[2]))
        elif kind == "DefA":
            t("defa"); name()
            if refs_of.get(i):
                t("extends")
                reflist(",")
        elif kind == "DefB":
            t("defb"); name()
        elif kind == "Use":
            t("use"); reflist(",")
        elif kind == "UseList":
            t("refs"); reflist(",")
        else:
            raise ValueError(kind)
        starts = [(m[0], m[0][0] + m[1]) for m in marks] + spans
        first = min(starts, key=lambda x: x[0][0])
        end = max(x[1] for x in starts)
        o.update(start=first[0][0], end=end, line=first[0][1], col=first[0][2])
        return (first[0], end)

    # file names: main as given ("" = string load), imports imp<k>.m
    lang = list(scn.get("lang") or [1] * nfiles)
    scn_files = [scn.get("files", ["main.m"])[0]] + \
        [f"imp{k}.m" + ("2" if lang[k - 1] == 2 else "") for k in range(2, nfiles + 1)]
    for f in range(1, nfiles + 1):
        root = next(i for i, o in enumerate(objs, 1) if o["parent"] == 0 and o["file"] == f)
        w = _Writer(rng, plain)
        emit(w, root)
        texts[f] = w.text() + ("" if plain else rng.choice(["", "\n", "  # end"]))
    # a match is identified by its rule, its text and its occurrence number among the matches of
    # that rule with that text, counted in processing order: files in load order, text order within
    matches.sort(key=lambda m: m["file"])       # stable: keeps the order of writing within a file
    seen = {}
    for m in matches:
        key = (m["rule"], m["text"])
        seen[key] = seen.get(key, 0) + 1
        m["occ"] = seen[key]
    out = dict(objs=objs, refs=refs, files=scn_files, texts=texts, matches=matches, lang=lang,
               procs=list(scn.get("procs", [])), repl=list(scn.get("repl", [])))
    return out


def spec_view(case, **extra):
    """The fields of a rendered case that LoaderProc reads (uniformly typed JSON)."""
    d = dict(
        objs=[dict(kind=o["kind"], parent=o["parent"], slot=o["slot"], file=o["file"], start=o["start"],
                   end=o["end"], line=o["line"], col=o["col"], namelen=o["namelen"]) for o in case["objs"]],
        refs=[dict(owner=r["owner"], start=r["start"], len=r["len"], target=r["target"], sched=r["sched"])
              for r in case["refs"]],
        files=list(case["files"]), lang=list(case.get("lang") or [1] * len(case["files"])),
        procs=list(case["procs"]), repl=list(case["repl"]),
        replk=list(case.get("replk") or ["str"] * len(case["repl"])),
        procs2=list(case.get("procs2") or []), repl2=list(case.get("repl2") or []),
        replk2=list(case.get("replk2") or ["str"] * len(case.get("repl2") or [])),
        fault={k: v for k, v in (case.get("fault") or NO_FAULT).items() if k in NO_FAULT})
    d.update(extra)
    return d


NO_FAULT = dict(on=False, proc="obj", obj=0, rule="", exc="txnoloc", wrap=False, hline=False, hcol=False,
                hnchar=False, hfile=False, sline=0, scol=0, snchar=0, sfile="", mfile=1, mline=0, mcol=0)
NONE_NUM, NONE_FILE = -2, "<none>"          # how the module writes Python's None


# ---------------------------------------------------------------------------------- loading
class Ctx:
    """Everything the callbacks of one load share."""

    def __init__(self, case, fault=None, user=False):
        self.case, self.fault, self.user = case, fault, user
        self.path2id = {o["path"]: i for i, o in enumerate(case["objs"], 1)}
        self.plain_id = {(type(plain_value(o)).__name__, plain_value(o)): i
                         for i, o in enumerate(case["objs"], 1) if o["kind"] == "Plain"}
        self.models = []              # every model of the load, in the order they were constructed
        self.match_calls = 0
        self.nref = {}
        for r in case["refs"]:
            self.nref[r["owner"]] = self.nref.get(r["owner"], 0) + 1
        self.refkey = {(case["objs"][r["owner"] - 1]["file"], r["start"]): k for k, r in enumerate(case["refs"])}
        self.attempts = {}
        self.calls = []
        self.created, self.inited = [], set()
        self.resolution = []          # (file, ref index, "postponed"|"resolved") in call order
        self.file_index = {}          # basename -> file number


def _file_no(ctx, model):
    fn = getattr(model, "_tx_filename", None)
    if not fn:
        return 1
    return ctx.file_index.get(os.path.basename(fn), 1)


def obj_path(ctx, obj):
    from textx import get_model
    parts = []
    cur = obj
    while hasattr(cur, "parent") and cur.parent is not None:
        p = cur.parent
        step = None
        for name, many, _ in SLOTS.get(type(p).__name__, []):
            v = getattr(p, name, None)
            if many and isinstance(v, list):
                for k, x in enumerate(v):
                    if x is cur:
                        step = f"{name}.{k}"
                        break
            elif v is cur:
                step = name
            if step:
                break
        if step is None:
            return "?"
        parts.append(step)
        cur = p
    return f"{_file_no(ctx, cur)}:" + "/".join(reversed(parts))


def _is_obj(x):
    return hasattr(x, "_tx_position") and type(x).__name__ in SLOTS


def walk(root):
    """All model objects below root through containment (replacement values are skipped)."""
    out, todo = [], [root]
    while todo:
        o = todo.pop()
        if not _is_obj(o):
            continue
        out.append(o)
        for name, many, _ in SLOTS[type(o).__name__]:
            v = getattr(o, name, None)
            if many:
                todo.extend(v or [])
            elif v is not None:
                todo.append(v)
    return out


def all_models(model):
    from textx.scoping import get_included_models
    return get_included_models(model)


def _all_linked(ctx):
    """Every reference of every model of the load holds its target object."""
    for m in ctx.models:
        for o in walk(m):
            kind = type(o).__name__
            if kind not in REF_ATTR:
                continue
            attr, many = REF_ATTR[kind]
            v = getattr(o, attr, None)
            want = ctx.nref.get(ctx.path2id.get(obj_path(ctx, o), -1), 0)
            vals = list(v or []) if many else ([] if v is None and want == 0 else [v])
            if len(vals) != want or not all(_is_obj(x) and type(x).__name__ in ("DefA", "DefB") for x in vals):
                return False
    return True


def _make_raise(fault):
    from textx.exceptions import TextXSemanticError
    if fault["exc"] == "other":
        return ValueError("boom")
    kw = {}
    if fault["exc"] == "txsome":
        if fault["hline"]:
            kw["line"] = fault["sline"]
        if fault["hcol"]:
            kw["col"] = fault["scol"]
        if fault["hnchar"]:
            kw["nchar"] = fault["snchar"]
        if fault["hfile"]:
            kw["filename"] = fault["sfile"]
    return TextXSemanticError("boom", **kw)


def _obj_processor(ctx, rule, replace):
    def proc(obj):
        if _is_obj(obj):
            oid = ctx.path2id.get(obj_path(ctx, obj), 0)
        else:                       # a plain value in an attribute typed with an abstract rule
            oid = ctx.plain_id.get((type(obj).__name__, obj), 0) if isinstance(obj, (str, int)) else 0
        linked = _all_linked(ctx)
        inited = all(id(u) in ctx.inited for u in ctx.created)
        ctx.calls.append(dict(obj=oid, rule=rule, linked=linked, inited=inited))
        f = ctx.fault
        if f and f["on"] and f["proc"] == "obj" and f["obj"] == oid and f["rule"] == rule:
            raise _make_raise(f)
        if replace:
            return f"r:{rule}:{oid}" if replace == "str" else FALSY[replace]
        return None
    return proc


def _match_processor(ctx, rule):
    f = ctx.fault

    def proc(value):
        if value == f["mtext"]:
            ctx.match_calls += 1
            if ctx.match_calls == f["mocc"]:
                raise _make_raise(f)
        return value
    return proc


_CUR = [None]     # the context of the load in progress (user classes of a reused metamodel report here)
_MM = {}


def _user_classes():
    def mk(name):
        def __new__(cls, *a, **k):
            o = object.__new__(cls)
            _CUR[0].created.append(o)
            return o

        def __init__(self, **kw):
            _CUR[0].inited.add(id(self))
        d = {"__new__": __new__, "__init__": __init__}
        if name == "DefA":          # container-like: a definition that extends nothing is falsy
            def __len__(self):
                try:
                    return len(self.extends or [])
                except AttributeError:
                    return 0
            d["__len__"] = __len__
        return type(name, (object,), d)
    return [mk("Pkg"), mk("DefA"), mk("Use")]


def _metamodel(user, tools, fresh, grammar_dir=None, lang=1):
    """The metamodel of language `lang`.  Metamodels are reused from load to load (as an application
    does) unless `fresh`; the two languages have the same grammar but are different metamodels."""
    from textx import metamodel_from_file, metamodel_from_str
    key = (user, tools, lang, grammar_dir)
    if grammar_dir and (fresh or key not in _MM):   # the grammar itself comes from a file
        gp = os.path.join(grammar_dir, f"carrier{lang}.tx")
        with open(gp, "w") as f:
            f.write(GRAMMAR)
        mm = metamodel_from_file(gp, classes=_user_classes() if user else None, textx_tools_support=tools)
        check_carrier(mm)
        if fresh:
            return mm
        _MM[key] = mm
    if fresh or key not in _MM:
        mm = metamodel_from_str(GRAMMAR, classes=_user_classes() if user else None, textx_tools_support=tools)
        check_carrier(mm)
        if fresh:
            return mm
        _MM[key] = mm
    return _MM[key]


def _provider(ctx):
    import textx.scoping.providers as sp
    from textx import get_model
    from textx.scoping import Postponed

    def candidates(root, parts):
        found = []
        for o in walk(root):
            if type(o).__name__ in ("DefA", "DefB") and o.name == parts[-1]:
                pk, p = [], getattr(o, "parent", None)
                while p is not None:
                    if type(p).__name__ == "Pkg":
                        pk.append(p.name)
                    p = getattr(p, "parent", None)
                want = list(reversed(parts[:-1]))
                if pk[:len(want)] == want:
                    found.append(o)
        return found

    class Sched(sp.ImportURI):
        """Resolves a (qualified) name in the model of the reference and in the models it imports;
        postpones as the schedule says.  Where a name is ambiguous (definitions may share names) the
        environment decides: the scenario says which definition the reference means."""

        def __init__(self):
            super().__init__(lambda *a: None)

        def load_models(self, model, encoding="utf-8"):
            ctx.models.append(model)          # called once for every model right after its construction
            return super().load_models(model, encoding=encoding)

        def __call__(self, obj, attr, obj_ref):
            model = get_model(obj)
            key = (_file_no(ctx, model), obj_ref.position)
            k = ctx.refkey.get(key)
            if k is not None:
                n = ctx.attempts.get(k, 0)
                ctx.attempts[k] = n + 1
                if n < ctx.case["refs"][k]["sched"]:
                    ctx.resolution.append((key[0], k, "postponed"))
                    return Postponed()
                ctx.resolution.append((key[0], k, "resolved"))
            parts = obj_ref.obj_name.split(".")
            found = candidates(model, parts)
            for m in model._tx_model_repository.local_models:
                found += candidates(m, parts)
            if len(found) > 1 and k is not None:
                want = ctx.case["objs"][ctx.case["refs"][k]["target"] - 1]["path"]
                found = [o for o in found if obj_path(ctx, o) == want]
            return found[0] if len(found) == 1 else None
    return Sched()


class _Poison:
    """What the caller's dict is filled with after it was registered: must never be called."""

    def __init__(self, ctx, rule):
        self.ctx, self.rule = ctx, rule

    def __call__(self, obj):
        self.ctx.calls.append(dict(obj=0, rule="FOREIGN:" + self.rule, linked=False, inited=False))
        return None


def load(case, workdir, procs=(), repl=(), fault=None, user=False, tools=False, replk=None, grammar_file=False,
         procs2=(), repl2=(), replk2=None):
    """Load the rendered case with the real textX.  Returns an observation dict."""
    import textx.registration as reg
    from textx import textxerror_wrap
    from textx.exceptions import TextXError
    ctx = Ctx(case, fault, user)
    _CUR[0] = ctx
    lang = list(case.get("lang") or [1] * len(case["files"]))
    gdir = workdir if grammar_file else None
    fresh = bool(user and fault and fault["on"])      # a failing load may leave user classes instrumented
    mms = {1: _metamodel(user, tools, fresh, gdir, 1)}
    if 2 in lang:
        mms[2] = _metamodel(user, tools, fresh, gdir, 2)
    provider = _provider(ctx)
    flang = lang[case["objs"][fault["obj"] - 1]["file"] - 1] if fault and fault["on"] and fault["proc"] == "obj" \
        else lang[fault["mfile"] - 1] if fault and fault["on"] else 1
    for ln, mm in mms.items():
        mm.register_scope_providers({"*.*": provider})
        pr, rp, rk = (procs, repl, replk) if ln == 1 else (procs2, repl2, replk2)
        kinds = dict(zip(rp, rk or ["str"] * len(rp)))
        table = {}
        for r in pr:
            p = _obj_processor(ctx, r, kinds.get(r))
            if fault and fault["on"] and fault["wrap"] and fault["proc"] == "obj" and fault["rule"] == r and ln == flang:
                p = textxerror_wrap(p)
            table[r] = p
        if fault and fault["on"] and fault["proc"] == "match" and ln == flang:
            p = _match_processor(ctx, fault["rule"])
            table[fault["rule"]] = textxerror_wrap(p) if fault["wrap"] else p
        mm.register_obj_processors(table)
        # what was registered is what counts: the caller's dict is recycled afterwards
        for r in list(table) + [x for x in RULES if x not in table]:
            if r not in ("ID", "QName", "Tag"):
                table[r] = _Poison(ctx, r)
            else:
                del table[r]
    files = case["files"]
    for k, name in enumerate(files, 1):
        if name:
            ctx.file_index[name] = k
    obs = dict(ok=True, err=None, calls=ctx.calls)
    model = None
    try:
        if 2 in mms:
            reg.clear_language_registrations()
            reg.register_language(reg.LanguageDesc("vtcarrier2", pattern="*.m2", metamodel=mms[2]))
        if files[0]:
            for k, name in enumerate(files, 1):
                with open(os.path.join(workdir, name), "w") as f:
                    f.write(case["texts"][k])
            model = mms[1].model_from_file(os.path.join(workdir, files[0]))
        else:
            model = mms[1].model_from_str(case["texts"][1])
    except Exception as e:  # the error is the observation
        obs["ok"] = False
        if isinstance(e, TextXError):
            fn = e.filename
            obs["err"] = dict(cls="TextXError",
                              filename=NONE_FILE if fn is None else os.path.basename(fn) if fn else fn,
                              line=NONE_NUM if e.line is None else e.line,
                              col=NONE_NUM if e.col is None else e.col,
                              nchar=NONE_NUM if e.nchar is None else e.nchar)
        else:
            obs["err"] = dict(cls="Other", filename=NONE_FILE, line=NONE_NUM, col=NONE_NUM, nchar=NONE_NUM)
            obs["exc"] = f"{type(e).__name__}: {e}"
    finally:
        if 2 in mms:
            reg.clear_language_registrations()
    obs["resolution"] = ctx.resolution
    if model is not None:
        models = {_file_no(ctx, m): m for m in all_models(model)}
        obs["final"] = project_final(ctx, models)
        if tools:
            obs["xrefs"] = [[dict(start=x.ref_pos_start, end=x.ref_pos_end,
                                  dfile=os.path.basename(x.def_file_name) if x.def_file_name else "",
                                  dstart=x.def_pos_start, dend=x.def_pos_end)
                             for x in models[f]._pos_crossref_list] for f in sorted(models)]
            obs["rdict"] = [[dict(start=k[0], end=k[1], obj=ctx.path2id.get(obj_path(ctx, v), 0))
                             for k, v in models[f]._pos_rule_dict.items()] for f in sorted(models)]
    return obs


def _item(x):
    """A replacement value in the vocabulary of the module."""
    if isinstance(x, str) and x.startswith("r:"):
        return x
    for k, v in FALSY.items():
        if type(x) is type(v) and x == v:
            return "f:" + k
    return "?" + repr(x)


def project_final(ctx, models):
    """[reach, slots] per scenario object: what the containment attributes hold after the load."""
    objs = ctx.case["objs"]
    out = [dict(reach=False, slots=[]) for _ in objs]

    def visit(o, path):
        oid = ctx.path2id.get(path)
        if oid is None:
            return
        slots = []
        for name, many, _ in SLOTS[type(o).__name__]:
            v = getattr(o, name, None)
            vals = list(v or []) if many else ([] if v is None else [v])
            items = []
            for k, x in enumerate(vals):
                step = f"{name}.{k}" if many else name
                cpath = path + ("" if path.endswith(":") else "/") + step
                pid = ctx.path2id.get(cpath, 0)
                if _is_obj(x):
                    items.append("o" + str(pid))
                    visit(x, cpath)
                elif pid and ctx.case["objs"][pid - 1]["kind"] == "Plain" and not isinstance(x, bool) and \
                        (type(x).__name__, x) == (type(plain_value(ctx.case["objs"][pid - 1])).__name__,
                                                  plain_value(ctx.case["objs"][pid - 1])):
                    items.append("o" + str(pid))           # the plain value itself, untouched
                    out[pid - 1] = dict(reach=True, slots=[])
                else:
                    items.append(_item(x))
            slots.append(items)
        out[oid - 1] = dict(reach=True, slots=slots)

    for f, m in models.items():
        visit(m, f"{f}:")
    return out


# ---------------------------------------------------------------------------------- scenarios
def mc_env(family, max_objs, max_files, max_refs, max_postpone, dev="", emit=False, full_tables=3):
    """Environment of every MC_LoaderProc configuration (the bounds are read through IOEnv)."""
    return dict(VT_DEV=dev, VT_FAMILY=family, VT_MAXOBJS=max_objs, VT_MAXFILES=max_files, VT_MAXREFS=max_refs,
                VT_MAXPOSTPONE=max_postpone, VT_EMIT="1" if emit else "0", VT_FULLTABLES=full_tables)


def emit_shapes(tlc, max_objs, max_files=2, max_refs=2):
    """The shape universe of MC_LoaderProc (TLC enumerates it; one SCEN line per shape)."""
    env = mc_env("shapes", max_objs, max_files, max_refs, 0)
    r = tlc.model_check("MC_LoaderProc", cfg="MC_LoaderProc_Emit.cfg", env=env, workers=1, timeout=3000)
    tlc.require_ok(r, "shape emission")
    return r, r.results("SCEN")


def emit_family(tlc, family, max_objs, max_files, max_refs, max_postpone):
    env = mc_env(family, max_objs, max_files, max_refs, max_postpone)
    r = tlc.model_check("MC_LoaderProc", cfg="MC_LoaderProc_Emit.cfg", env=env, workers=1, timeout=3000)
    tlc.require_ok(r, f"scenario emission {family}")
    return r, r.results("SCEN")


def random_scenario(rng, max_objs=12, nfiles=1, max_refs=6, max_postpone=2):
    """A bigger forest than TLC enumerates, same well-formedness rules as MC_LoaderProc.Complete."""
    objs = []
    limit = [max_objs]

    def add(kind, parent, slot, file):
        objs.append(dict(kind=kind, parent=parent, slot=slot, file=file, hdr=True, nref=0))
        return len(objs)

    def budget():
        return limit[0] - len(objs)

    def fill_elems(i, file, depth):
        k = rng.choice([0, 1, 2, 2, 3, 4]) if depth < 3 else rng.choice([0, 1])
        for _ in range(k):
            if budget() <= 2:
                break
            kind = rng.choice(["Pkg", "Pkg", "Grp", "Box", "Slot", "DefA", "DefB", "Use", "UseList", "DefB", "Use",
                               "Slot", "Bag"])
            if kind == "Pkg" and depth >= 3:
                kind = "DefA"
            c = add(kind, i, "elems", file)
            grow(c, file, depth + 1)

    def grow(i, file, depth):
        kind = objs[i - 1]["kind"]
        if kind == "Pkg":
            if rng.random() < 0.4 and budget() > 2:
                add("DefB", i, "head", file)
            if rng.random() < 0.7 and budget() > 3:
                for _ in range(rng.choice([1, 1, 2])):
                    add(rng.choice(["DefA", "DefB"]), i, "defs", file)
            fill_elems(i, file, depth)
            if rng.random() < 0.3 and budget() > 1:
                add("Note", i, "note", file)
        elif kind == "Grp":
            for _ in range(rng.choice([1, 2, 3])):
                add(rng.choice(["DefA", "DefB"]), i, "items", file)
        elif kind == "Box":
            add("Cell", i, "inner", file)
        elif kind == "Slot":
            add(rng.choice(["Plain", "Plain", "Cell"]), i, "val", file)
        elif kind == "Bag":
            for _ in range(rng.choice([1, 2, 3])):
                add(rng.choice(["Plain", "Plain", "Cell"]), i, "vals", file)

    for f in range(1, nfiles + 1):
        limit[0] = max(len(objs) + 3, max_objs * f // nfiles)
        root = add("Model", 0, "", f)
        objs[root - 1]["hdr"] = rng.random() < 0.5
        if f == 1:
            for _ in range(nfiles - 1):
                add("Import", root, "imports", f)
        if rng.random() < 0.4:
            add(rng.choice(["DefA", "DefB"]), root, "first", f)
        if rng.random() < 0.25:
            grow(add("Pkg", root, "root", f), f, 1)
        fill_elems(root, f, 0)
        if f > 1 and rng.random() < 0.7:       # imported models with several (postponable) references
            for _ in range(rng.choice([2, 3])):
                add("Use", root, "elems", f)
        add("DefB", root, "elems", f)          # every file can be referred to
    n = len(objs)

    def pkgdepth(t):
        d, p = 0, objs[t - 1]["parent"]
        while p:
            d += objs[p - 1]["kind"] == "Pkg"
            p = objs[p - 1]["parent"]
        return d

    refs, left = [], max_refs
    for i, o in enumerate(objs, 1):
        want = {"Use": [1], "UseList": [1, 2, 3], "DefA": [0, 0, 1, 2]}.get(o["kind"], [0])
        k = rng.choice(want)
        if o["kind"] in ("Use", "UseList"):
            k = max(1, k)
        o["nref"] = k
        vis = [t for t in range(1, n + 1) if objs[t - 1]["kind"] in ("DefA", "DefB")
               and (objs[t - 1]["file"] == o["file"] or o["file"] == 1)]
        deep = [t for t in vis if pkgdepth(t) >= 1]
        for _ in range(k):
            t = rng.choice(deep) if deep and rng.random() < 0.6 else rng.choice(vis)
            most = min(3, 1 + pkgdepth(t))
            parts = most if rng.random() < 0.5 else rng.randint(1, most)      # qualified names are frequent
            refs.append(dict(owner=i, target=t, parts=parts, sched=rng.randint(0, max_postpone)))
    # every round must resolve something: make the used schedule values contiguous from 0
    used = sorted({r["sched"] for r in refs})
    rank = {v: k for k, v in enumerate(used)}
    for r in refs:
        r["sched"] = rank[r["sched"]]
    return dict(objs=objs, refs=refs, files=["main.m"])


def qualified_templates():
    """Small fixed forests whose references are written with 2 and 3 part names (composite matches)."""
    def o(kind, parent, slot, nref=0, hdr=True, file=1):
        return dict(kind=kind, parent=parent, slot=slot, file=file, hdr=hdr, nref=nref)
    t1 = dict(objs=[o("Model", 0, "", hdr=False), o("Pkg", 1, "elems"), o("DefB", 2, "elems"), o("Use", 1, "elems", 1)],
              refs=[dict(owner=4, target=3, parts=2, sched=0)], files=["main.m"])
    t2 = dict(objs=[o("Model", 0, ""), o("Pkg", 1, "elems"), o("Pkg", 2, "elems"), o("DefA", 3, "defs"),
                    o("UseList", 1, "elems", 2)],
              refs=[dict(owner=5, target=4, parts=3, sched=0), dict(owner=5, target=4, parts=2, sched=0)],
              files=["main.m"])
    t3 = dict(objs=[o("Model", 0, "", hdr=False), o("Import", 1, "imports"), o("Pkg", 1, "elems"), o("DefB", 3, "head"),
                    o("DefA", 3, "elems", 1), o("Model", 0, "", file=2), o("Pkg", 6, "elems", file=2),
                    o("DefB", 7, "elems", file=2), o("Use", 6, "elems", 1, file=2)],
              refs=[dict(owner=5, target=8, parts=2, sched=0), dict(owner=9, target=8, parts=2, sched=0)],
              files=["main.m"])
    return [t1, t2, t3]


def recursive_templates():
    """Fixed forests with packages nested two and three deep, entered through the attribute typed with
    the concrete rule Pkg (Model.root) and through the abstract Elem, with notes after the recursive
    attribute: the shapes on which registering processors for only some rules matters."""
    def o(kind, parent, slot, nref=0, hdr=True, file=1):
        return dict(kind=kind, parent=parent, slot=slot, file=file, hdr=hdr, nref=nref)
    t1 = dict(objs=[o("Model", 0, "", hdr=False), o("Pkg", 1, "root"), o("Pkg", 2, "elems"), o("Pkg", 3, "elems"),
                    o("Note", 4, "note"), o("Note", 3, "note"), o("Note", 2, "note"),
                    o("Pkg", 1, "elems"), o("Pkg", 8, "elems"), o("Cell", 0, "inner"), o("Note", 9, "note"),
                    o("Note", 8, "note")],
              refs=[], files=["main.m"])
    # fix the Box/Cell pair (a Cell needs its Box)
    t1["objs"][9] = o("Box", 9, "elems")
    t1["objs"].insert(10, o("Cell", 10, "inner"))
    t1["objs"][11]["parent"], t1["objs"][12]["parent"] = 9, 8
    t2 = dict(objs=[o("Model", 0, ""), o("Pkg", 1, "elems"), o("DefB", 2, "head"), o("Pkg", 2, "elems"),
                    o("DefA", 4, "defs"), o("Slot", 4, "elems"), o("Plain", 6, "val"), o("Note", 4, "note"),
                    o("Use", 2, "elems", 1), o("Note", 2, "note")],
              refs=[dict(owner=9, target=5, parts=2, sched=0)], files=["main.m"])
    return [t1, t2]


def relevant_rules(scn):
    out = []
    objs = scn["objs"]
    for o in objs:
        decl = o["kind"] if o["parent"] == 0 else \
            dict((s[0], s[2]) for s in SLOTS[objs[o["parent"] - 1]["kind"]])[o["slot"]]
        for r in (o["kind"], decl):
            if r not in out and r != "Plain":
                out.append(r)
    return out
