"""Driver for multi-file model loading (spec/LoaderRepo.tla; properties C17 C18 C27 C28).

A *scenario* is the JSON-shaped record described at the top of LoaderRepo.tla.
This module
  * renders a scenario as a directory of model files (layout of LoaderRepo!LineLens),
  * runs the scenario's session against the real textX (providers, global
    repository, builtin models, model parameters, failing processors),
  * projects what it observes after every top-level load onto the module's
    `Summary` (result, repositories, identities by stable labels, opens, params),
  * records the observable events of each load (trace vocabulary of Appendix C),
  * runs TLC: family enumeration, expected outcomes (OUT lines), trace validation.
It contains no loader semantics: what is expected always comes out of TLC.
"""
from __future__ import annotations

import builtins
import json
import os
import shutil
from concurrent.futures import ThreadPoolExecutor

from .. import common, tlc

NONE = "<none>"
BUILTIN = {"f": "<builtin>", "a": 0}
KINDS = ["plain_uri", "fqn_uri", "plain_search", "rrel", "plain_glob", "fqn_glob"]
GLOB_KINDS = ("plain_glob", "fqn_glob")

GRAMMAR = r"""
Model:   imports*=Import elems*=Elem;
Import:  'import' importURI=STRING;
Elem:    Def | UseList | Use;
Def:     'def' name=ID;
Use:     'use' ref=[Def:QName];
UseList: 'refs' refs+=[Def:QName][','];
QName:   ID('.'ID)*;
Comment: /\/\*(.|\n)*?\*\//;
"""
GRAMMAR_RREL = GRAMMAR.replace("[Def:QName]", "[Def:QName|+m:elems]")
# parameter values: the module speaks of names; which values they carry is rendering
PARAM_VALUES = {"std": {"p": 1, "q": "v", "zzz": 0},
                "none": {"p": None, "q": None, "zzz": None},
                "falsy": {"p": 0, "q": "", "zzz": False}}
# forms of the value given for the built-in project_root (same directory every time)
ROOT_FORMS = ("trail", "dotdot", "rel")
# characters a comment in front of an item may be made of (never a line feed / carriage return)
DECO_CHARS = {"ascii": "xy", "ff": "x\x0c", "vt": "x\x0b", "nel": "x\x85", "ls": "x\u2028", "ps": "x\u2029",
              "fs": "\x1cx\x1e", "nfd": "e\u0301"}


def variants(sc):
    """Rendering choices the module does not speak about, fixed by the scenario's content:
    the directory is reached through a symbolic link, the root rule is backed by a user
    class, which characters the comments consist of."""
    d = int(common.digest({k: v for k, v in sc.items() if k != "id"}), 16)
    kinds = sorted(DECO_CHARS)
    return {"link": bool(d & 1), "uc": bool((d >> 1) & 1), "dk": kinds[(d >> 2) % len(kinds)]}


def deco_text(n, dk):
    """a comment and a blank of together n characters"""
    if n == 0:
        return ""
    if n < 6:
        raise tlc.MachineryError("decoration shorter than 6 characters")
    unit = DECO_CHARS[dk]
    body = (unit * n)[:n - 5]
    if dk == "nfd" and body.endswith("e"):
        body = body[:-1] + "x"
    return "/*" + body + "*/ "

GLOB_PATTERN = "*.m?"
LANG_PATTERN = {"A": "*.?a", "B": "*.?b"}


class InjectedFailure(Exception):
    """Raised by the harness's object / model processors (fault phases objproc, modelproc)."""

    def __init__(self, phase, file):
        super().__init__(f"{phase} {file}")
        self.phase, self.file = phase, file


# ----------------------------------------------------------------------------- rendering
def file_name(sc, f):
    """x.<m|n><a|b>: m = matched by the glob pattern, a/b = language (file pattern of the language)"""
    return f + "." + ("m" if f in sc["glob"] else "n") + sc["lang"][f].lower()


def file_key(path):
    base = os.path.basename(str(path))
    return base[:-3] if len(base) == 4 and base[1] == "." else base


def content(sc, f, fault_on):
    """Items of file f while the scenario's fault is (not) present: the abstract file system."""
    defs, uses, lrefs, broken = list(sc["defs"][f]), list(sc["refs"][f]), list(sc["lrefs"][f]), False
    fl = sc["fault"]
    if fault_on and fl["file"] == f:
        k = fl["kind"]
        bad = lrefs if fl.get("at") == "list" else uses
        if k == "objproc":
            defs.append("bado")
        elif k == "modelproc":
            defs.append("badm")
        elif k == "notunique":
            defs.append(defs[0])
        elif k == "unknown":
            bad.append("nope")
        elif k == "postponed":
            bad.append("pp")
        elif k == "syntax":
            broken = True
    return defs, uses, lrefs, broken


def builtin_text(sc):
    names = list(sc["builtin"])
    if sc["fault"]["kind"] == "notunique" and sc["fault"]["file"] == "<builtin>":
        names.append(names[0])
    return "".join(f"def {n}\n" for n in names)


def render(sc, f, fault_on):
    defs, uses, lrefs, broken = content(sc, f, fault_on)
    deco = deco_text(sc["deco"][f], variants(sc)["dk"])
    if len(deco) != sc["deco"][f] or "\n" in deco or "\r" in deco:
        raise tlc.MachineryError("decoration has not the length the module assumes")
    ind = " " * sc["ind"][f] + deco
    lines = [""] * sc["pad"][f]
    for s in sc["imports"][f]:
        target = GLOB_PATTERN if s == "*" else file_name(sc, s)
        lines.append(f'{ind}import "{target}"')
    lines += [f"{ind}def {n}" for n in defs]
    lines += [f"{ind}use {n}" for n in uses]
    if lrefs:
        lines.append(f"{ind}refs " + ", ".join(lrefs))
    if broken:
        lines.append(f"{ind}@@")
    for ln in lines:                       # renderer self-check: the layout the module assumes
        if ln and not (ln.startswith(ind) and not ln[len(ind):].startswith(" ")):
            raise tlc.MachineryError("renderer produced an unexpected line")
        if "import" in ln and len(ln) != sc["ind"][f] + sc["deco"][f] + 13:
            raise tlc.MachineryError("import line is not 13 characters long")
    return "".join(ln + "\n" for ln in lines)


# ----------------------------------------------------------------------------- running
class Session:
    """The metamodels of the scenario's languages, one scratch directory, the session step by step."""

    def __init__(self, sc, root):
        import textx
        import textx.metamodel
        import textx.model
        import textx.scoping.providers as sp
        from textx.scoping import GlobalModelRepository, ModelLoader, ModelRepository, Postponed

        self.sc = sc
        self.var = variants(sc)
        if self.var["link"]:               # the directory is reached through a symbolic link
            os.makedirs(os.path.join(root, "real"), exist_ok=True)
            os.symlink(os.path.join(root, "real"), os.path.join(root, "ln"))
            root = os.path.join(root, "ln")
        self.root = root
        self.textx = textx
        self.lib = os.path.join(root, "lib") if sc["kind"] == "plain_search" else root
        os.makedirs(self.lib, exist_ok=True)
        os.makedirs(os.path.join(root, "sub"), exist_ok=True)
        self.fault_on = True
        self.events = []
        self.hist = []
        self.opens = {}
        self.labels = {}        # id(model) -> label
        self.by_label = {}      # (file, attempt) -> model
        self.keep = []
        self.attempt = 0
        self.hist_ops = []
        self._last_objproc = None
        kind = sc["kind"]
        builtin = None
        if sc["builtin"]:
            bmm = textx.metamodel_from_str(GRAMMAR)
            bm = bmm.model_from_str(builtin_text(sc))
            builtin = ModelRepository()
            builtin.add_model(bm)
            self.labels[id(bm)] = BUILTIN
            self.keep.append(bm)
        langs = sorted(set(sc["lang"].values()))
        rids = [sc["repo"][lg] for lg in langs if sc["repo"][lg] != "-"]
        shared = {r: GlobalModelRepository() for r in set(rids) if rids.count(r) > 1}

        class Postponing(ModelLoader):
            """user-level provider: postpones the name `pp` for ever, delegates otherwise"""

            def __init__(self, inner):
                self.inner = inner

            def load_models(self, model, encoding="utf-8"):
                return self.inner.load_models(model, encoding=encoding)

            def __call__(self, obj, attr, obj_ref):
                if obj_ref.obj_name == "pp":
                    return Postponed()
                return self.inner(obj, attr, obj_ref)

        def model_proc(model, _mm):
            f = self.file_key(model)
            self.events.append({"e": "ModelProc", "file": f})
            self.label(model)
            if any(getattr(e, "name", None) == "badm" for e in model.elems):
                raise InjectedFailure("modelproc", f)

        def def_proc(obj):
            from textx import get_model
            m = get_model(obj)
            if self._last_objproc is not m:
                self._last_objproc = m
                self.events.append({"e": "ObjProc", "file": self.file_key(m)})
            if obj.name == "bado":
                raise InjectedFailure("objproc", self.file_key(m))

        self.mms, self.provs, self.repo_of = {}, {}, {}
        pattern = os.path.join(root, GLOB_PATTERN)
        for lg in langs:
            kw = {}
            if builtin is not None:
                kw["builtin_models"] = builtin
            rid = sc["repo"][lg]
            if rid != "-":
                kw["global_repository"] = shared.get(rid, True)
            if self.var["uc"]:               # the root rule is backed by a user class
                class Model:
                    def __init__(self, imports, elems):
                        self.imports, self.elems = imports, elems

                kw["classes"] = [Model]
            mm = textx.metamodel_from_str(GRAMMAR_RREL if kind == "rrel" else GRAMMAR, **kw)
            for p in sc["declared"][lg]:
                mm.model_param_defs.add(p, "harness parameter " + p)
            if kind == "plain_uri":
                prov = sp.PlainNameImportURI()
            elif kind == "fqn_uri":
                prov = sp.FQNImportURI()
            elif kind == "plain_search":
                prov = sp.PlainNameImportURI(search_path=[root, self.lib])
            elif kind == "plain_glob":
                prov = sp.PlainNameGlobalRepo(pattern)
            elif kind == "fqn_glob":
                prov = sp.FQNGlobalRepo(pattern)
            elif kind == "rrel":
                prov = None
            else:
                raise tlc.MachineryError("unknown provider kind " + kind)
            if prov is not None:
                mm.register_scope_providers({"*.*": Postponing(prov)})
            mm.register_model_processor(model_proc)
            mm.register_obj_processors({"Def": def_proc})
            self.mms[lg], self.provs[lg] = mm, prov
            if rid != "-":
                self.repo_of.setdefault(rid, mm._tx_model_repository)
        self.app_repo = None
        if any(op.get("how") == "app" for op in sc["session"]):
            self.app_repo = GlobalModelRepository()        # owned by the application
            self.repo_of["app"] = self.app_repo
        self.sp = sp
        self.registered = len(langs) > 1 or self.app_repo is not None
        if self.registered:                 # file dispatch through the language registry
            textx.clear_language_registrations()
            for lg in langs:
                textx.register_language("vt-lang-" + lg.lower(), pattern=LANG_PATTERN[lg],
                                        description="harness language " + lg, metamodel=self.mms[lg])

        def counting_open(file, *a, **k):
            key = file_key(file)
            self.opens[key] = self.opens.get(key, 0) + 1
            self.events.append({"e": "Open", "file": key})
            return builtins.open(file, *a, **k)

        self._mods = [textx.metamodel, textx.model]
        self._saved = [m.__dict__.get("open", None) for m in self._mods]
        for m in self._mods:
            m.open = counting_open
        self.write_files()

    def close(self):
        for m, s in zip(self._mods, self._saved):
            if s is None:
                try:
                    del m.open
                except AttributeError:
                    pass
            else:
                m.open = s
        if self.registered:
            self.textx.clear_language_registrations()

    # ---- file system
    def path(self, f):
        d = self.root if (f == "a" or self.sc["kind"] != "plain_search") else self.lib
        return os.path.join(d, file_name(self.sc, f))

    def write_files(self):
        for f in self.sc["files"]:
            with builtins.open(self.path(f), "w", encoding="utf-8", newline="") as fh:
                fh.write(render(self.sc, f, self.fault_on))

    # ---- naming
    def file_key(self, model):
        fn = getattr(model, "_tx_filename", None)
        if not fn:
            return self.labels[id(model)]["f"] if id(model) in self.labels else "~"
        return file_key(fn)

    def label(self, model):
        lb = self.labels.get(id(model))
        if lb is not None:
            return lb
        f = self.file_key(model)
        n, key = 1, (f, self.attempt)
        while key in self.by_label:            # a second object for the same file in one load
            n += 1
            key = (f"{f}#{n}", self.attempt)
        lb = {"f": key[0], "a": self.attempt}
        self.by_label[key] = model
        self.labels[id(model)] = lb
        self.keep.append(model)
        return lb

    def repo_key(self, k, model=None):
        """key of a repository entry; the invented keys anonymous<N> are named after the model"""
        if str(k).startswith("anonymous") and model is not None:
            return "~" + str(self.label(model)["a"])
        return file_key(k)

    # ---- one top-level load
    def load(self, op):
        sc = self.sc
        mm = self.mms[sc["lang"][op["file"]]]
        self.attempt = len(self.hist_ops) + 1
        self.opens = {}
        self._last_objproc = None
        self.events.append({"e": "LoadBegin", "file": op["file"]})
        vals = op.get("vals", "std")
        form = {"trail": self.root + os.sep, "dotdot": os.path.join(self.root, "sub", ".."),
                "rel": os.path.basename(self.root)}.get(vals, self.root)
        kwargs = {}
        for p in op["given"]:
            kwargs[p] = form if p == "project_root" else PARAM_VALUES[vals if vals in PARAM_VALUES else "std"][p]
        self.cur_values = kwargs
        cwd = os.getcwd()
        if vals == "rel":
            os.chdir(os.path.dirname(self.root))
        if sc["kind"] in GLOB_KINDS:
            # with project_root the pattern is relative to it, otherwise absolute (same files)
            pat = GLOB_PATTERN if "project_root" in op["given"] else os.path.join(self.root, GLOB_PATTERN)
            for prov in self.provs.values():
                prov.filename_pattern_list = [pat]
        path = self.path(op["file"])
        model, err = None, None
        try:
            if op["how"] == "file":
                model = mm.model_from_file(path, **kwargs)
            elif op["how"] == "app":
                # the application loads the file into its own repository
                self.sp.PlainNameGlobalRepo(path).load_models_in_model_repo(self.app_repo, **kwargs)
                model = self.app_repo.all_models.filename_to_model[os.path.abspath(path)]
            else:
                text = render(sc, op["file"], self.fault_on)
                if op["how"] == "strfile":
                    model = mm.model_from_str(text, file_name=path, **kwargs)
                else:
                    model = mm.model_from_str(text, **kwargs)
        except BaseException as e:  # noqa: BLE001 -- whatever the loader raises is the observation
            if isinstance(e, (KeyboardInterrupt, SystemExit, tlc.MachineryError)):
                raise
            err = e
        finally:
            os.chdir(cwd)
        s = self.summary(op, model, err)
        self.events.append(dict(s, e="LoadEnd"))
        self.hist.append(s)

    def classify(self, e):
        from textx.exceptions import TextXError, TextXSemanticError, TextXSyntaxError
        msg = str(getattr(e, "message", e))
        if isinstance(e, InjectedFailure):
            kind = e.phase
        elif isinstance(e, TextXSyntaxError):
            kind = "syntax"
        elif isinstance(e, TextXSemanticError) and msg.startswith("Unknown object"):
            kind = "unknown"
        elif isinstance(e, TextXSemanticError) and msg.startswith("Unresolvable cross references"):
            kind = "unresolvable"
        elif isinstance(e, TextXSemanticError) and msg.endswith("is not unique."):
            kind = "notunique"
        elif isinstance(e, TextXError) and msg.startswith("unknown parameter"):
            kind = "params"
        else:
            kind = "other:" + type(e).__name__
        fn = getattr(e, "filename", None)
        line, col = getattr(e, "line", None), getattr(e, "col", None)
        if kind in ("objproc", "modelproc"):
            fn, line, col = None, None, None
        return {"ok": False, "kind": kind, "file": file_key(fn) if fn else NONE,
                "line": int(line or 0), "col": int(col or 0), "model": {"f": "-", "a": 0}}

    def param_names(self, m):
        """names a model exposes; a name whose value is not the given one is marked"""
        mp = getattr(m, "_tx_model_params", None)
        if mp is None:
            return ["!missing"]
        created_now = self.labels[id(m)]["a"] == self.attempt
        out = []
        for name in sorted(mp):
            if created_now and name in self.cur_values:
                want, got = self.cur_values[name], mp[name]
                same = got is want or (type(got) is type(want) and got == want)
                out.append(name if same else f"{name}=!{got!r}")
            else:
                out.append(name)
        return out

    def summary(self, op, model, err):
        from textx import get_model
        if err is None:
            res = {"ok": True, "kind": "ok", "file": NONE, "line": 0, "col": 0, "model": self.label(model)}
        else:
            res = self.classify(err)
        grepo = []
        for rid, repo in sorted(self.repo_of.items()):
            for k, m in repo.all_models.filename_to_model.items():
                grepo.append({"r": rid, "f": self.repo_key(k, m), "m": self.label(m)})
        incl, local, params, tg = [], [], [], []
        if err is None:
            models = []
            # the repository of the load: the application's, or the one the returned model refers to
            load_repo = self.app_repo if op["how"] == "app" else getattr(model, "_tx_model_repository", None)
            if load_repo is not None:
                for k, m in load_repo.all_models.filename_to_model.items():
                    models.append(m)
                    lb = self.label(m)
                    want = "~" + str(lb["a"]) if lb["f"] == "~" else lb["f"]
                    if self.repo_key(k, m) != want:
                        incl.append({"f": "!key:" + self.repo_key(k, m), "a": 0})
            if not any(m is model for m in models):
                models.append(model)
            for m in models:
                lb = self.label(m)
                incl.append(lb)
                fs = []
                if hasattr(m, "_tx_model_repository"):
                    allm = m._tx_model_repository.all_models.filename_to_model
                    for k, lm in m._tx_model_repository.local_models.filename_to_model.items():
                        same = k in allm and allm[k] is lm
                        fs.append(self.repo_key(k, lm) if same else "!notshared:" + self.repo_key(k, lm))
                local.append({"m": lb, "fs": sorted(fs)})
                params.append({"m": lb, "ps": self.param_names(m)})
                elems = getattr(m, "elems", None)
                if elems is None:              # a half-built model: that is the observation
                    tg.append({"m": lb, "i": 0, "to": {"m": {"f": "!no-elems", "a": 0}, "i": 0}})
                    continue
                refs = [(el, "ref", None) for el in elems if el.__class__.__name__ == "Use"]
                for el in elems:
                    if el.__class__.__name__ == "UseList":
                        refs += [(el, "refs", j) for j in range(len(getattr(el, "refs", None) or []))]
                for i, (el, attr, j) in enumerate(refs, 1):
                    try:                       # whatever is found there is the observation
                        t = getattr(el, attr) if j is None else getattr(el, attr)[j]
                        tm = get_model(t)
                        tl = self.labels.get(id(tm)) or self.label(tm)
                        idx = [x for x in tm.elems if x.__class__.__name__ == "Def"].index(t) + 1
                    except Exception as e:  # noqa: BLE001
                        tl, idx = {"f": "!" + type(e).__name__, "a": 0}, 0
                    tg.append({"m": lb, "i": i, "to": {"m": tl, "i": idx}})
        opens = [{"f": f, "n": n} for f, n in sorted(self.opens.items())]
        return {"res": res, "grepo": grepo, "incl": incl, "local": local, "opens": opens,
                "params": params, "tg": tg}

    def run(self):
        for op in self.sc["session"]:
            if op["op"] == "repair":
                self.fault_on = False
                self.write_files()
                self.events.append({"e": "Repair"})
            elif op["op"] == "declare":
                for name in op["given"]:
                    self.mms[op["file"]].model_param_defs.add(name, "declared later: " + name)
                self.events.append({"e": "Declare"})
            else:
                self.load(op)
            self.hist_ops.append(op)
        return self.hist, self.events


def run_scenario(sc, work=None):
    """Execute the scenario's session on the real code: (summaries per load, events)."""
    own = work is None
    root = tlc.scratch("vt-mf-") if own else work
    cwd = os.getcwd()
    s = None
    try:
        if not own:
            for n in os.listdir(root):
                p = os.path.join(root, n)
                shutil.rmtree(p) if os.path.isdir(p) and not os.path.islink(p) else os.remove(p)
        s = Session(sc, root)
        return s.run()
    finally:
        if s is not None:
            s.close()
        os.chdir(cwd)
        if own:
            shutil.rmtree(root, ignore_errors=True)


# ----------------------------------------------------------------------------- comparison
def _k(x):
    return common.canon(x)


def norm_summary(s, observed):
    """Canonical form of one summary (TLC prints sets in arbitrary order)."""
    out = {"res": s["res"],
           "grepo": sorted(s["grepo"], key=_k),
           "incl": sorted(s["incl"], key=_k),
           "local": sorted(({"m": x["m"], "fs": sorted(x["fs"])} for x in s["local"]), key=_k),
           "opens": sorted(s["opens"], key=_k),
           "params": sorted(s["params"], key=_k)}
    if observed:
        out["tg"] = {_k([x["m"], x["i"]]): x["to"] for x in s["tg"]}
    else:
        out["tg"] = {_k([x["m"], x["i"]]): sorted(x["to"], key=_k) for x in s["tg"]}
    return out


def summary_matches(obs, exp):
    """obs: normalised observed summary; exp: normalised summary printed by TLC.
    Equal in every field; a reference target must be one of the targets the module allows."""
    for k in ("res", "grepo", "incl", "local", "opens", "params"):
        if _k(obs[k]) != _k(exp[k]):
            return False, k
    if set(obs["tg"]) != set(exp["tg"]):
        return False, "tg"
    for key, to in obs["tg"].items():
        if _k(to) not in {_k(t) for t in exp["tg"][key]}:
            return False, "tg"
    return True, None


def hist_matches(obs_hist, exp_hist):
    if len(obs_hist) != len(exp_hist):
        return False, "length"
    for i, (o, e) in enumerate(zip(obs_hist, exp_hist)):
        ok, why = summary_matches(norm_summary(o, True), norm_summary(e, False))
        if not ok:
            return False, f"load {i + 1}: {why}"
    return True, None


def judge_scenario(rep, sc, obs_hist, outs, findings, nontrivial, case_extra=None):
    """outs: [{dev: [...], hist: [...]}] allowed by the module for this scenario.
    pass if some behaviour with dev = {} matches; KNOWN-FINDING if only behaviours with
    listed clauses match (smallest set); VIOLATION otherwise."""
    best, whys = None, []
    for o in sorted(outs, key=lambda o: (len(o["dev"]), sorted(o["dev"]))):
        ok, why = hist_matches(obs_hist, o["hist"])
        if ok:
            best = o
            break
        if not o["dev"]:
            whys.append(why)
    case = dict(scenario=sc, rendering=variants(sc))
    if case_extra:
        case.update(case_extra)
    if best is not None and not best["dev"]:
        rep.passed(dict(kind=sc["kind"], repo=sc["repo"], lang=sc["lang"], imports=sc["imports"], fault=sc["fault"],
                        session=[[o["op"], o["file"], o["how"], o["given"]] for o in sc["session"]]),
                   nontrivial=nontrivial)
        return "pass"
    if best is not None:
        by_dev = {f["deviation"]: f["id"] for f in findings}
        for d in sorted(best["dev"]):
            rep.known_finding(by_dev[d], case)
        return "known"
    exp0 = [o["hist"] for o in outs if not o["dev"]]
    rep.violation(dict(case, observed=obs_hist, expected=exp0[:2]),
                  f"kind={sc['kind']} repo={sc['repo']} lang={sc['lang']} imports={sc['imports']} fault={sc['fault']}: "
                  f"the loads differ from every behaviour of LoaderRepo ({'; '.join(sorted(set(whys)))[:160]}); "
                  f"observed results {[h['res'] for h in obs_hist]}")
    return "violation"


# ----------------------------------------------------------------------------- TLC runs
def _write(path, obj):
    with open(path, "w") as f:
        json.dump(obj, f)
    return path


def enumerate_family(family, size, work, kinds=KINDS, grepo=(True, False)):
    """Stage 1: TLC evaluates the scenario family of MC_LoaderRepo; returns the scenarios (with ids)."""
    cfg = _write(os.path.join(work, f"cfg-{family}.json"),
                 dict(family=family, size=size, kinds=list(kinds), grepo=list(grepo)))
    out = os.path.join(work, f"family-{family}.json")
    empty = _write(os.path.join(work, "empty.json"), [])
    r = tlc.model_check("EnumLoaderRepo", env={"VT_CFG": cfg, "VT_OUT": out, "VT_SCEN": empty, "VT_DEVS": empty},
                        workers=1, timeout=1800)
    if not os.path.exists(out):
        raise tlc.MachineryError(f"family enumeration failed: {r.error}\n{r.stdout[-2000:]}")
    with open(out) as f:
        scs = json.load(f)
    scs.sort(key=common.canon)
    for i, sc in enumerate(scs):
        sc["id"] = i + 1
    return scs, r


def expected_outcomes(scs, devs, work, shards=None, cfg="MC_LoaderRepo.cfg", tag="mc"):
    """Stage 2: model-check the scenarios (invariants of the cfg) and collect, per scenario id,
    the summaries of every finished behaviour (OUT lines).  Returns ({id: [out]}, [TLCResult])."""
    shards = max(1, min(shards or tlc.NCPU, (len(scs) + 49) // 50))
    chunks = [scs[i::shards] for i in range(shards)]
    devp = _write(os.path.join(work, f"devs-{tag}.json"), list(devs))

    def one(i):
        sp = _write(os.path.join(work, f"scen-{tag}-{i}.json"), chunks[i])
        return tlc.model_check("MC_LoaderRepo", cfg=cfg,
                               env={"VT_SCEN": sp, "VT_DEVS": devp, "VT_CFG": devp}, workers=1, timeout=3000)

    with ThreadPoolExecutor(max_workers=shards) as ex:
        rs = list(ex.map(one, range(shards)))
    outs = {}
    for i, r in enumerate(rs):
        tlc.require_ok(r, f"MC_LoaderRepo shard {i}")
        for o in r.results("OUT"):
            outs.setdefault(o["id"], []).append(o)
    missing = [sc["id"] for sc in scs if sc["id"] not in outs]
    if missing:
        raise tlc.MachineryError(f"no finished behaviour emitted for scenarios {missing[:5]}")
    return outs, rs


def merge_results(rs):
    """Sum of shard results, shaped like one TLCResult for Report.add_mc."""
    r0 = rs[0]
    return tlc.TLCResult(ok=all(r.ok for r in rs), stdout="", generated=sum(r.generated for r in rs),
                         distinct=sum(r.distinct for r in rs), depth=max(r.depth for r in rs),
                         wall_s=max(r.wall_s for r in rs), cmd=r0.cmd + f"   (x{len(rs)} shards)")


def validate_traces(traces, devs, work, tag="tr"):
    """I->S: traces = [{sc, events}]; returns (TLCResult, {tid: {reached, len}})."""
    tp = _write(os.path.join(work, f"traces-{tag}.json"), traces)
    dp = _write(os.path.join(work, f"tdevs-{tag}.json"), list(devs))
    r = tlc.model_check("TraceLoaderRepo", env={"VT_TRACES": tp, "VT_DEVS": dp}, workers=1, timeout=3000)
    tlc.require_ok(r, "trace validation (TraceLoaderRepo)")
    got = {x["tid"]: x for x in r.results("TRACE")}
    if len(got) != len(traces):
        raise tlc.MachineryError("trace validation did not report every trace")
    return r, got


def validate_traces_sharded(traces, devs, work, shards=None, tag="tr"):
    shards = max(1, min(shards or tlc.NCPU, (len(traces) + 19) // 20))
    idx = [list(range(i, len(traces), shards)) for i in range(shards)]

    def one(i):
        return validate_traces([traces[j] for j in idx[i]], devs, work, tag=f"{tag}{i}")

    with ThreadPoolExecutor(max_workers=shards) as ex:
        parts = list(ex.map(one, range(shards)))
    got = {}
    for i, (r, g) in enumerate(parts):
        for t, x in g.items():
            got[idx[i][t - 1] + 1] = x
    return [p[0] for p in parts], got


def vacuity(scs, devs, work, tag="vac"):
    """The module with exactly `devs` switched on: which unguarded invariant breaks first."""
    sp = _write(os.path.join(work, f"scen-{tag}.json"), scs)
    dp = _write(os.path.join(work, f"devs-{tag}.json"), list(devs))
    r = tlc.model_check("MC_LoaderRepo", cfg="MC_LoaderRepo_Dev.cfg",
                        env={"VT_SCEN": sp, "VT_DEVS": dp, "VT_CFG": dp}, timeout=3000)
    return r


# ----------------------------------------------------------------------------- random scenarios (I->S)
LETTERS = ["a", "b", "c", "d", "e", "f"]


def random_scenario(rng, profile):
    """A seeded-random scenario inside the fragment the module is stated for:
    at most one injected fault; a duplicate definition only as that fault and only for a
    name no other model defines; with RREL every file has a reference; string
    loads without a file name only with GlobalRepo providers or for models without imports."""
    n = rng.randint(3, 6) if profile != "C27" else rng.randint(1, 4)
    files = LETTERS[:n]
    kind = rng.choice(KINDS)
    glob_kind = kind in GLOB_KINDS
    star_ok = kind in ("plain_uri", "fqn_uri", "rrel")
    glob = [f for f in files if rng.random() < 0.8] or [files[-1]]
    two = n >= 2 and rng.random() < (0.45 if profile in ("C17", "C27") else 0.2)
    lang = {f: ("B" if two and rng.random() < 0.45 else "A") for f in files}
    if two and len(set(lang.values())) == 1:
        lang[files[-1]] = "B"
    repo = rng.choice([{"A": "-", "B": "-"}, {"A": "r1", "B": "-"}, {"A": "r1", "B": "r2"},
                       {"A": "r1", "B": "r1"}, {"A": "-", "B": "r2"}, {"A": "r1", "B": "r2"}])
    if not two:
        repo = dict(repo, B="-")
    imports = {}
    for f in files:
        if glob_kind and rng.random() < 0.8:
            imports[f] = []
            continue
        k = rng.choice([0, 1, 1, 2, 2, 3])
        imp = rng.sample(files, min(k, n))
        if star_ok and rng.random() < 0.15:
            imp.insert(rng.randrange(len(imp) + 1), "*")
        imports[f] = imp
    shared = ["s1", "s2"]
    defs = {f: ["u" + f] + [s for s in shared if rng.random() < 0.3] for f in files}
    builtin = rng.choice([[], [], ["s1", "ub", "k"], ["k"], ["kb", "k"]])

    def direct(f):
        if glob_kind:
            return set(glob)
        out = set()
        for s in imports[f]:
            out |= set(glob) if s == "*" else {s}
        return out

    refs, lrefs = {}, {}
    clean = True
    for f in files:
        vis = set(defs[f]) | set(builtin)
        for g in direct(f):
            vis |= set(defs[g])
        pool = sorted(vis)
        r = [x for x in pool if rng.random() < 0.6]
        if profile in ("C28", "C18") and rng.random() < 0.04:
            r.append("zz")                     # an unknown name that is not the injected fault
            clean = False
        if not r and (imports[f] or kind == "rrel" or rng.random() < 0.5):
            r = ["u" + f]
        rng.shuffle(r)
        cut = rng.randint(0, len(r)) if rng.random() < (0.6 if profile == "C28" else 0.3) else len(r)
        refs[f], lrefs[f] = r[:cut], r[cut:]
    fault = {"kind": "none", "file": "-", "at": "use"}
    phases = {"C17": [], "C27": [],
              "C18": ["syntax", "unknown", "objproc", "modelproc", "modelproc"],
              "C28": ["syntax", "unknown", "postponed", "notunique", "unknown", "postponed", "notunique"]}[profile]
    if phases and rng.random() < 0.85:
        ph = rng.choice(phases)
        ff = rng.choice(files)
        at = rng.choice(["use", "list"])
        if ph == "postponed" and kind == "rrel":
            ph = "unknown"
        if ph == "notunique" and kind not in ("plain_uri", "plain_search", "plain_glob"):
            ph = "syntax"
        if ph == "notunique":
            if builtin and builtin[0] == "kb" and rng.random() < 0.5:
                ff = "<builtin>"               # the duplicates live in the (string) builtin model
                g, name = rng.choice(files), "kb"
            else:
                # somebody who sees the file must mention the duplicated name
                g, name = rng.choice([g for g in files if g == ff or ff in direct(g)]), "u" + ff
            if name not in refs[g] + lrefs[g]:
                (lrefs if at == "list" else refs)[g].append(name)
        fault = {"kind": ph, "file": ff, "at": at}
    big = profile == "C28"
    pad = {f: rng.choice([0, 0, 1, 2, 4] if big else [0, 0, 1]) for f in files}
    ind = {f: rng.choice([0, 1, 2, 5] if big else [0, 0, 2]) for f in files}
    deco = {f: rng.choice([0, 0, 6, 9, 14] if big else [0, 0, 0, 7]) for f in files}
    pool = rng.choice([[], ["p"], ["p", "q"]]) if profile == "C27" else rng.choice([[], ["p"]])
    declared = {"A": pool, "B": rng.choice([pool, [], ["p"]]) if two else []}

    def load(f=None):
        f = f or rng.choice(files)
        how = rng.choice(["file", "file", "file", "strfile"])
        if (glob_kind or not imports[f]) and rng.random() < (0.45 if profile in ("C17", "C18") else 0.25):
            how = "str"
        elif use_app and rng.random() < 0.4:
            how = "app"                        # into the repository owned by the application
        if profile == "C27":
            given = sorted(rng.sample(["p", "q", "project_root", "zzz"], rng.choice([0, 1, 1, 2, 3])))
        else:
            given = [x for x in declared[lang[f]] if rng.random() < 0.3]
        vals = "std"
        if profile == "C27":
            vals = rng.choice(["std", "std", "none", "falsy"] + (list(ROOT_FORMS) if "project_root" in given else []))
        return {"op": "load", "file": f, "how": how, "given": given, "vals": vals}

    use_app = profile in ("C17", "C18") and rng.random() < 0.3
    session = [load() for _ in range(rng.choice([1, 2, 2, 3, 4]))]
    if profile == "C27" and rng.random() < 0.4:
        # the language designer declares a further parameter between two loads
        lg = rng.choice(sorted(set(lang.values())))
        session.insert(rng.randint(1, len(session)),
                       {"op": "declare", "file": lg, "how": "-", "given": [rng.choice(["q", "zzz"])], "vals": "-"})
        session.append(load())
    if fault["kind"] != "none":
        session.append({"op": "repair", "file": "-", "how": "-", "given": [], "vals": "-"})
        session += [load(session[-2]["file"])] + [load() for _ in range(rng.choice([0, 1, 2]))]
    return dict(files=files, lang=lang, imports=imports, glob=glob, defs=defs, refs=refs, lrefs=lrefs, pad=pad,
                ind=ind, deco=deco, kind=kind, repo=repo, builtin=builtin, declared=declared, fault=fault,
                session=session, clean=clean)


# ----------------------------------------------------------------------------- the two conformance passes
def check_family(rep, pid, findings, size, shards=None, sample=None, rng=None, nontrivial=None, kinds=KINDS):
    """(M) + (S->I): enumerate the family of `pid` with TLC, model-check it (invariants of
    MC_LoaderRepo.cfg, deadlock check on), replay every scenario (or a seeded sample) and the
    witnesses of the listed findings against the real loader and compare with the behaviours
    TLC printed."""
    work = tlc.scratch(f"vt-{pid.lower()}-")
    root = tlc.scratch(f"vt-{pid.lower()}-fs-")
    try:
        scs, er = enumerate_family(pid, size, work, kinds=kinds)
        rep.add_mc(f"EnumLoaderRepo[{pid},{size}]", er, ["(scenario family evaluated by TLC)"])
        nfam = len(scs)
        for f in findings:                         # the stored witnesses are scenarios too
            scs.append(dict(f["witness"], id=len(scs) + 1))
        devs = sorted({f["deviation"] for f in findings})
        outs, rs = expected_outcomes(scs, devs, work, shards)
        rep.add_mc(f"MC_LoaderRepo[{pid},{size}]", merge_results(rs), INVARIANTS)
        todo = scs
        if sample is not None and nfam > sample:
            # stratified: a seeded share of every stratum (fault kind, string-heavy history, load into an
            # application repository, declaration between loads, two languages, parameter values), then
            # a seeded sample of the rest
            def stratum(sc):
                ops = sc["session"]
                return common.canon([sc["fault"]["kind"], sum(o["how"] == "str" for o in ops) >= 3,
                                     any(o["how"] == "app" for o in ops), any(o["op"] == "declare" for o in ops),
                                     len(set(sc["lang"].values())), sorted({o["vals"] for o in ops})])
            strata = {}
            for sc in scs[:nfam]:
                strata.setdefault(stratum(sc), []).append(sc)
            quota = max(30, sample // (2 * len(strata)))
            picked = []
            for key in sorted(strata):
                grp = strata[key]
                picked += grp if len(grp) <= quota else rng.sample(grp, quota)
            ids = {sc["id"] for sc in picked}
            rest = [sc for sc in scs[:nfam] if sc["id"] not in ids]
            todo = picked + rng.sample(rest, max(0, min(len(rest), sample - len(picked)))) + scs[nfam:]
        for sc in todo:
            hist, _ = run_scenario(sc, root)
            nt = nontrivial(sc, hist) if nontrivial else True
            judge_scenario(rep, sc, hist, outs[sc["id"]], findings, nt)
        rep.bounds["family"] = dict(scenarios=nfam, replayed=len(todo), witnesses=len(scs) - nfam,
                                    behaviours=sum(len(v) for v in outs.values()))
        rep.exhaustive = len(todo) == len(scs)
        return scs
    finally:
        shutil.rmtree(work, ignore_errors=True)
        shutil.rmtree(root, ignore_errors=True)


INVARIANTS = ["C17_OpenOnce", "C17_OpensCreated", "C17_Identity", "C17_CacheSame", "C18_CleanRepos",
              "C18_RepairedReload", "C27_Reject", "C27_Params", "C28_Location", "(deadlock: no unfinished load)"]


def record_traces(rng, profile, count):
    root = tlc.scratch("vt-mf-tr-")
    traces = []
    try:
        for _ in range(count):
            sc = random_scenario(rng, profile)
            _, events = run_scenario(sc, root)
            traces.append({"sc": sc, "events": events})
    finally:
        shutil.rmtree(root, ignore_errors=True)
    return traces


def check_traces(rep, pid, findings, traces, shards=None):
    """(I->S): the recorded sessions must be behaviours of LoaderRepo (TraceLoaderRepo)."""
    work = tlc.scratch(f"vt-{pid.lower()}-tr-")
    try:
        rs, got = validate_traces_sharded(traces, [], work, shards, tag="doc")
        rep.add_mc("TraceLoaderRepo", merge_results(rs), ["TraceNext consumes every recorded event"])
        rejected = [t for t in sorted(got) if got[t]["reached"] < got[t]["len"]]
        alt = {}
        devs = sorted({f["deviation"] for f in findings})
        if rejected and devs:
            sub = [traces[t - 1] for t in rejected]
            _, g2 = validate_traces_sharded(sub, devs, work, shards, tag="dev")
            alt = {rejected[i]: g2[i + 1] for i in range(len(rejected))}
        by_dev = {f["deviation"]: f["id"] for f in findings}
        for t in sorted(got):
            tr = traces[t - 1]
            sc = tr["sc"]
            if got[t]["reached"] == got[t]["len"]:
                rep.passed(dict(kind=sc["kind"], repo=sc["repo"], lang=sc["lang"], imports=sc["imports"], fault=sc["fault"],
                                events=[[e["e"], e.get("file", e.get("res", {}).get("kind", ""))]
                                        for e in tr["events"]][:40]),
                           nontrivial=len(sc["files"]) >= 2 and len(tr["events"]) >= 6)
            elif t in alt and alt[t]["reached"] == alt[t]["len"] and alt[t]["dev"]:
                for d in sorted(alt[t]["dev"]):
                    rep.known_finding(by_dev[d], dict(scenario=sc))
            else:
                k = got[t]["reached"]
                ev = tr["events"][k] if k < len(tr["events"]) else {}
                rep.violation(dict(kind="trace", scenario=sc, events=tr["events"]),
                              f"event {k + 1} of a recorded session is not a step of LoaderRepo!Next: "
                              f"{ev.get('e')} {ev.get('file', '')} {ev.get('res', '')} "
                              f"(kind={sc['kind']} repo={sc['repo']} lang={sc['lang']} imports={sc['imports']} fault={sc['fault']})")
        rep.bounds["traces"] = dict(count=len(traces), events=sum(len(t["events"]) for t in traces))
    finally:
        shutil.rmtree(work, ignore_errors=True)


def replay_case(path, findings):
    """Re-run one stored violation against the real code and the module; 0 iff it now conforms."""
    with open(path) as f:
        rec = json.load(f)
    case = rec["case"]
    sc = case["scenario"]
    work = tlc.scratch("vt-mf-replay-")
    try:
        hist, events = run_scenario(sc)
        print("scenario:", json.dumps({k: sc[k] for k in ("kind", "repo", "lang", "files", "imports", "glob", "defs",
                                                           "refs", "lrefs", "builtin", "declared", "fault", "session")}))
        for i, h in enumerate(hist):
            print(f"load {i + 1}: {h['res']}  grepo={h['grepo']}  opens={h['opens']}")
        if case.get("kind") == "trace":
            _, got = validate_traces([{"sc": sc, "events": events}], [], work)
            print("trace reached", got[1]["reached"], "of", got[1]["len"])
            return 0 if got[1]["reached"] == got[1]["len"] else 1
        sc = dict(sc, id=1)
        outs, _ = expected_outcomes([sc], [], work, 1)
        ok = any(hist_matches(hist, o["hist"])[0] for o in outs[1])
        print("allowed by LoaderRepo:", ok)
        if not ok:
            print("expected one of:", json.dumps([o["hist"] for o in outs[1]][:2])[:3000])
        return 0 if ok else 1
    finally:
        shutil.rmtree(work, ignore_errors=True)


# ----------------------------------------------------------------------------- one property
ASSUMPTIONS = [
    "carrier grammar Model: imports*=Import elems*=Elem; Def: 'def' name=ID; Use: 'use' ref=[Def:QName]; "
    "UseList: 'refs' refs+=[Def:QName][','] (RREL variant [Def:QName|+m:elems]); Comment: /* .. */; file texts "
    "follow the line layout of LoaderRepo!LineLens (checked by the renderer)",
    "rendering choices the module does not speak about are fixed by a digest of the scenario: the directory is "
    "reached through a symbolic link or directly; the root rule is backed by a user class or not; the comments "
    "in front of items consist of ASCII, form feed, vertical tab, NEL, U+2028, U+2029, 0x1c/0x1e or decomposed "
    "(NFD) text -- never of line feeds or carriage returns",
    "a load into an application-owned repository is GlobalRepo(<file>).load_models_in_model_repo(repository) "
    "with the languages registered; parameters declared between loads use model_param_defs.add",
    "two languages = two metamodels built from the same grammar text (so that elements of one are valid "
    "targets for the other), registered with register_language and file patterns *.?a / *.?b; files are "
    "dispatched by metamodel_for_file; each metamodel has its own declared parameters and its own, a shared "
    "or no global repository",
    "file opens are counted by replacing `open` in the namespaces of textx.metamodel and textx.model",
    "model identity is observed through labels file@load attached to every model object the harness sees "
    "(a second object for the same file in one load gets a different label); a model without file name is ~@load",
    "failing processors are harness callables raising on elements named bado / badm; a reference named pp "
    "is postponed for ever by a user-level provider wrapped around the provider under test (not with RREL)",
    "parameter values are rendering: std (1, 'v', 0), none (None) and falsy (0, '', False); project_root as the "
    "absolute directory, with a trailing separator, through sub/.. or relative to the cwd; a model must expose "
    "every given name with exactly the given value",
    "fragment: at most one injected fault per scenario; a duplicate definition only as that fault and only "
    "for a name defined in one model; with RREL every file has a reference (models are connected to the "
    "repositories per reference there); model_from_str without file name only with GlobalRepo providers or "
    "for models without imports; imported files exist; the glob pattern matches at least one file",
    "a model without file name that takes part in multi-file loading has a repository entry of its own (the "
    "invented key anonymous<N> is reported as ~<load>): removed when its load fails, kept when it succeeds",
    "where the documents do not decide, the module allows every choice: order of globbed files, which of "
    "several loaded models defining a name is the target, which of several offending references is reported, "
    "order of object processors across models, whether a failed load leaves the entry it added for a model "
    "that is cached in another language's repository",
]


def run_property(rep, pid, nontrivial, rule):
    import random
    quick = rep.tier == "quick"
    rng = random.Random(rep.seed)
    findings = common.open_findings(pid)
    rep.rule = rule
    rep.assumptions = list(ASSUMPTIONS)
    # (I->S) first record (real code only), then (M)+(S->I), then validate the records with TLC
    traces = record_traces(rng, pid, 80 if quick else 800)
    check_family(rep, pid, findings, "quick" if quick else "thorough",
                 sample=1500 if quick else 20000, rng=rng, nontrivial=nontrivial)
    check_traces(rep, pid, findings, traces)
