"""Driver for the built-in generators (spec/GenFile.tla, property C31).

Runs textX's registered generators (textX->dot, textX->PlantUML, any->dot) on
small grammars/models, observes their output I/O by putting a wrapper named
`open` into the namespace of the modules that write (textx.export,
textx.generators), injects an OSError at a chosen I/O call, looks at the
output directory afterwards and records everything as a GenFile trace.
Which traces are acceptable is decided by TLC (TraceGenFile.tla).
"""
from __future__ import annotations

import builtins
import errno
import logging
import os
import re
import shutil

from .. import common, tlc

OLD = "// an older, complete output of the same generator\n"

GRAMMARS = {
    "g1": ("Model: name=ID;\n", "x\n"),
    "g2": ("Model: items+=Item;\nItem: Def | Use;\nDef: 'def' name=ID;\nUse: 'use' ref=[Def];\n",
           "def a\ndef b\nuse a\nuse b\n"),
    "g3": ("Model: shapes+=Shape;\nShape: Circle | Rect;\nCircle: 'circle' name=ID r=INT;\n"
           "Rect: 'rect' name=ID w=INT h=INT;\n",
           "circle c1 3\nrect r1 2 4\ncircle c2 5\n"),
    "g4": ("Program: 'program' name=ID cmds*=Command;\nCommand: Move | Turn;\n"
           "Move: 'move' dir=Direction (steps=INT)?;\nTurn: 'turn' left?='left';\nDirection: 'up'|'down';\n",
           "program p\nmove up 3\nturn left\nmove down\nturn\n"),
    "g5": ("EntityModel: types*=SimpleType entities+=Entity;\n"
           "Entity: 'entity' name=ID '{' properties+=Property '}';\n"
           "Property: name=ID ':' type=[Type];\nType: SimpleType | Entity;\nSimpleType: 'type' name=ID;\n",
           "type int\ntype str\nentity A { x: int  y: str }\nentity B { a: A  n: int }\n"),
}
# a model that imports another file (third entry: the imported files): exported with its model repository
GRAMMARS["g6"] = ("Model: imports*=Import items+=Item;\nImport: 'import' importURI=STRING;\nItem: Def | Use;\n"
                  "Def: 'def' name=ID;\nUse: 'use' ref=[Def];\n",
                  'import "lib.mdl"\ndef a\nuse a\nuse q\n',
                  {"lib.mdl": "def q\ndef r\nuse q\n"})
GENERATORS = ["mm-dot", "mm-plantuml", "model-dot"]


_ID = re.compile(r"(?<![\w.])\d{9,}(?![\w.])")


def canon_ids(txt):
    """The exports name graph nodes by id(object), which differs from run to run (the metamodel
    export builds fresh helper objects each time): number them by first appearance."""
    seen = {}
    return _ID.sub(lambda m: "#%d" % seen.setdefault(m.group(0), len(seen) + 1), txt)


class _Injected(OSError):
    vt_injected = True


class _InjectedInterrupt(KeyboardInterrupt):
    vt_injected = True


class _InjectedExit(SystemExit):
    vt_injected = True


class _InjectedGenExit(GeneratorExit):
    vt_injected = True


class _InjectedType(TypeError):
    vt_injected = True


class _InjectedAttr(AttributeError):
    vt_injected = True


class _InjectedRuntime(RuntimeError):
    vt_injected = True


def _unicode_error():
    # what a real f.write() raises for text that cannot be encoded (a ValueError)
    e = UnicodeEncodeError("utf-8", "injected \udc80 (C31 check)", 9, 10, "surrogates not allowed")
    e.vt_injected = True
    return e


# the kinds of failure that can interrupt an export (GenFile!FailureKinds)
FAILURES = {"OSError": lambda: _Injected(errno.EIO, "injected I/O failure (C31 check)"),
            "ValueError": _unicode_error,
            "TypeError": lambda: _InjectedType("injected (C31 check)"),
            "AttributeError": lambda: _InjectedAttr("injected (C31 check)"),
            "RuntimeError": lambda: _InjectedRuntime("injected (C31 check)"),
            "KeyboardInterrupt": lambda: _InjectedInterrupt("injected interrupt (C31 check)"),
            "SystemExit": lambda: _InjectedExit(1),
            "GeneratorExit": lambda: _InjectedGenExit("injected (C31 check)")}
# what the target path is before the run: [content seen through the path, file behind the link or "none"]
TARGET_KINDS = {"absent": ("absent", "none"), "old": ("old", "none"),
                "link-old": ("old", "old"), "link-dangling": ("absent", "absent")}


class _Proxy:
    """A file object whose write/flush/close calls are counted and can be made to fail."""

    def __init__(self, io, real):
        self._io, self._real, self._closed = io, real, False

    def write(self, s):
        self._io.op("Write")
        return self._real.write(s)

    def writelines(self, lines):
        for s in lines:
            self.write(s)

    def flush(self):
        self._io.op("Flush")
        return self._real.flush()

    def close(self):
        if self._closed:
            return
        try:
            self._io.op("Close")
        finally:
            self._closed = True
            self._real.close()

    def __enter__(self):
        return self

    def __exit__(self, *exc):
        self.close()
        return False

    def __getattr__(self, name):
        return getattr(self._real, name)


class _IO:
    """Replacement for `open` in the writing modules during one generator run."""

    def __init__(self, target, faults=None):
        """faults: {index of the I/O call (counted over the whole run): kind of failure}"""
        self.target, self.faults = os.path.abspath(target) if target else None, dict(faults or {})
        self.events, self.count = [], 0
        self.opened = []

    def op(self, name, **fields):
        k = self.count
        self.count += 1
        if k in self.faults:
            self.events.append(dict(name="Fault", kind=self.faults[k], call=name, i=k))
            raise FAILURES[self.faults[k]]()
        self.events.append(dict(name=name, i=k, **fields))

    def open(self, path, mode="r", *a, **kw):
        if not any(ch in mode for ch in "wax+"):
            return builtins.open(path, mode, *a, **kw)
        p = os.path.abspath(path)
        self.op("Open", target=(self.target is None or p == self.target))
        self.opened.append(p)
        return _Proxy(self, builtins.open(path, mode, *a, **kw))


class Subject:
    """One (generator, input) pair; the model is loaded once so that object ids in the output are stable."""

    def __init__(self, gen, gname, workdir):
        common.ensure_repo_on_path()
        import textx.generators as gens
        from textx import metamodel_from_file
        self.gen, self.gname, self.name = gen, gname, f"{gen}/{gname}"
        gtxt, mtxt = GRAMMARS[gname][:2]
        extra = GRAMMARS[gname][2] if len(GRAMMARS[gname]) > 2 else {}
        self.indir = os.path.join(workdir, f"in-{gen}-{gname}")
        os.makedirs(self.indir)
        gpath = os.path.join(self.indir, gname + ".tx")
        with open(gpath, "w") as f:
            f.write(gtxt)
        mm = metamodel_from_file(gpath)
        if extra:
            # a multi-file model: the imported files make the model carry a model repository
            from textx.scoping import providers
            mm.register_scope_providers({"*.*": providers.PlainNameImportURI()})
            for name, txt in extra.items():
                with open(os.path.join(self.indir, name), "w") as f:
                    f.write(txt)
        if gen == "model-dot":
            mpath = os.path.join(self.indir, gname + ".mdl")
            with open(mpath, "w") as f:
                f.write(mtxt)
            self.metamodel, self.model = mm, mm.model_from_file(mpath)
            self.desc = gens.model_generate_dot
        else:
            self.metamodel, self.model = None, mm
            self.desc = gens.metamodel_generate_dot if gen == "mm-dot" else gens.metamodel_generate_plantuml
        self.outdir = os.path.join(workdir, f"out-{gen}-{gname}")
        self.destdir = os.path.join(workdir, f"dest-{gen}-{gname}")      # where a symlinked target points to
        self.dest = os.path.join(self.destdir, "real-output")
        self.target = None
        self.complete = None
        self.n = 0
        self.nops = 0
        self.blind = False
        self.linked = False

    # ---- one run of the real generator
    def call(self, overwrite, faults=None):
        import textx.export as export
        import textx.generators as gens
        io = _IO(self.target, faults)
        mods = [export, gens]
        saved = [m.__dict__.get("open", None) for m in mods]
        for m in mods:
            m.open = io.open
        raised = None
        log = logging.getLogger("textx.generators")     # "-> file" / "-- NOT overwriting" chatter
        level = log.level
        log.setLevel(logging.CRITICAL + 1)
        try:
            self.desc.generator(self.metamodel, self.model, self.outdir, overwrite, False)
        except BaseException as e:      # noqa: BLE001 - the outcome of the run is the observation
            raised = e
        finally:
            log.setLevel(level)
            for m, s in zip(mods, saved):
                if s is None:
                    del m.open
                else:
                    m.open = s
        return io, raised

    def reset_out(self, pre):
        for d in (self.outdir, self.destdir):
            shutil.rmtree(d, ignore_errors=True)
            os.makedirs(d)
        if pre == "old":
            with open(self.target, "w") as f:
                f.write(OLD)
        elif pre in ("link-old", "link-dangling"):
            if pre == "link-old":
                with open(self.dest, "w") as f:
                    f.write(OLD)
            os.symlink(self.dest, self.target)
        elif pre != "absent":
            raise tlc.MachineryError(f"unknown target kind {pre}")
        self.linked = pre.startswith("link-")

    def _content(self, path):
        if not os.path.exists(path):            # follows links, like gen_file does
            return "absent"
        with open(path, encoding="utf-8", errors="replace") as f:
            txt = f.read()
        return "old" if txt == OLD else "complete" if canon_ids(txt) == self.complete else "partial"

    def look(self):
        """(content seen through the target path, other entries in the output directory,
        content of the file behind the link / "none" if the target was not set up as a link)."""
        tname = os.path.basename(self.target)
        others = len([x for x in os.listdir(self.outdir) if x != tname])
        extra = len([x for x in os.listdir(self.destdir) if x != os.path.basename(self.dest)])
        return self._content(self.target), others + extra, (self._content(self.dest) if self.linked else "none")

    # ---- calibration: a clean run tells the target, the complete content and the I/O calls
    def calibrate(self):
        shutil.rmtree(self.outdir, ignore_errors=True)
        os.makedirs(self.outdir)
        io, raised = self.call(False)
        if raised is not None:
            raise tlc.MachineryError(f"{self.name}: clean generator run failed: {raised!r}")
        names = os.listdir(self.outdir)
        if len(names) != 1:
            raise tlc.MachineryError(f"{self.name}: a clean run left {names} in the output directory")
        self.target = os.path.join(self.outdir, names[0])
        with open(self.target, encoding="utf-8") as f:
            self.complete = canon_ids(f.read())
        if not self.complete or self.complete == OLD:
            raise tlc.MachineryError(f"{self.name}: empty output")
        ev = [e["name"] for e in io.events]
        self.blind = "Open" not in ev
        self.n = max(1, ev.count("Write"))
        self.nops = len(ev)
        # the output must be reproducible with the same model object, otherwise "complete" is meaningless
        self.reset_out("absent")
        io2, r2 = self.call(False)
        with open(self.target, encoding="utf-8") as f:
            again = canon_ids(f.read())
        if r2 is not None or again != self.complete or [e["name"] for e in io2.events] != ev:
            raise tlc.MachineryError(f"{self.name}: the generator's output is not reproducible")
        return ev

    # ---- one scenario -> one trace
    def scenario(self, overwrite, pre, faults=None):
        """faults: {I/O call index: failure kind} injected into the first run (several calls may fail)."""
        self.reset_out(pre)
        seen, behind = TARGET_KINDS[pre]
        events = [dict(name="Start", ow=bool(overwrite), pre=seen, dest=behind, n=self.n)]
        for rerun in (False, True):
            io, raised = self.call(overwrite if not rerun else False, None if rerun else faults)
            if raised is not None and not isinstance(raised, Exception) and not getattr(raised, "vt_injected", False):
                raise raised                # a real interrupt of the harness, not an observation
            evs = io.events
            if not self.blind and not any(e["name"] in ("Open", "Fault") for e in evs):
                evs = [dict(name="Skip")]
            events += evs
            events.append(dict(name="End", raised=raised is not None))
            cls, others, dcls = self.look()
            events.append(dict(name="Observe", cls=cls, others=others, dest=dcls))
            if not rerun:
                events.append(dict(name="Rerun"))
        return dict(blind=self.blind, events=events)


def short(trace, k=None):
    """Readable form of a trace (Write runs collapsed)."""
    out, evs = [], trace["events"] if k is None else trace["events"][:k]
    for e in evs:
        f = {a: b for a, b in e.items() if a not in ("name", "i")}
        s = e["name"] + (str(f) if f else "")
        if out and out[-1][0] == s:
            out[-1][1] += 1
        else:
            out.append([s, 1])
    return [s if c == 1 else f"{s} x{c}" for s, c in out]
