"""Driver for C29: a corpus of meta-models and models, exported with the real
textx.export functions and the registered generators; projections of the model
side (how many classes / objects a well-formed export must show, which free-text
fields the model contains)."""
from __future__ import annotations

import os

# ---------------------------------------------------------------- grammars (carrier languages)
G_SHAPES = r'''
Model: 'model' name=Name? things*=Thing mixed*=Mixed ('ref' refs+=[Thing|Name][','])? ;
Thing: Box | Circle;
Box: 'box' name=Name ('(' label=STRING ')')? ('w' w=INT)? ('tags' tags+=STRING[','])? flag?='!' ;
Circle: 'circle' name=Name r=FLOAT? (inner=Box)?;
Mixed: Box | STRING | INT;
Name: STRING | ID;
Comment: /\/\/.*$/;
'''

G_MATCH = r'''
Doc: items+=Item;
Item: k=Key ':' v=Val ';';
Key: /[a-z<>&]+/;
Val: '<' | '>' | '&' | '"q"' | "it's" | '{' | '}' | '|' | 'a\\b' | '?' | '&&' | '&amp;' | '<b>' | '"' | '&#38;' | Word;
Word: /\w+(<|>|\{|\}|\||"|&)?/;
'''

G_CLASSES = r'''
Root: decls*=Decl;
Decl: Cls | Iface;
Cls: 'class' name=ID ('extends' base=[Cls])? ('implements' ifs+=[Iface][','])? '{' members*=Member '}';
Iface: 'iface' name=ID;
Member: Field | Method;
Field: 'field' name=ID ':' type=[Decl] opt?='?' ;
Method: 'method' name=ID '(' params*=Param[','] ')' ;
Param: name=ID ':' type=[Decl];
'''

G_UNICODE = r'''
Élément: 'x' nom=STRING valeur=STRING? enfants*=Élément ('{' nombres+=INT[','] '}')? ;
'''

G_PLAIN = r'''
P: 'p' items+=Q ;
Q: 'q' name=INT (b?='b')? (f=FLOAT)? (s=STRING)? ;
'''

G_NONAME = r'''
L: 'l' vals+=V pairs*=Pair;
V: s=STRING | n=INT;
Pair: '(' a=STRING ',' b=STRING ')';
'''

G_OBJECT = r'''
Prog: stmts+=Stmt;
Stmt: Assign | Any | Many;
Assign: 'set' name=ID '=' (value=Literal | value=Call) ';';
Any: 'any' thing=OBJECT ';';
Many: 'many' (items+=Literal | items+=Call)+ ';';
Literal: v=INT | s=STRING;
Call: 'call' f=ID ('&' note=Amp)?;
Amp: /[a-z&<>"]+/;
'''

G_REPO = r'''
Model: imports*=Import things*=Thing;
Import: 'import' importURI=STRING;
Thing: 'thing' name=ID ('->' ref=[Thing])? ('note' note=STRING)?;
'''

G_USER = r'''
Drawing: shapes+=Shape;
Shape: Line | Circle;
Line: 'line' a=Point '-' b=Point;
Circle: 'circle' c=Point 'r' r=INT tag=Tag?;
Point: x=INT ',' y=INT;
Tag: '#' name=ID;
'''


# user classes of the `user` grammar: value semantics (equal by fields), one of them unhashable
class Point:
    def __init__(self, parent, x, y):
        self.parent, self.x, self.y = parent, x, y

    def __eq__(self, other):
        return isinstance(other, Point) and (self.x, self.y) == (other.x, other.y)

    def __hash__(self):
        return hash((self.x, self.y))


class Tag:
    def __init__(self, parent, name):
        self.parent, self.name = parent, name

    def __eq__(self, other):
        return isinstance(other, Tag) and self.name == other.name

    __hash__ = None


class Circle:
    def __init__(self, parent, c, r, tag):
        self.parent, self.c, self.r, self.tag = parent, c, r, tag


USER_CLASSES = dict(user=[Point, Tag, Circle])

# grammars of several files (flat directory; the first entry is the main grammar): the same rule
# names in several files, and a file that is only imported by an imported file
G_MULTI = {
    "multi.tx": """import people
import companies
Book: 'book' entries+=Entry addr=Address others*=PEntry firms*=CEntry;
Entry: 'entry' name=ID;
Address: 'at' street=STRING;
PEntry: 'p' e=people.Entry;
CEntry: 'c' e=companies.Entry;
""",
    "people.tx": """Entry: 'person' name=ID home=Address?;
Address: 'home' city=STRING;
""",
    "companies.tx": """Entry: 'company' name=ID seat=Address?;
Address: 'seat' country=STRING;
""",
}
G_DEEP2 = {
    "deep2.tx": """import mid2
Top: 'top' mids+=Mid own=Leaf?;
Leaf: 'topleaf' v=INT;
""",
    "mid2.tx": """import low2
Mid: 'mid' name=ID leaves*=Leaf;
""",
    "low2.tx": """Leaf: 'leaf' name=ID kind=Kind?;
Kind: 'kind' k=STRING;
""",
}
G_DEEP = {
    "deep.tx": """import mid
Top: 'top' mids+=Mid own=Leaf?;
Leaf: 'topleaf' v=INT;
""",
    "mid.tx": """import low
Mid: 'mid' name=ID leaves*=Leaf base=Base?;
Base: Leaf;
""",
    "low.tx": """Leaf: 'leaf' name=ID kind=Kind?;
Kind: 'kind' k=STRING;
""",
}

GRAMMARS = dict(user=G_USER, multi=G_MULTI, deep=G_DEEP, deep2=G_DEEP2, repo=G_REPO, object=G_OBJECT, shapes=G_SHAPES, match=G_MATCH, classes=G_CLASSES, unicode=G_UNICODE, plain=G_PLAIN, noname=G_NONAME)

SPECIALS = ['"', "\\", "{", "}", "|", "<", ">", "\n", "é", "?", " ", "'"]
FIXED = ['"', "\\q", "{", "}", "|", "<", ">", "a\nb", "é ü", "|{", "}{", "<p>", "x>y", "a b", 'a"b', "{a|b}", "<", "a\\{",
         "plain", "", "?", "x" * 25, "abcdefghijklmnopqrs{t", 'abcdefghijklmnopqr"st', "0123456789012345678\\|9", "${x}",
         "a|b|c", "{}", "<>", "><", "\\n", "'", "it's", "ünï|cödé", "a{b}c", "}", ">>", "tab\there"]


def rand_string(rng):
    if rng.random() < 0.45:
        return rng.choice(FIXED)
    n = rng.randint(1, 6)
    return "".join(rng.choice(SPECIALS + ["a", "b", "1"]) for _ in range(n))


def q(s):
    """A textX STRING literal for s (strings a literal cannot denote are adjusted, see textx STRING)."""
    s = s.replace('\\"', '\\ "')
    if s.endswith("\\"):
        s += "z"
    return '"' + s.replace('"', '\\"') + '"'


def ident(rng):
    return rng.choice(["a", "b", "c", "x1", "foo", "été", "n_2", "Z"]) + str(rng.randint(0, 99))


# ---------------------------------------------------------------- model texts
def model_text(kind, rng, special=True):
    S = (lambda: rand_string(rng)) if special else (lambda: rng.choice(["plain", "a b", "x", "été"]))
    if kind == "shapes":
        names = []

        def name():
            n = q(S()) if rng.random() < 0.7 else ident(rng)
            names.append(n)
            return n

        def box():
            t = "box " + name()
            if rng.random() < 0.6:
                t += f" ({q(S())})"
            if rng.random() < 0.4:
                t += f" w {rng.randint(-5, 500)}"
            if rng.random() < 0.5:
                t += " tags " + ", ".join(q(S()) for _ in range(rng.randint(1, 3)))
            if rng.random() < 0.3:
                t += " !"
            return t
        out = ["model"]
        if rng.random() < 0.7:
            out.append(q(S()))
        for _ in range(rng.randint(0, 3)):
            if rng.random() < 0.6:
                out.append(box())
            else:
                c = "circle " + name()
                if rng.random() < 0.5:
                    c += f" {rng.randint(0, 9)}.5"
                if rng.random() < 0.4:
                    c += " " + box()
                out.append(c)
        for _ in range(rng.randint(0, 4)):
            r = rng.random()
            out.append(box() if r < 0.35 else q(S()) if r < 0.8 else str(rng.randint(0, 99)))
        return "\n".join(out)
    if kind == "match":
        vals = ["<", ">", "&", '"q"', "it's", "{", "}", "|", "a\\b", "?", "w1", "w<", "w|", 'w"', "w&"]
        keys = ["a", "b<", "c>", "d&", "<>", "&&"]
        return "\n".join(f"{rng.choice(keys)} : {rng.choice(vals)} ;" for _ in range(rng.randint(1, 4)))
    if kind == "classes":
        n = rng.randint(1, 4)
        decls = [f"C{i}" for i in range(n)]
        ifs = [f"I{i}" for i in range(rng.randint(0, 2))]
        out = [f"iface {i}" for i in ifs]
        for i, c in enumerate(decls):
            t = f"class {c}"
            if i and rng.random() < 0.5:
                t += f" extends {rng.choice(decls[:i])}"
            if ifs and rng.random() < 0.5:
                t += " implements " + ", ".join(rng.sample(ifs, rng.randint(1, len(ifs))))
            t += " {"
            for m in range(rng.randint(0, 3)):
                ty = rng.choice(decls + ifs)
                if rng.random() < 0.5:
                    t += f" field f{m} : {ty}" + (" ?" if rng.random() < 0.4 else "")
                else:
                    ps = ", ".join(f"p{k} : {rng.choice(decls + ifs)}" for k in range(rng.randint(0, 2)))
                    t += f" method m{m} ({ps})"
            out.append(t + " }")
        return "\n".join(out)
    if kind == "unicode":
        def el(depth):
            t = "x " + q(S())
            if rng.random() < 0.6:
                t += " " + q(S())
            for _ in range(rng.randint(0, 2) if depth < 2 else 0):
                t += " " + el(depth + 1)
            if rng.random() < 0.4:
                t += " {" + ", ".join(str(rng.randint(0, 9)) for _ in range(rng.randint(1, 3))) + "}"
            return t
        return el(0)
    if kind == "plain":
        out = ["p"]
        for _ in range(rng.randint(1, 4)):
            t = f"q {rng.randint(0, 1000)}"
            if rng.random() < 0.5:
                t += " b"
            if rng.random() < 0.5:
                t += f" {rng.randint(0, 9)}.25"
            if rng.random() < 0.6:
                t += " " + q(S())
            out.append(t)
        return " ".join(out)
    if kind == "user":       # few coordinates: distinct objects that are equal by value
        def pt():
            return f"{rng.randint(0, 1)},{rng.randint(0, 1)}"
        out = []
        for _ in range(rng.randint(2, 5)):
            if rng.random() < 0.5:
                out.append(f"line {pt()} - {pt()}")
            else:
                out.append(f"circle {pt()} r {rng.randint(1, 3)}" + (f" #{rng.choice(['t', 'u'])}" if rng.random() < 0.7 else ""))
        return "\n".join(out)
    if kind == "multi":
        out = ["book", f"entry {ident(rng)}", f"at {q(S())}"]
        for _ in range(rng.randint(0, 2)):
            out.append(f"p person {ident(rng)}" + (f" home {q(S())}" if rng.random() < 0.6 else ""))
        for _ in range(rng.randint(0, 2)):
            out.append(f"c company {ident(rng)}" + (f" seat {q(S())}" if rng.random() < 0.6 else ""))
        return "\n".join(out)
    if kind in ("deep", "deep2"):
        out = ["top"]
        for _ in range(rng.randint(1, 3)):
            t = f"mid {ident(rng)}"
            for _ in range(rng.randint(0, 2)):
                t += f" leaf {ident(rng)}" + (f" kind {q(S())}" if rng.random() < 0.5 else "")
            out.append(t)
        if rng.random() < 0.5:
            out.append(f"topleaf {rng.randint(0, 9)}")
        return "\n".join(out)
    if kind == "object":
        def lit():
            return str(rng.randint(0, 99)) if rng.random() < 0.5 else q(S())

        def call():
            return f"call {ident(rng)}" + (f" & {rng.choice(['a', 'a&b', '<x>', '&amp', 'q&'])}" if rng.random() < 0.4 else "")
        out = []
        for _ in range(rng.randint(1, 4)):
            r = rng.random()
            if r < 0.4:
                out.append(f"set {ident(rng)} = {lit() if rng.random() < 0.5 else call()} ;")
            else:       # (no `any` statement: textX cannot parse an explicit OBJECT attribute at all)
                out.append("many " + " ".join(lit() if rng.random() < 0.5 else call() for _ in range(rng.randint(1, 3))) + " ;")
        return "\n".join(out)
    if kind == "repo":      # one file of a multi-file model; the caller adds the import line
        n = rng.randint(1, 3)
        tag = ident(rng)
        out = []
        for k in range(n):
            t = f"thing {tag}_{k}"
            if k and rng.random() < 0.6:
                t += f" -> {tag}_{rng.randrange(k)}"
            if rng.random() < 0.6:
                t += " note " + q(S())
            out.append(t)
        return "\n".join(out)
    if kind == "noname":
        out = ["l"]
        for _ in range(rng.randint(1, 4)):
            out.append(q(S()) if rng.random() < 0.7 else str(rng.randint(0, 50)))
        for _ in range(rng.randint(0, 2)):
            out.append(f"({q(S())}, {q(S())})")
        return " ".join(out)
    raise ValueError(kind)


# ---------------------------------------------------------------- projections of the model side
def grammar_files(kind):
    """{file name: text}; the first one is the main grammar."""
    g = GRAMMARS[kind]
    return g if isinstance(g, dict) else {f"{kind}.tx": g}


def grammar_imports(kind):
    """Import structure of a corpus grammar as written above: [(namespace, [imported namespaces])], main first."""
    import re
    return [(name[:-3], re.findall(r"^import (\S+)", text, re.M)) for name, text in grammar_files(kind).items()]


def mm_counts(mm, kind=None):
    """Projection of a meta-model: per grammar file (namespace) the common and abstract classes, the match
    rules, whether an attribute has the built-in OBJECT type.  Read from mm.namespaces (every class of every
    loaded grammar file), not by iterating the meta-model."""
    from textx.const import RULE_MATCH
    from textx.lang import ALL_TYPE_NAMES
    per_ns, match, subs = {}, [], {}
    has_object = False
    for ns, classes in mm.namespaces.items():
        if ns == "__base__":
            continue
        for name, cls in classes.items():
            if name in ALL_TYPE_NAMES and cls._tx_fqn == name:
                continue
            if cls._tx_type is RULE_MATCH:
                match.append(cls._tx_fqn)
            else:
                per_ns.setdefault(ns, []).append(cls._tx_fqn)
                subs.setdefault(ns, []).extend([cls._tx_fqn, c._tx_fqn] for c in cls._tx_inh_by
                                               if hasattr(c, "_tx_fqn") and "." in c._tx_fqn)
            has_object = has_object or any(a.cls.__name__ == "OBJECT" for a in cls._tx_attrs.values())
    imports = dict(grammar_imports(kind)) if kind else {}
    order = [n for n, _ in grammar_imports(kind)] if kind else sorted(per_ns)
    files = [dict(ns=ns, imports=[order.index(i) + 1 for i in imports.get(ns, []) if i in order],
                  classes=sorted(per_ns.get(ns, [])), subs=sorted(subs.get(ns, []))) for ns in order]
    return dict(files=files, classes=sorted(c for v in per_ns.values() for c in v), match=sorted(match),
                has_object=has_object)


def model_objects(model):
    """Every object an export of `model` shows (all models of its repository for multi-file models)."""
    from textx import get_children
    models = [model]
    if hasattr(model, "_tx_model_repository") and model._tx_model_repository.all_models:
        models = list(model._tx_model_repository.all_models)
    out, seen = [], set()
    for m in models:
        for o in get_children(lambda x: True, m):
            if id(o) not in seen:
                seen.add(id(o))
                out.append(o)
    return out


def model_fields(model):
    """Free-text fields of the model: names of objects (strings) and primitive strings in lists that also hold objects."""
    from textx.lang import PRIMITIVE_PYTHON_TYPES
    names, mixed = [], []
    for obj in model_objects(model):
        for an, attr in type(obj)._tx_attrs.items():
            v = getattr(obj, an, None)
            if isinstance(v, list):
                if not all(type(x) in PRIMITIVE_PYTHON_TYPES for x in v):
                    for k, x in enumerate(v):
                        if isinstance(x, str):
                            mixed.append((obj, an, k, x))
            elif an == "name" and isinstance(v, str):
                names.append((obj, v))
    return names, mixed


def codes(s):
    return [ord(c) for c in s]


def write(path, text):
    os.makedirs(os.path.dirname(path), exist_ok=True)
    with open(path, "w", encoding="utf-8") as f:
        f.write(text)
    return path


def read(path):
    with open(path, encoding="utf-8") as f:
        return f.read()
