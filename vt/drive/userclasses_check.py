"""Shared check logic of C14 and C15 (spec/LoaderUser.tla, driver vt/drive/userclasses.py).

  (M)    TLC model-checks MC_LoaderUser (scenario universe enumerated in TLA+), the clauses
         of the properties as invariants;
  (S->I) every scenario TLC enumerated is rendered and run against the real loader; what was
         observed is compared with the summary TLC computes for that scenario, and the
         recorded event log is validated as a behaviour of the module;
  (I->S) seeded-random bigger scenarios (flavours, shapes, nesting, failure points) are run
         and their event logs validated by TLC (TraceLoaderUser).
Deviation sets: only clauses listed as open findings are tried, smallest set first.
"""
from __future__ import annotations

import itertools
import json
import os
import shutil

from .. import common, tlc
from . import userclasses as U

INVS = ["C14_InitOnce", "C14_InitWhen", "C14_ProcAfterInit", "C14_15_Clean", "C14_Balanced",
        "C15_NoRetention", "C15_FollowFresh"]
# deviation clause -> an invariant it must break in the model (the module is not vacuous)
DEV_BREAKS = {"RestoreOnlyMainParser": "C14_15_Clean", "RestoreWithoutInstrument": "C14_Balanced",
              "StoreKeptOnFailure": "C14_15_Clean", "NoCleanupOnModelProcessorFailure": "C15_NoRetention",
              "NoRestoreForPrimitiveModel": "C14_15_Clean"}
OWN_FLAVOURS = ("frozen", "setattr", "getattribute")
PLAIN_FLAVOURS = ("plain", "slots", "classattr")
B_TYPE = ("parse", "init", "objproc")     # failures of a nested load after/without its own increment


def _cfg(work, name, spec, dev, lines):
    path = os.path.join(work, name)
    with open(path, "w") as f:
        f.write(f"SPECIFICATION {spec}\nCONSTANTS\n  Dev = {{{', '.join(json.dumps(d) for d in sorted(dev))}}}\n")
        for ln in lines:
            f.write(ln + "\n")
        f.write("CHECK_DEADLOCK FALSE\n")
    return path


def model_check(universe="Small", dev=(), invariants=INVS, listing=True, timeout=3000):
    """(M): TLC on the TLA+-enumerated universe; returns (result, scenarios)."""
    work = tlc.scratch("vt-lu-")
    try:
        lines = [f"INVARIANT {i}" for i in invariants]
        if listing:
            lines.append("INVARIANT EmitScenario")
        cfg = _cfg(work, "mc.cfg", f"{universe}Spec", dev, lines)
        r = tlc.model_check("MC_LoaderUser", cfg=cfg, timeout=timeout)
        return r, r.results("SCEN")
    finally:
        shutil.rmtree(work, ignore_errors=True)


def summaries(scenarios, dev):
    """TLC evaluates the module on the scenarios: {id: [summary of each allowed behaviour]}."""
    if not scenarios:
        return {}, None
    work = tlc.scratch("vt-lu-")
    try:
        cp = os.path.join(work, "cases.json")
        with open(cp, "w") as f:
            json.dump([U.spec_scenario(s) for s in scenarios], f)
        cfg = _cfg(work, "j.cfg", "JSpec", dev, ["INVARIANT EmitSummary"])
        r = tlc.model_check("OracleLoaderUser", cfg=cfg, env={"VT_CASES": cp}, workers=1, timeout=3000)
        tlc.require_ok(r, f"summary evaluation dev={sorted(dev)}")
        out = {}
        for x in r.results("RESULT"):
            out.setdefault(x["id"], []).append(x)
        for s in scenarios:
            if s["id"] not in out:
                raise tlc.MachineryError(f"no summary for scenario {s['id']}")
        return out, r
    finally:
        shutil.rmtree(work, ignore_errors=True)


def validate(traces, dev):
    """TLC validates recorded event logs: {index: (reached, len)}."""
    if not traces:
        return {}, None
    work = tlc.scratch("vt-lu-")
    try:
        tp = os.path.join(work, "traces.json")
        with open(tp, "w") as f:
            json.dump(traces, f)
        cfg = _cfg(work, "t.cfg", "TraceSpec", dev, ["CONSTRAINT Progress", "POSTCONDITION Report"])
        r = tlc.model_check("TraceLoaderUser", cfg=cfg, env={"VT_TRACES": tp}, workers=1, timeout=3000)
        tlc.require_ok(r, f"trace validation dev={sorted(dev)}")
        got = {x["tid"] - 1: (x["reached"], x["len"]) for x in r.results("TRACE")}
        if len(got) != len(traces):
            raise tlc.MachineryError("trace validation did not report every trace")
        return got, r
    finally:
        shutil.rmtree(work, ignore_errors=True)


# ------------------------------------------------------------------ scenarios
def assign_flavours(sc, rng, allow_own=True):
    """Rendering choice: a flavour per user class; `own` (seen by the module) follows from it."""
    flav = {}
    for c in sc["user"]:
        pool = list(PLAIN_FLAVOURS) + (list(OWN_FLAVOURS) if allow_own else [])
        if c == "Model":
            pool = [p for p in pool if p != "slots"]   # the root also carries textX's _tx_* bookkeeping
        flav[c] = rng.choice(pool)
    sc = dict(sc)
    sc["flav"] = flav
    sc["own"] = [c for c in sc["user"] if flav[c] in OWN_FLAVOURS]
    # user code may abort the load with something that is not an Exception
    sc["exc"] = rng.choice(U.EXC_KINDS) if rng.random() < 0.5 else "Exception"
    return sc


def in_fragment(sc):
    if any(fl.get("prim") for fl in sc["files"]) and sc["grepo"]:
        return False     # a plain-value model cannot register in a global repository (load from file fails)
    return _in_fragment(sc)


def _in_fragment(sc):
    """Scenarios whose observable behaviour the module states unambiguously (BUILDING rule 2).

    While the finding RestoreWithoutInstrument is listed as open: a nested load that fails without /
    after its own increment un-instruments the outer load.  When the provider swallows that error the outer load goes
    on with unreadable user objects; what the name lookup then does depends on where those objects
    sit.  Kept: no user object in the outer load, or the crisp shape (the lookup starts at a
    readable owner directly under the root and meets a user object that has children)."""
    ft = sc["fault"]
    trig = [(f, k, r) for f, fl in enumerate(sc["files"], 1) for k, r in enumerate(fl["refs"], 1) if r["inner"]]
    if not trig:
        return True
    if sc["grepo"]:
        # a load started from a provider on a metamodel with a global repository takes the outer
        # load's models into its own resolution (observed, reported; not what C14/C15 are about)
        return False
    f, k, r = trig[0]
    if not r["swallow"] or ft["step"] not in B_TYPE or sc["files"][ft["f"] - 1]["kind"] != "inner":
        return True
    if "RestoreWithoutInstrument" not in (common.open_deviations("C14") + common.open_deviations("C15")):
        return True      # the restriction below only matters while that finding is open (its prediction)
    outer = [fl for fl in sc["files"] if fl["kind"] in ("main", "import")]
    if not any(o["cls"] in sc["user"] for fl in outer for o in fl["objs"]):
        return True
    fl = sc["files"][f - 1]
    owner = fl["objs"][r["owner"] - 1]
    crisp = (fl["kind"] == "main" and not fl["imports"] and r["post"] == 0 and owner["cls"] == "Use"
             and owner["parent"] == 1
             and ("Model" in sc["user"] or ("Pkg" in sc["user"] and any(
                 o["cls"] == "Pkg" and o["parent"] == 1 for o in fl["objs"]))))
    return crisp


def stratified(cases, rng, per=1):
    """Quick-tier sample of the enumerated scenarios: `per` from every (nesting, user-class set,
    global repository, failure step, failing file) stratum instead of a plain random subset."""
    groups = {}
    for s in cases:
        groups.setdefault((s["id"].split("/")[0], tuple(s["user"]), s["grepo"], s["fault"]["step"],
                           s["fault"]["f"]), []).append(s)
    out = []
    for key in sorted(groups):
        out += rng.sample(groups[key], min(per, len(groups[key])))
    return out


def _tree(rng, nmax):
    """Random containment tree in preorder: root Model, <= nmax further objects, depth <= 3."""
    n = rng.randint(1, nmax)
    kids = {1: []}
    depth = {1: 1}
    cls = {1: "Model"}
    nxt = 2
    for _ in range(n):
        parents = [p for p in kids if cls[p] in ("Model", "Pkg") and depth[p] < 3]
        p = rng.choice(parents)
        c = rng.choice(["Pkg", "DefA", "DefA", "DefB", "Use"])
        if depth[p] + 1 >= 3 and c == "Pkg" and rng.random() < 0.5:
            c = "DefA"
        kids[p].append(nxt)
        kids[nxt] = []
        depth[nxt] = depth[p] + 1
        cls[nxt] = c
        nxt += 1
    order, newidx = [], {}

    def walk(x, parent):
        newidx[x] = len(order) + 1
        order.append(dict(cls=cls[x], parent=parent))
        for y in kids[x]:
            walk(y, newidx[x])
    walk(1, 0)
    return order


def _faults(sc):
    out = []
    for f, fl in enumerate(sc["files"], 1):
        if fl["kind"] == "follow":
            continue
        out += [("parse", f, 0), ("modelproc", f, 0)]
        for k in range(1, len(fl["refs"]) + 1):
            out += [(s, f, k) for s in ("matchproc", "provider", "unknown", "unresolvable")]
        for k, o in enumerate(fl["objs"], 1):
            if o["cls"] in sc["user"]:
                out.append(("init", f, k))
            if o["cls"] in sc["procs"]:
                out.append(("objproc", f, k))
    return out


USER_SETS = [("Pkg", "DefA"), ("DefA",), ("Model", "Pkg", "DefA"), ("Pkg",), ("Model", "DefA")]


def _prim_scenario(rng, n, pid):
    """A load whose model is a plain value (abstract root rule), user classes present."""
    files = [dict(kind="main", prim=True, objs=[], refs=[], imports=[]),
             dict(kind="follow", prim=False, objs=[dict(cls="Model", parent=0), dict(cls="Pkg", parent=1),
                                                   dict(cls="DefA", parent=2), dict(cls="Use", parent=1)],
                  refs=[dict(owner=4, tf=2, to=3, post=0, inner=0, swallow=False)], imports=[])]
    step = rng.choice(["none", "none", "parse", "modelproc"]) if pid == "C14" else rng.choice(["parse", "modelproc"])
    sc = dict(id=f"r{n}", nest="prim", user=list(rng.choice(USER_SETS)), grepo=False,
              procs=[p for p in ("Model", "Pkg", "DefA", "DefB", "Use") if rng.random() < 0.7], files=files,
              fault=dict(step=step, f=0 if step == "none" else 1, k=0), follow=2)
    return assign_flavours(sc, rng)


def random_scenario(rng, n, pid):
    """Generation only: shapes, nesting, flavours and one failure point."""
    nest = rng.choice(["one", "two", "two", "chain", "fan", "diamond", "inner", "swallow", "gstr"])
    if rng.random() < 0.04:
        return _prim_scenario(rng, n, pid)
    nfiles = {"one": 1, "two": 2, "chain": 3, "fan": 3, "diamond": 3, "inner": 2, "swallow": 2, "gstr": 2}[nest]
    imports = {"one": [[]], "two": [[2], rng.choice([[], [1]])], "chain": [[2], [3], []],
               "fan": [[2, 3], [], []], "diamond": [[2, 3], [3], rng.choice([[], [1]])],
               "inner": [[], []], "swallow": [[], []],
               # main model loaded from a string, file 2 found by the provider's file pattern
               "gstr": [[2], []]}[nest]
    files = []
    for f in range(1, nfiles + 1):
        kind = "main" if f == 1 else ("inner" if nest in ("inner", "swallow") else "import")
        files.append(dict(kind=kind, prim=False, objs=_tree(rng, 5), refs=[], imports=list(imports[f - 1])))
    # references: targets are Def objects of the own file or a directly imported one
    for f, fl in enumerate(files, 1):
        vis = [f] + [g for g in fl["imports"]]
        targets = [(g, k) for g in vis for k, o in enumerate(files[g - 1]["objs"], 1) if o["cls"] in ("DefA", "DefB")]
        for k, o in enumerate(fl["objs"], 1):
            if o["cls"] == "Use" and not targets:
                o["cls"] = "DefB"
                targets = [(g, j) for g in vis for j, x in enumerate(files[g - 1]["objs"], 1) if x["cls"] in ("DefA", "DefB")]
        for k, o in enumerate(fl["objs"], 1):
            cnt = 1 if o["cls"] == "Use" else (rng.choice([0, 0, 1, 2]) if o["cls"] == "DefA" and targets else 0)
            for _ in range(cnt):
                tf, to = rng.choice(targets)
                fl["refs"].append(dict(owner=k, tf=tf, to=to, post=rng.choice([0, 0, 0, 1, 2]), inner=0, swallow=False))
    if nest in ("inner", "swallow"):
        cands = [(k, r) for k, r in enumerate(files[0]["refs"], 1)]
        if not cands:
            files[0]["objs"].append(dict(cls="DefB", parent=1))
            files[0]["objs"].append(dict(cls="Use", parent=1))
            files[0]["refs"].append(dict(owner=len(files[0]["objs"]), tf=1, to=len(files[0]["objs"]) - 1,
                                         post=0, inner=0, swallow=False))
            cands = [(len(files[0]["refs"]), files[0]["refs"][-1])]
        k, r = rng.choice(cands)
        r["inner"] = 2
        r["swallow"] = nest == "swallow"
    files.append(dict(kind="follow", prim=False, objs=[dict(cls="Model", parent=0), dict(cls="Pkg", parent=1),
                                           dict(cls="DefA", parent=2), dict(cls="Use", parent=1)],
                      refs=[dict(owner=4, tf=nfiles + 1, to=3, post=0, inner=0, swallow=False)],
                      imports=[nfiles + 1] if nest == "gstr" else []))   # (it matches the file pattern itself)
    if pid == "C15":
        user = rng.choice(USER_SETS + [(), ()])
        grepo = rng.random() < 0.4
    else:
        user = rng.choice(USER_SETS)
        grepo = False
    procs = [p for p in ("Model", "Pkg", "DefA", "DefB", "Use") if rng.random() < 0.7]
    sc = dict(id=f"r{n}", nest=nest, user=list(user), grepo=grepo, procs=procs, files=files,
              prov="glob" if nest == "gstr" else "uri",
              fault=dict(step="none", f=0, k=0), follow=nfiles + 1)
    fts = _faults(sc)
    if nest == "swallow" and rng.random() < 0.7:
        fts = [x for x in fts if x[1] == 2] or fts
    if pid == "C15" or rng.random() < 0.65:
        step, f, k = rng.choice(fts)
        sc["fault"] = dict(step=step, f=f, k=k)
    return assign_flavours(sc, rng)


# ------------------------------------------------------------------ observation
def observe(sc):
    run = U.run_scenario(sc)
    ev = run["events"]
    main = next(i for i, fl in enumerate(sc["files"], 1) if fl["kind"] == "main")
    posts = [e for e in ev if e["ev"] == "Post"]
    ends = {e["round"]: e["res"] for e in ev if e["ev"] == "LoadEnd" and e["f"] in (main, sc["follow"])}
    user = sc["user"]

    def st(p):
        return dict(instr=[p["st"][c]["instr"] for c in user], store=[p["st"][c]["store"] for c in user])
    obs = dict(res1=ends.get(1, "?"), res2=ends.get(2, "?"), post1=st(posts[0]), post2=st(posts[1]),
               retained=posts[0]["retained"],
               inits1=sorted(e["obj"] for e in ev if e["ev"] == "UserInit" and e["round"] == 1),
               inits=sorted(e["obj"] for e in ev if e["ev"] == "UserInit"),
               same=bool(run["follow"]["same_dump"] and run["follow"]["res"] == run["follow"]["fresh_res"]))
    return run, obs


def expected_obs(x):
    a = x["post1"]
    return dict(res1=x["res1"], res2=x["res2"], post1=dict(instr=a["instr"], store=a["store"]),
                post2=dict(instr=x["instr"], store=x["store"]), retained=a["retained"],
                inits1=a["inits"], inits=x["inits"], same=x["same"])


def project(obs, pid):
    """The part of the observation the property judges."""
    if pid == "C14":
        return {k: obs[k] for k in ("res1", "post1", "inits1", "res2", "post2", "inits")}
    return {k: obs[k] for k in ("res1", "post1", "retained", "res2", "post2", "same")}


def dev_levels(devs):
    """Deviation sets in the order they are tried (a case takes the first, hence a smallest, set that
    explains it): wave 1 = the single clauses and, to shrink the next wave, all of them together;
    wave 2 = the sets in between."""
    devs = sorted(devs)
    if not devs:
        return
    allof = frozenset(devs)
    w1 = [frozenset([d]) for d in devs]
    if len(devs) > 1:
        w1.append(allof)
    yield w1
    mid = [frozenset(c) for n in range(2, len(devs)) for c in itertools.combinations(devs, n)]
    if mid:
        yield mid


def known(rep, fids, case=None):
    """One case explained by a set of listed findings: one evaluation, one line per finding."""
    fids = sorted(fids)
    rep.known_finding(fids[0], case)
    for fid in fids[1:]:
        if fid not in rep.known:
            f = rep._findings.get(fid, {})
            print(f"KNOWN-FINDING: property={rep.pid} {fid} {f.get('what', '')}".rstrip(), flush=True)
            rep.known[fid] = 0
        rep.known[fid] += 1


def short(sc):
    return dict(id=sc["id"], user=sc["user"], flav=sc.get("flav"), exc=sc.get("exc"), grepo=sc["grepo"], fault=sc["fault"],
                files=[dict(kind=f["kind"], objs=[o["cls"] + str(o["parent"]) for o in f["objs"]],
                            nrefs=len(f["refs"]), imports=f["imports"]) for f in sc["files"]])


def judge_all(rep, pid, cases, nontrivial):
    """cases: scenarios (with flav; sc["summary"] = True for TLC-enumerated ones).
    Runs them against the real code, lets TLC decide.

    A case conforms under D iff its event log (which carries the class state at every observable
    point, what is retained and the follow-up comparison) is a behaviour of the module with Dev = D;
    for TLC-enumerated scenarios a pass additionally needs the observed summary to be one of those
    TLC computes for the scenario with Dev = {}."""
    from concurrent.futures import ThreadPoolExecutor
    findings = {f["deviation"]: f["id"] for f in common.open_findings(pid)}
    runs = []
    for sc in cases:
        run, obs = observe(sc)
        runs.append(dict(sc=sc, run=run, obs=obs,
                         trace=dict(sc=U.spec_scenario(sc), mode=pid, events=U.tlc_events(sc, run))))
    pending = list(range(len(runs)))
    verdict = {}
    fallback = {}
    why = {}
    best = {}
    hard = set()
    stats = []
    for level in [[frozenset()]] + list(dev_levels(findings)):
        if not pending:
            break
        sub = [runs[i] for i in pending]
        withsum = [x["sc"] for x in sub if x["sc"].get("summary")]
        # the summary is a cross-check of the pass verdict: evaluated with Dev = {} only
        jobs = [("t", D) for D in level] + ([("s", D) for D in level if not D] if withsum else [])

        def work(job):
            kind, D = job
            return validate([x["trace"] for x in sub], D) if kind == "t" else summaries(withsum, D)
        with ThreadPoolExecutor(max_workers=max(1, tlc.NCPU)) as ex:
            res = dict(zip(jobs, ex.map(work, jobs)))
        still = []
        for j, i in enumerate(pending):
            x = runs[i]
            found = None
            for D in level:
                got, r = res[("t", D)]
                ok = got[j][0] == got[j][1]
                if not ok and got[j][0] >= best.get(i, -1):
                    k = best[i] = got[j][0]      # report the deviation set that explains the longest prefix
                    why[i] = (f"event {k + 1} of the recorded load is not a step of LoaderUser!Next with "
                              f"Dev={sorted(D)}: {json.dumps(x['trace']['events'][k])[:260]}")
                if ok and not D and x["sc"].get("summary"):
                    sums, _ = res[("s", D)]
                    exps = [common.canon(project(expected_obs(e), pid)) for e in sums[x["sc"]["id"]]]
                    o = project(x["obs"], pid)
                    ok = common.canon(o) in exps
                    if not ok:
                        hard.add(i)          # a behaviour of the module whose summary differs: never a finding
                        best[i] = 10 ** 6
                        why[i] = (f"the event log is a behaviour with Dev={sorted(D)} but the summary differs: observed "
                                  f"{common.canon(o)[:240]} but LoaderUser.tla gives {exps[0][:240]}")
                if ok:
                    found = D
                    break
            if found is not None and len(found) > 1 and len(found) == len(findings) and len(level) > 1 and len(findings) > 2:
                fallback[i] = found      # explained by all clauses together: look for a smaller set first
                found = None
            if found is None and i in hard:
                pass
            elif found is None:
                still.append(i)
            else:
                verdict[i] = found
        for (kind, D), (_, r) in res.items():
            if r is not None:
                stats.append(("TraceLoaderUser" if kind == "t" else "OracleLoaderUser", D, r))
        pending = still
    for i in pending:
        if i in fallback:
            verdict[i] = fallback[i]
    for i, x in enumerate(runs):
        case = short(x["sc"])
        if i in verdict and not verdict[i]:
            rep.passed(case, nontrivial=nontrivial(x["sc"], x["obs"]))
        elif i in verdict:
            known(rep, [findings[d] for d in verdict[i]], case)
        else:
            rep.violation(dict(scenario=x["sc"], observed=x["obs"], events=x["trace"]["events"]),
                          f"scenario {x['sc']['id']} {x['sc']['fault']}: {why.get(i, 'no listed deviation set explains it')}")
    return runs, verdict, stats


def replay_case(path, pid):
    """Re-run one stored case against the real code: 0 if it now conforms (with Dev = {} or with a
    listed deviation set, i.e. the verdict of a run would be pass / KNOWN-FINDING), 1 otherwise."""
    with open(path) as f:
        rec = json.load(f)
    sc = rec["case"]["scenario"]
    run, obs = observe(sc)
    tr = dict(sc=U.spec_scenario(sc), mode=pid, events=U.tlc_events(sc, run))
    print("scenario", json.dumps(short(sc)))
    for e in tr["events"]:
        print("  ", json.dumps(e))
    o = common.canon(project(obs, pid))
    print("observed", o)
    findings = {f["deviation"]: f["id"] for f in common.open_findings(pid)}
    for level in [[frozenset()]] + list(dev_levels(findings)):
        for D in level:
            got, _ = validate([tr], D)
            ok = got[0][0] == got[0][1]
            print(f"Dev={sorted(D)}: event log matched {got[0][0]} of {got[0][1]} events")
            if not D:
                sums, _ = summaries([sc], D)
                exps = [common.canon(project(expected_obs(e), pid)) for e in sums[sc["id"]]]
                print(f"summary {'is' if o in exps else 'is not'} one of the {len(exps)} the module allows with Dev={{}}")
                if o not in exps:
                    print("expected", exps[0])
                    if ok:
                        return 1
                    ok = False
            if ok:
                print("conforms" if not D else "explained by listed findings " + ", ".join(findings[d] for d in sorted(D)))
                return 0
    print("no listed deviation set explains it")
    return 1
