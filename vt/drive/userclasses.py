"""Driver for C14 / C15: renders an abstract load scenario of spec/LoaderUser.tla into
real textX input (grammar, user classes, files, providers, processors), runs the real
loader and records what can be seen from outside (no hooks in /repo):

  * the event log  UserNew / Resolve / UserInit / ObjProc / ModelProc / LoadEnd / Post
    (objects named by stable ids  file*10 + preorder index, never id());
  * the class snapshot (projection of `instr`, `store`, "attribute methods are the
    originals") at the observable points and after the call returned or raised;
  * after a failure: what is still alive after the exception was dropped and
    gc.collect() ran (weak references taken in the callbacks + gc.get_objects()).

The driver renders, drives and projects only.  What *should* be observed is computed
by TLC from LoaderUser.tla.

Scenario (JSON, the same record TLC reads):
  id, user: [class names], own: [user classes with their own attribute-access methods],
  grepo: bool, procs: [rule names with an object processor],
  files: [ {kind: main|import|inner|follow, prim: bool (the model is a plain value: no objects),
            objs: [{cls, parent}],   (preorder, objs[0] = Model root)
            refs: [{owner, tf, to, post, inner, swallow}],  (textual order; post = Postponed answers first;
                                                             inner = file loaded from a string by the provider)
            imports: [file index]} ],                       (1-based indices everywhere)
  fault: {step, f, k}   step in none|parse|matchproc|provider|unknown|unresolvable|init|objproc|modelproc,
                        located at file f and reference / object k,
  follow: file index of the follow-up input,
  prov: uri (import statements + ImportURI provider) | glob (main model loaded from a string, the other
        files found by a GlobalRepo provider's file pattern),
  flav: {class: flavour}   (rendering only; the specification sees `own`)
  exc: Exception|BaseException|KeyboardInterrupt|SystemExit   (rendering only: class of the exception
                        user code raises at the fault point; the load "fails" in the same way)
"""
from __future__ import annotations

import gc
import os
import shutil
import sys
import weakref

from .. import tlc

GRAMMAR = r'''
Start:   Model | INT;      // abstract root: a model can be a plain value
Model:   'model' name=ID imports*=Import elems*=Elem;
Import:  'import' importURI=STRING;
Elem:    Pkg | Def | Use;
Pkg:     'pkg' name=ID '{' elems*=Elem '}';
Def:     DefA | DefB;
DefA:    'defa' name=ID ('extends' extends+=[Def:QName][','])?;
DefB:    'defb' name=ID;
Use:     'use' ref=[Def:QName];
QName:   ID('.'ID)*;
Comment: /#.*$/;
'''
RULE_ATTRS = {"Model": ["name", "imports", "elems"], "Pkg": ["name", "elems"], "DefA": ["name", "extends"]}
MODEL_CLASSES = ("Model", "Pkg", "DefA", "DefB", "Use")
FLAVOURS = ("plain", "slots", "frozen", "setattr", "getattribute", "classattr")
EXC_KINDS = ("Exception", "BaseException", "KeyboardInterrupt", "SystemExit")
PAD = 400            # every file starts at its own offset so that _tx_position identifies an object
BOOM = "boomref"     # reference text on which the match processor raises
NOPE = "nope"        # a name nothing defines


class Boom(Exception):
    """Raised by harness callbacks at the injected fault point."""


class BoomBase(BaseException):
    """The same, for loads aborted by something that is not an Exception (sys.exit, Ctrl-C, ...)."""


def boom(sc, step):
    """The exception user code raises at the fault point; its class is a rendering choice (sc['exc'])."""
    kind = sc.get("exc", "Exception")
    if kind == "BaseException":
        return BoomBase(step)
    if kind == "KeyboardInterrupt":
        return KeyboardInterrupt("Boom:" + step)
    if kind == "SystemExit":
        return SystemExit("Boom:" + step)
    return Boom(step)


def oid(f, k):
    return f * 10 + k


# ------------------------------------------------------------------ rendering
def obj_name(sc, f, k):
    o = sc["files"][f - 1]["objs"][k - 1]
    return {"Model": "m", "Pkg": "p", "DefA": "a", "DefB": "b", "Use": "u"}[o["cls"]] + f"{f}x{k}"


def render_file(sc, f):
    """Text of file f, and {position of the reference text: k} / {position of an object: k}."""
    fl = sc["files"][f - 1]
    objs, refs = fl["objs"], fl["refs"]
    fault = sc["fault"]
    out = ["\n" * (PAD * f)]
    refpos, objpos = {}, {}
    if fl.get("prim"):
        # the model is the plain value f (the root rule is `Model | INT`)
        broken = fault["step"] == "parse" and fault["f"] == f
        return out[0] + (f"{f} ???" if broken else str(f)), refpos, objpos

    def pos():
        return sum(len(x) for x in out)

    def emit(k):
        o = objs[k - 1]
        kids = [j for j in range(1, len(objs) + 1) if objs[j - 1]["parent"] == k]
        nm = obj_name(sc, f, k)
        objpos[pos()] = k
        if o["cls"] == "Model":
            out.append(f"model {nm}")
            for i in (fl["imports"] if sc.get("prov", "uri") == "uri" else []):
                out.append(f' import "f{i}.m"')      # (a pattern provider finds the other files itself)
            for j in kids:
                out.append(" ")
                emit(j)
        elif o["cls"] == "Pkg":
            out.append(f"pkg {nm} {{")
            for j in kids:
                out.append(" ")
                emit(j)
            out.append(" }")
        elif o["cls"] == "DefB":
            out.append(f"defb {nm}")
        elif o["cls"] in ("DefA", "Use"):
            mine = [r for r in range(1, len(refs) + 1) if refs[r - 1]["owner"] == k]
            out.append(f"defa {nm}" if o["cls"] == "DefA" else "use")
            for n, r in enumerate(mine):
                out.append((" extends " if n == 0 else ", ") if o["cls"] == "DefA" else " ")
                refpos[pos()] = r
                rr = refs[r - 1]
                if fault["step"] == "matchproc" and fault["f"] == f and fault["k"] == r:
                    out.append(BOOM)
                elif fault["step"] == "unknown" and fault["f"] == f and fault["k"] == r:
                    out.append(NOPE)
                else:
                    out.append(obj_name(sc, rr["tf"], rr["to"]))
        else:
            raise tlc.MachineryError(f"unknown class {o['cls']}")

    broken = fault["step"] == "parse" and fault["f"] == f
    if broken:
        out.append("model broken {{{ ")
    emit(1)
    if broken:
        out.append(" }}} ???")
    return "".join(out), refpos, objpos


# ------------------------------------------------------------------ user classes
def make_class(cname, flavour, drv):
    """A fresh user class per scenario (a leak in one scenario never reaches the next)."""
    attrs = RULE_ATTRS[cname]

    def log_init(self, kw):
        drv.on_init(cname, self, kw)

    if flavour == "plain":
        class C:
            def __init__(self, **kw):
                log_init(self, kw)
                for k, v in kw.items():
                    setattr(self, k, v)
    elif flavour == "slots":
        class C:
            __slots__ = tuple(attrs) + ("parent", "_tx_position", "_tx_position_end", "__weakref__")

            def __init__(self, **kw):
                log_init(self, kw)
                for k, v in kw.items():
                    setattr(self, k, v)
    elif flavour == "frozen":
        class C:
            def __init__(self, **kw):
                log_init(self, kw)
                for k, v in kw.items():
                    object.__setattr__(self, k, v)
                object.__setattr__(self, "_frozen", True)

            def __setattr__(self, name, value):
                if self.__dict__.get("_frozen"):
                    raise AttributeError("frozen")
                object.__setattr__(self, name, value)
    elif flavour == "classattr":
        # class-level defaults named like the grammar attributes (`elems = []`, `name = None`)
        class C:
            def __init__(self, **kw):
                log_init(self, kw)
                for k, v in kw.items():
                    setattr(self, k, v)
        for a in attrs:
            setattr(C, a, None if a == "name" else [])
    elif flavour == "setattr":
        class C:
            sets = 0

            def __init__(self, **kw):
                log_init(self, kw)
                for k, v in kw.items():
                    setattr(self, k, v)

            def __setattr__(self, name, value):
                type(self).sets += 1
                object.__setattr__(self, name, value)
    elif flavour == "getattribute":
        class C:
            gets = 0

            def __init__(self, **kw):
                log_init(self, kw)
                for k, v in kw.items():
                    setattr(self, k, v)

            def __getattribute__(self, name):
                if not name.startswith("_"):
                    type(self).gets += 1
                return object.__getattribute__(self, name)
    else:
        raise tlc.MachineryError(f"unknown flavour {flavour}")
    orig_new = C.__new__

    def __new__(cls, *a, **k):
        inst = orig_new(cls)
        drv.on_new(cname, inst)
        return inst

    C.__new__ = __new__
    C.__name__ = C.__qualname__ = cname
    return C


ATTR_METHODS = ("__setattr__", "__getattribute__", "__delattr__", "__getattr__")


def class_snapshot(cls):
    """What C14 compares before/after: keys of the class dict and the identity of the
    attribute-access methods (ids are only compared with ids taken in the same run)."""
    d = cls.__dict__
    keys = sorted(k for k in d if k not in ("_tx_obj_attrs", "sets", "gets"))
    return dict(keys=keys, meth={m: id(d[m]) if m in d else 0 for m in ATTR_METHODS})


# ------------------------------------------------------------------ the run
class Driver:
    def __init__(self, sc, workdir, write="all"):
        self.sc, self.dir = sc, workdir
        self.glob = sc.get("prov", "uri") == "glob"   # provider finds files by pattern lib*.m; main is a string
        self.events = []
        self.texts, self.refpos, self.objpos = {}, {}, {}
        for f in range(1, len(sc["files"]) + 1):
            t, rp, op = render_file(sc, f)
            self.texts[f] = t
            for p, k in rp.items():
                self.refpos[p] = (f, k)
            for p, k in op.items():
                self.objpos[p] = (f, k)
            kind = sc["files"][f - 1]["kind"]
            if self.glob:
                # the follow-up input is written when its turn comes (it matches the pattern itself)
                towrite = kind == "import" and write == "all"
            else:
                towrite = kind in ("main", "import", "follow")
            if towrite:
                with open(self.path(f), "w") as fh:
                    fh.write(t)
        self.byname = {}
        for f in range(1, len(sc["files"]) + 1):
            for k in range(1, len(sc["files"][f - 1]["objs"]) + 1):
                self.byname[obj_name(sc, f, k)] = oid(f, k)
        self.attempts = {}
        self.weak = []          # weak references to every object seen in a callback
        self.pending_new = []   # user objects allocated, not yet named: [(cls, weakref, slot in events)]
        self.round = 1
        self.classes = {}
        self.base = {}

    def path(self, f):
        kind = self.sc["files"][f - 1]["kind"]
        if self.glob:
            return os.path.join(self.dir, "libfollow.m" if kind == "follow" else f"lib{f}.m")
        return os.path.join(self.dir, f"f{f}.m")

    def start_follow(self):
        """Round 2.  With a pattern provider: the files of round 1 go away, the follow-up file appears."""
        self.round = 2
        if self.glob:
            for n in os.listdir(self.dir):
                if n.startswith("lib"):
                    os.remove(os.path.join(self.dir, n))
            with open(self.path(self.sc["follow"]), "w") as fh:
                fh.write(self.texts[self.sc["follow"]])

    # ---- set-up
    def build(self):
        from textx import metamodel_from_str
        from textx.scoping import ModelLoader
        from textx.scoping import providers as sp
        sc = self.sc
        for c in sc["user"]:
            self.classes[c] = make_class(c, sc["flav"][c], self)
        kw = {}
        if sc["grepo"]:
            kw["global_repository"] = True
        mm = metamodel_from_str(GRAMMAR, classes=[self.classes[c] for c in sc["user"]], **kw)
        drv = self

        class Sched(ModelLoader):
            """ImportURI loading + answers scheduled by the scenario (Postponed / raise / nested load)."""

            def __init__(self):
                self.real = (sp.PlainNameGlobalRepo(os.path.join(drv.dir, "lib*.m")) if drv.glob
                             else sp.PlainNameImportURI())

            def load_models(self, model, encoding="utf-8"):
                drv._flush_new()      # the file is constructed: name its user objects while they have their names
                if isinstance(model, int):
                    return None       # a plain value imports nothing
                return self.real.load_models(model, encoding=encoding)

            def __call__(self, obj, attr, ref):
                return drv.on_resolve(self.real, obj, attr, ref)

        mm.register_scope_providers({"*.*": Sched()})
        procs = {}
        for rule in sc["procs"]:
            procs[rule] = (lambda r: lambda o: drv.on_objproc(r, o))(rule)
        if sc["fault"]["step"] == "matchproc":
            procs["QName"] = self.on_matchproc
        if procs:
            mm.register_obj_processors(procs)
        mm.register_model_processor(lambda model, _mm: drv.on_modelproc(model))
        self.mm = mm
        for c, cls in self.classes.items():
            self.base[c] = class_snapshot(cls)
        return mm

    # ---- naming
    def _entry(self, o):
        cls = type(o)
        st = cls.__dict__.get("_tx_obj_attrs")
        if st is not None:
            return st.get(id(o))
        return None

    def name_of(self, o):
        """Stable id of a model object (looked up without going through the class's own methods)."""
        e = self._entry(o) if type(o).__name__ in self.classes else None
        try:
            if e is not None and "name" in e:
                return self.byname.get(e["name"], 0)
            if type(o).__name__ == "Use":
                f, k = self.objpos.get(object.__getattribute__(o, "_tx_position"), (0, 0))
                return oid(f, k)
            return self.byname.get(object.__getattribute__(o, "name"), 0)
        except AttributeError:
            return 0

    def _flush_new(self):
        keep = []
        for cname, w, slot in self.pending_new:
            o = w()
            n = self.name_of(o) if o is not None else 0
            if n:
                self.events[slot]["obj"] = n
            else:
                keep.append((cname, w, slot))
        self.pending_new = keep

    def state(self):
        """Projection of instr / store / 'methods are the originals' from the class dicts."""
        out = {}
        for c, cls in self.classes.items():
            d = cls.__dict__
            st = d.get("_tx_obj_attrs", {})
            names = sorted(self.byname.get(e.get("name"), 0) for e in st.values())
            out[c] = dict(instr=int(d.get("_tx_instrumented", 0)), store=names,
                          orig=class_snapshot(cls) == self.base[c])
        return out

    def emit(self, ev, **kw):
        self._flush_new()
        e = dict(ev=ev, round=self.round)
        e.update(kw)
        self.events.append(e)
        return e

    # ---- callbacks
    def on_new(self, cname, inst):
        self._flush_new()
        w = weakref.ref(inst)
        self.weak.append(w)
        self.events.append(dict(ev="UserNew", round=self.round, cls=cname, obj=0))
        self.pending_new.append((cname, w, len(self.events) - 1))

    def on_init(self, cname, inst, kw):
        sc = self.sc
        me = self.byname.get(kw.get("name"), 0)
        refs = []
        for v in (kw.get("extends") or []):
            n = self.name_of(v) if type(v).__name__ in MODEL_CLASSES else 0
            refs.append(n)
        par = kw.get("parent")
        self.emit("UserInit", cls=cname, obj=me, args=sorted(kw), refs=sorted(refs),
                  parent=self.name_of(par) if par is not None else 0, st=self.state())
        ft = sc["fault"]
        if ft["step"] == "init" and me == oid(ft["f"], ft["k"]) and self.round == 1:
            raise boom(self.sc, "init")

    def on_objproc(self, rule, o):
        self.weak.append(weakref.ref(o))
        n = self.name_of(o)
        self.emit("ObjProc", rule=rule, obj=n, st=self.state())
        ft = self.sc["fault"]
        if ft["step"] == "objproc" and n == oid(ft["f"], ft["k"]) and self.round == 1:
            raise boom(self.sc, "objproc")

    def on_matchproc(self, value):
        self._flush_new()
        if value == BOOM:
            raise boom(self.sc, "matchproc")
        return value

    def on_modelproc(self, model):
        f = model if isinstance(model, int) else self.name_of(model) // 10
        self.emit("ModelProc", f=f, st=self.state())
        ft = self.sc["fault"]
        if ft["step"] == "modelproc" and f == ft["f"] and self.round == 1:
            raise boom(self.sc, "modelproc")

    def on_resolve(self, real, obj, attr, ref):
        from textx.scoping import Postponed
        self.weak.append(weakref.ref(obj))
        f, k = self.refpos.get(ref.position, (0, 0))
        r = self.sc["files"][f - 1]["refs"][k - 1]
        key = (self.round, f, k)
        n = self.attempts[key] = self.attempts.get(key, 0) + 1
        ft = self.sc["fault"]
        if n == 1 and r.get("inner"):
            self.emit("InnerBegin", f=r["inner"], st=self.state())
            try:
                self.load_str(r["inner"])
            except BaseException:
                if not r.get("swallow"):
                    raise
        if ft["step"] == "provider" and (f, k) == (ft["f"], ft["k"]) and self.round == 1:
            self.emit("Resolve", f=f, k=k, ans="raise", st=self.state())
            raise boom(self.sc, "provider")
        post = 10 ** 6 if (ft["step"] == "unresolvable" and (f, k) == (ft["f"], ft["k"]) and self.round == 1) else r["post"]
        if n <= post:
            self.emit("Resolve", f=f, k=k, ans="postponed", st=self.state())
            return Postponed()
        res = real(obj, attr, ref)
        if res is None:
            self.emit("Resolve", f=f, k=k, ans="unknown", st=self.state())
            return None
        self.emit("Resolve", f=f, k=k, ans="resolved", to=self.name_of(res), st=self.state())
        return res

    # ---- loads
    def _end(self, f, err):
        kind = "ok"
        if err is not None:
            kind = type(err).__name__
            if isinstance(err, (Boom, BoomBase)):
                kind = "Boom:" + str(err)
            elif isinstance(err, (KeyboardInterrupt, SystemExit)) and str(err).startswith("Boom:"):
                kind = str(err)
            elif kind == "TextXSemanticError":
                msg = str(err)
                kind = "unknown" if "Unknown object" in msg else (
                    "unresolvable" if "Unresolvable cross references" in msg else "semantic")
            elif kind == "TextXSyntaxError":
                kind = "syntax"
        self.emit("LoadEnd", f=f, res=kind, st=self.state())
        return kind

    def load_str(self, f):
        self.emit("LoadBegin", f=f)
        try:
            m = self.mm.model_from_str(self.texts[f])
        except BaseException as e:
            self._end(f, e)
            raise
        self._end(f, None)
        return m

    def load_file(self, f):
        self.emit("LoadBegin", f=f)
        try:
            if self.glob and self.sc["files"][f - 1]["kind"] == "main":
                m = self.mm.model_from_str(self.texts[f])
            else:
                m = self.mm.model_from_file(self.path(f))
        except BaseException as e:
            return None, self._end(f, e)
        return m, self._end(f, None)

    def alive(self):
        """Stable ids of model objects still alive (after the caller dropped everything it held)."""
        gc.collect()
        gc.collect()
        seen, out = set(), []
        cands = [w() for w in self.weak]
        classes = {n: self.mm[n] for n in MODEL_CLASSES}
        for o in gc.get_objects():
            if type(o).__name__ in classes and type(o) is classes[type(o).__name__]:
                cands.append(o)
        for o in cands:
            if o is None or id(o) in seen:
                continue
            seen.add(id(o))
            out.append(self.name_of(o))
        del cands, o
        return sorted(out)


def dump_model(drv, model):
    """Structural dump of a loaded model, plus how each user object behaves afterwards."""
    def d(o):
        cn = type(o).__name__
        r = dict(cls=cn)
        if cn != "Use":
            r["name"] = o.name
        if cn in ("Model", "Pkg"):
            r["elems"] = [d(x) for x in o.elems]
        if cn == "DefA":
            r["extends"] = [x.name for x in o.extends]
        if cn == "Use":
            r["ref"] = o.ref.name
        if cn != "Model":
            r["parent"] = type(o.parent).__name__
        if cn in drv.classes:
            r["user"] = type(o) is drv.classes[cn]
            try:
                o.probe_attribute = 1
                r["probe"] = "set"
            except AttributeError:
                r["probe"] = "refused"
            c = drv.classes[cn]
            r["counters"] = [c.__dict__.get("sets", -1) > 0, c.__dict__.get("gets", -1) > 0]
        return r
    return d(model)


def run_scenario(sc):
    """Run one scenario against the real code; returns dict(events, follow)."""
    common_reset()
    work = tlc.scratch("vt-uc-")
    try:
        drv = Driver(sc, work)
        drv.build()
        main = next(i for i, fl in enumerate(sc["files"], 1) if fl["kind"] == "main")
        model, kind = drv.load_file(main)
        ok = kind == "ok"
        retained = []
        if not ok:
            model = None
            retained = drv.alive()
        drv.emit("Post", ok=ok, st=drv.state(), retained=retained)
        # follow-up load with the same metamodel, compared with a fresh metamodel's result
        follow = None
        if sc.get("follow"):
            del model
            drv.start_follow()
            m2, kind2 = drv.load_file(sc["follow"])
            st2 = drv.state()
            drv.emit("Post", ok=kind2 == "ok", st=st2, retained=[])
            d2 = dump_model(drv, m2) if m2 is not None else None
            fresh = Driver(dict(sc, fault=dict(step="none", f=0, k=0)), work, write="follow")
            fresh.build()
            fresh.start_follow()
            m3, kind3 = fresh.load_file(sc["follow"])
            d3 = dump_model(fresh, m3) if m3 is not None else None
            follow = dict(res=kind2, fresh_res=kind3, same_dump=d2 == d3, dump=d2, fresh_dump=d3,
                          same_classes=all(st2[c]["orig"] == fresh.state()[c]["orig"] and
                                           st2[c]["instr"] == fresh.state()[c]["instr"] and
                                           len(st2[c]["store"]) == len(fresh.state()[c]["store"])
                                           for c in st2))
        return dict(events=drv.events, follow=follow)
    finally:
        shutil.rmtree(work, ignore_errors=True)
        common_reset()


def common_reset():
    """Global state a load may touch."""
    if "textx.registration" in sys.modules:
        reg = sys.modules["textx.registration"]
        reg.metamodels = {}


# ------------------------------------------------------------------ projection for TLC
def tlc_events(sc, run):
    """The recorded log in the uniformly typed shape TraceLoaderUser.tla reads."""
    user = sc["user"]
    out = []
    for e in run["events"]:
        n = e["ev"]
        if n in ("LoadBegin", "InnerBegin"):
            continue
        t = dict(ev=n, o=0, k=0, s="", args=[], refs=[], b=False, hasst=False, si=[], ss=[], so=[])
        if n == "UserNew":
            t.update(o=e["obj"], s=e["cls"])
        elif n == "Resolve":
            t.update(o=oid(e["f"], e["k"]), k=e.get("to", 0), s=e["ans"])
        elif n == "UserInit":
            t.update(o=e["obj"], k=e["parent"], s=e["cls"], args=e["args"], refs=e["refs"])
        elif n == "ObjProc":
            t.update(o=e["obj"], s=e["rule"])
        elif n == "ModelProc":
            t.update(o=e["f"])
        elif n == "LoadEnd":
            t.update(o=e["f"], s=e["res"])
        elif n == "Post":
            t.update(b=e["ok"], refs=e["retained"])
        else:
            raise tlc.MachineryError(f"unknown event {n}")
        st = e.get("st")
        if st is not None:
            t.update(hasst=True, si=[st[c]["instr"] for c in user], ss=[st[c]["store"] for c in user],
                     so=[st[c]["orig"] for c in user])
        out.append(t)
    fo = run.get("follow")
    if fo is not None:
        out.append(dict(ev="Follow", o=0, k=0, s=fo["res"], args=[], refs=[],
                        b=bool(fo["same_dump"] and fo["res"] == fo["fresh_res"]),
                        hasst=False, si=[], ss=[], so=[]))
    return out


def spec_scenario(sc):
    """The part of the scenario the specification reads (no rendering choices)."""
    d = {k: sc[k] for k in ("id", "user", "own", "grepo", "procs", "files", "fault", "follow")}
    d["prov"] = sc.get("prov", "uri")
    return d
