"""Driver for textx.registration: applies abstract operations of spec/Registry.tla
to the real module and projects the module globals onto the abstract state."""
from __future__ import annotations

import fnmatch

NOPAT = "<none>"


class _Dist:
    def __init__(self, name):
        self.name, self.version = name, "0"


class _EP:
    def __init__(self, obj, dist):
        self._obj, self.dist = obj, _Dist(dist)

    def load(self):
        return self._obj


class RealRegistry:
    """One instance per replay; reset() gives the initial state of the spec."""

    def __init__(self, eplangs, epgens):
        import textx.registration as reg
        from textx.metamodel import TextXMetaMetaModel
        self.reg = reg
        self.MM = TextXMetaMetaModel
        self.eplangs, self.epgens = eplangs, epgens
        self._orig_entry_points = reg.entry_points

    def reset(self):
        reg = self.reg
        self.labels = {}      # id(metamodel) -> label (kept alive in self.keep)
        self.keep = []
        self.fresh = 0
        self.kind = {}        # id(LanguageDesc) -> (kind, inst)
        reg.languages = None
        reg.generators = None
        reg.metamodels = {}

        def factory(**kw):
            if "refused_arg" in kw:          # kwargs the factory does not accept
                raise TypeError("unexpected keyword argument 'refused_arg'")
            self.fresh += 1
            mm = self.MM()
            self.keep.append(mm)
            self.labels[id(mm)] = ["fresh", str(self.fresh)]
            return mm

        self.factory = factory
        ep_l, ep_g = [], []
        for d in self.eplangs:
            ld = reg.LanguageDesc(d["name"], pattern=None if d["pat"] == NOPAT else d["pat"], metamodel=factory)
            self.kind[id(ld)] = ("factory", "-")
            self.keep.append(ld)
            ep_l.append(_EP(ld, "proj"))
        for g in self.epgens:
            gd = reg.GeneratorDesc(g["lang"], g["target"], generator=lambda *a, **k: None)
            self.keep.append(gd)
            ep_g.append(_EP(gd, "proj"))

        def entry_points(group=None, **kw):
            return {"textx_languages": ep_l, "textx_generators": ep_g}.get(group, [])

        reg.entry_points = entry_points

    def close(self):
        reg = self.reg
        reg.entry_points = self._orig_entry_points
        reg.languages = None
        reg.generators = None
        reg.metamodels = {}

    # ------------------------------------------------------------------
    def apply(self, name, args):
        reg = self.reg
        try:
            if name == "RegisterLanguage":
                n, p, kd = args
                if kd == "instance":
                    mm = self.MM()
                    self.keep.append(mm)
                    self.labels[id(mm)] = ["inst", n]
                    meta = mm
                else:
                    meta = self.factory
                ld = reg.LanguageDesc(n, pattern=None if p == NOPAT else p, metamodel=meta)
                self.keep.append(ld)
                self.kind[id(ld)] = (kd, n if kd == "instance" else "-")
                reg.register_language(ld)
                v = ["-"]
            elif name == "DescribeLanguage":
                d = reg.language_description(args[0])
                v = [d.name, NOPAT if d.pattern is None else d.pattern]
            elif name == "ListLanguages":
                v = list(reg.language_descriptions().keys())
            elif name == "ClearLanguages":
                reg.clear_language_registrations()
                v = ["-"]
            elif name == "MetamodelFor":
                n, kw, bad = args
                mm = reg.metamodel_for_language(n, **(({"refused_arg": 1} if bad else {"some_arg": 1}) if kw else {}))
                v = self.labels.get(id(mm), ["unknown-object"])
            elif name == "LanguagesForFile":
                v = [d.name.lower() for d in reg.languages_for_file(args[0])]
                # report registry keys: find the key under which each desc is stored
                v = [self._key_of(d) for d in reg.languages_for_file(args[0])]
            elif name == "LanguageForFile":
                v = [self._key_of(reg.language_for_file(args[0]))]
            elif name == "RegisterGenerator":
                reg.register_generator(reg.GeneratorDesc(args[0], args[1], generator=lambda *a, **k: None))
                v = ["-"]
            elif name == "DescribeGenerator":
                g = reg.generator_description(args[0], args[1], any_permitted=args[2])
                v = [g.language, g.target]
            elif name == "ClearGenerators":
                reg.clear_generator_registrations()
                v = ["-"]
            else:
                raise ValueError(name)
            return {"ok": True, "v": v}
        except Exception as e:  # the exception class is the result
            return {"ok": False, "v": [type(e).__name__]}

    def _key_of(self, desc):
        for k, d in (self.reg.languages or {}).items():
            if d is desc:
                return k
        return "?" + desc.name

    def project(self):
        reg = self.reg
        langs = []
        for k, d in (reg.languages or {}).items():
            kind, inst = self.kind.get(id(d), ("?", "?"))
            langs.append(dict(key=k, name=d.name, pat=NOPAT if d.pattern is None else d.pattern,
                              kind=kind, inst=inst))
        gens = []
        for lk, tg in (reg.generators or {}).items():
            for tk, g in tg.items():
                gens.append(dict(lkey=lk, tkey=tk, lang=g.language, target=g.target))
        cache = [dict(key=k, mm=self.labels.get(id(m), ["unknown-object"])) for k, m in reg.metamodels.items()]
        return dict(lloaded=reg.languages is not None, langs=langs, gloaded=reg.generators is not None,
                    gens=gens, cache=cache, fresh=self.fresh)


def norm_state(st):
    """Canonical form for comparison (cache is a set; gens order by (lang, target) insertion is kept)."""
    st = dict(st)
    st["cache"] = sorted(st["cache"], key=lambda c: c["key"])
    st["gens"] = sorted(st["gens"], key=lambda g: (g["lkey"], g["tkey"]))
    return st


def match_table(files, patterns):
    return {f: {p: (f == p or fnmatch.fnmatch(f, p)) for p in patterns} for f in files}
