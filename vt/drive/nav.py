"""Driver for spec/Nav.tla (C05, C07): carrier grammar from the meta-model data,
rendering of object graphs as model text, locating the real objects by path,
seeded-random graphs, and the TLC runs that enumerate graphs / answer queries.

Nothing here computes an expected answer: answers come from NavOracle.tla.
"""
from __future__ import annotations

import json
import os
import shutil

from .. import tlc

# ------------------------------------------------------------------ meta-model data


def class_of(mm, name):
    for c in mm["classes"]:
        if c["name"] == name:
            return c
    raise KeyError(name)


def concrete_of(mm, typ):
    """Concrete classes below a rule name (data lookup used for *generating* graphs only)."""
    names = {c["name"] for c in mm["classes"]}
    if typ in names:
        return [typ]
    out = []
    for a in mm["abstracts"]:
        if a["name"] == typ:
            for s in a["subs"]:
                for c in concrete_of(mm, s):
                    if c not in out:
                        out.append(c)
    return out


def allowed_classes(mm, attr):
    """Classes a containment attribute can hold (data lookup used for *generating* graphs only)."""
    return list(attr["alts"]) if attr["typ"] == "OBJECT" else concrete_of(mm, attr["typ"])


def keyword(cname):
    """Class keyword of the carrier; the closing bracket keeps keywords prefix-free whatever the class names."""
    return f"<{cname}>"


# Names: the module's names are abstract tokens; a carrier variant decides how they are written.
#   ID:     name=ID,     [T]          x -> x
#   INT:    name=INT,    [T|INT]      the i-th name of NAME_POOL -> i      (x -> 0, a falsy value)
#   STRING: name=STRING, [T|STRING]   x -> "" (falsy), every other name -> "name"
NAME_POOL = ["x", "y", "z", "w", "v", "u", "t", "s"]


def name_value(nametype, nm):
    """The Python value textX gives the name / reference text (also the key of a builtins entry)."""
    if nametype == "INT":
        return NAME_POOL.index(nm)
    if nametype == "STRING":
        return "" if nm == "x" else nm
    return nm


def name_text(nametype, nm):
    v = name_value(nametype, nm)
    if nametype == "INT":
        return str(v)
    if nametype == "STRING":
        return '"' + v + '"'
    return v


def name_of_message(nametype, txt):
    """Abstract name for the text an error message shows (None when it is not one of ours)."""
    for nm in (NAME_POOL if nametype != "ID" else [txt]):
        if str(name_value(nametype, nm)) == txt:
            return nm
    return None


PRIM_TEXT = "7"     # how a plain value (0 in the graph) is written; the attribute alternative is INT


def grammar_of(mm, nametype="ID", style="sep"):
    """A recursive carrier grammar: every class is `<Class> [name] { attr: value ... }`.
    style: how a list of references is written in the grammar: "sep" `a+=[T][',']`,
    "rep" `a=[T] (',' a=[T])*` (the same attribute assigned at two places with the same target;
    textX makes it a list)."""
    kws = [keyword(c["name"]) for c in mm["classes"]]
    for a in kws:
        for b in kws:
            if a != b and b.startswith(a):
                raise tlc.MachineryError(f"carrier keywords not prefix-free: {a} {b}")
    rules = {}
    for c in mm["classes"]:
        parts = [f"'{keyword(c['name'])}'"]
        if c["named"]:
            parts.append(f"name={nametype}")
        parts.append("'{'")
        for a in c["attrs"]:
            n, t = a["name"], a["typ"]
            link = f"[{t}]" if nametype == "ID" else f"[{t}|{nametype}]"
            if a["cont"] and t == "OBJECT":
                # one attribute assigned at several places with different rules: textX types it OBJECT
                # (and makes it a list)
                if not a["many"]:
                    raise tlc.MachineryError("an OBJECT-typed carrier attribute is a list")
                alts = " | ".join(f"{n}+={r}" for r in list(a["alts"]) + (["INT"] if a["prim"] else []))
                parts.append(f"('{n}:' '[' ({alts})* ']')?")
            elif a["cont"] and a["prim"]:
                raise tlc.MachineryError("plain values are only rendered for OBJECT-typed carrier attributes")
            elif a["cont"] and not a["many"]:
                parts.append(f"('{n}:' {n}={t})?")
            elif a["cont"]:
                parts.append(f"('{n}:' '[' {n}*={t} ']')?")
            elif not a["many"]:
                parts.append(f"('{n}:' {n}={link})?")
            elif style == "rep":
                parts.append(f"('{n}:' {n}={link} (',' {n}={link})*)?")
            else:
                parts.append(f"('{n}:' {n}+={link}[','])?")
        parts.append("'}'")
        rules[c["name"]] = f"{c['name']}: {' '.join(parts)};"
    for a in mm["abstracts"]:
        rules[a["name"]] = f"{a['name']}: {' | '.join(a['subs'])};"
    order = [mm["root"]] + [a["name"] for a in mm["abstracts"]] + \
            [c["name"] for c in mm["classes"] if c["name"] != mm["root"]]
    return "\n".join(rules[r] for r in order) + "\n"


def check_metamodel(mm, real_mm, ref_types=True):
    """The real meta-model must have exactly the attributes the data says (renderer self-check).
    ref_types=False: the target class of a reference attribute is not looked at here (C07 judges it
    through the behaviour of the references)."""
    for c in mm["classes"]:
        cls = real_mm[c["name"]]
        got = [(a.name, bool(a.cont), a.mult in ("0..*", "1..*"), a.cls.__name__ if (a.cont or ref_types) else "-")
               for a in cls._tx_attrs.values() if a.name != "name"]
        want = [(a["name"], a["cont"], a["many"], a["typ"] if (a["cont"] or ref_types) else "-") for a in c["attrs"]]
        if got != want or (("name" in cls._tx_attrs) != c["named"]):
            raise tlc.MachineryError(f"carrier grammar does not give the meta-model data for {c['name']}: {got} vs {want}")
    for a in mm["abstracts"]:
        got = [x.__name__ for x in real_mm[a["name"]]._tx_inh_by]
        if got != a["subs"]:
            raise tlc.MachineryError(f"abstract rule {a['name']}: {got} vs {a['subs']}")


# ------------------------------------------------------------------ graphs


def n_objs(g):
    return len(g["cls"])


def root_of(g):
    return g["par"].index(0) + 1


def render(mm, g, nametype="ID"):
    """Model text of graph g (one object per line, indented)."""
    out = []
    if nametype == "ID":
        def nt(nm):
            return nm
    else:
        def nt(nm):
            return name_text(nametype, nm)

    def node(o, depth):
        c = class_of(mm, g["cls"][o - 1])
        kids = {k["a"]: k["e"] for k in g["kids"][o - 1]}
        refs = {r["a"]: r["names"] for r in g["refs"][o - 1]}
        pad = "  " * depth
        head = pad + keyword(c["name"]) + (" " + nt(g["name"][o - 1]) if c["named"] else "") + " {"
        out.append(head)
        for a in c["attrs"]:
            n = a["name"]
            if a["cont"]:
                e = kids[n]
                if not e:
                    continue
                if a["many"]:
                    out.append(pad + f"  {n}: [")
                    for k in e:
                        if k == 0:
                            out.append(pad + "    " + PRIM_TEXT)
                        else:
                            node(k, depth + 2)
                    out.append(pad + "  ]")
                else:
                    out.append(pad + f"  {n}:")
                    node(e[0], depth + 2)
            else:
                names = refs[n]
                if names:
                    out.append(pad + f"  {n}: " + ", ".join(nt(x) for x in names))
        out.append(pad + "}")

    node(root_of(g), 0)
    return "\n".join(out) + "\n"


def paths(g):
    """Stable path of every object: list of [attr, index] steps from the root."""
    out = {root_of(g): []}
    todo = [root_of(g)]
    while todo:
        o = todo.pop()
        for k in g["kids"][o - 1]:
            for j, e in enumerate(k["e"]):
                if e != 0:
                    out[e] = out[o] + [[k["a"], j]]
                    todo.append(e)
    return out


def path_str(p):
    return "/" + "/".join(f"{a}[{j}]" for a, j in p)


class Located:
    """Real objects of a loaded model, found by walking the rendered containment attributes."""

    def __init__(self, mm, g, model):
        self.real = {}      # object number -> real object
        self.num = {}       # id(real object) -> object number
        self.problems = []  # containment attributes that do not hold what was rendered
        r = root_of(g)
        self.real[r] = model
        todo = [r]
        while todo:
            o = todo.pop()
            obj = self.real[o]
            if obj.__class__.__name__ != g["cls"][o - 1]:
                self.problems.append(f"object {o} is a {obj.__class__.__name__}, rendered as {g['cls'][o - 1]}")
            attrs = {a["name"]: a for a in class_of(mm, g["cls"][o - 1])["attrs"]}
            for k in g["kids"][o - 1]:
                v = getattr(obj, k["a"], None)
                if attrs[k["a"]]["many"]:
                    vs = list(v or [])
                else:
                    vs = [] if v is None else [v]
                if len(vs) != len(k["e"]):
                    self.problems.append(f"object {o}.{k['a']} holds {len(vs)} elements, rendered {len(k['e'])}")
                for e, x in zip(k["e"], vs):
                    if e == 0:
                        if not isinstance(x, int) or isinstance(x, bool):
                            self.problems.append(f"object {o}.{k['a']} holds a {type(x).__name__} where a plain value was rendered")
                        continue
                    if isinstance(x, (int, str, float, bool)):
                        self.problems.append(f"object {o}.{k['a']} holds a plain value where object {e} was rendered")
                        continue
                    self.real[e] = x
                    todo.append(e)
        for o, x in self.real.items():
            self.num[id(x)] = o

    def number(self, x):
        """Object number of a real object; a string marker for anything that is not in the tree."""
        if x is None:
            return 0
        return self.num.get(id(x), f"?{type(x).__name__}")


# ------------------------------------------------------------------ random graphs (rendering data only)


def add_object(mm, g, c, name, p=0, attr=None):
    """Append an object of class c to graph g (under attribute `attr` of object p); returns its number."""
    cd = class_of(mm, c)
    o = len(g["cls"]) + 1
    g["cls"].append(c)
    g["name"].append(name if cd["named"] else "")
    g["par"].append(p)
    g["kids"].append([dict(a=a["name"], e=[]) for a in cd["attrs"] if a["cont"]])
    g["refs"].append([dict(a=a["name"], names=[]) for a in cd["attrs"] if not a["cont"]])
    if p:
        next(k for k in g["kids"][p - 1] if k["a"] == attr)["e"].append(o)
    return o


def empty_graph():
    return dict(cls=[], name=[], par=[], kids=[], refs=[])


def random_graph(rng, mm, n, names=None, prim_p=0.12):
    """A seeded-random object tree over mm with n objects (or fewer when the tree cannot grow);
    lists that can hold plain values get some."""
    g = empty_graph()

    def add(c, p, attr=None):
        o = len(g["cls"]) + 1
        return add_object(mm, g, c, rng.choice(names) if names else f"n{o}", p, attr)

    add(mm["root"], 0)
    for _ in range(n * 6):
        if len(g["cls"]) >= n:
            break
        p = rng.randrange(len(g["cls"])) + 1
        slots = [a for a in class_of(mm, g["cls"][p - 1])["attrs"] if a["cont"]]
        if not slots:
            continue
        a = rng.choice(slots)
        k = next(k for k in g["kids"][p - 1] if k["a"] == a["name"])
        if not a["many"] and k["e"]:
            continue
        if a["prim"] and a["many"] and rng.random() < prim_p:
            k["e"].append(0)
            continue
        c = rng.choice(allowed_classes(mm, a))
        add(c, p, a["name"])
    return g


def renumber(g, order_rng=None):
    """Objects renumbered in document (pre-)order; with order_rng, list elements are shuffled first."""
    g = json.loads(json.dumps(g))
    if order_rng is not None:
        for ks in g["kids"]:
            for k in ks:
                order_rng.shuffle(k["e"])
    new = {}
    seq = []

    def walk(o):
        new[o] = len(seq) + 1
        seq.append(o)
        for k in g["kids"][o - 1]:
            for e in k["e"]:
                if e != 0:
                    walk(e)

    walk(root_of(g))
    out = dict(cls=[], name=[], par=[], kids=[], refs=[])
    for o in seq:
        out["cls"].append(g["cls"][o - 1])
        out["name"].append(g["name"][o - 1])
        out["par"].append(new.get(g["par"][o - 1], 0))
        out["kids"].append([dict(a=k["a"], e=[new[e] if e else 0 for e in k["e"]]) for k in g["kids"][o - 1]])
        out["refs"].append(g["refs"][o - 1])
    return out


# ------------------------------------------------------------------ TLC runs


def nav_env(mm, maxn, named, unnamed, refs, fulln, sorted_, dev=""):
    return dict(VT_DEV=dev, VT_NAV_MM=mm, VT_NAV_MAXN=maxn, VT_NAV_MAXNAMED=named, VT_NAV_MAXUNNAMED=unnamed,
                VT_NAV_MAXREFS=refs, VT_NAV_FULLN=fulln, VT_NAV_SORTED="1" if sorted_ else "0")


def check_theorems(cfg, env, timeout=3000):
    return tlc.model_check("MC_Nav", cfg=cfg, env=env, timeout=timeout)


def enumerate_graphs(env, timeout=3000):
    """Every graph of the bounded universe, and the meta-model, as TLC prints them."""
    r = tlc.model_check("MC_Nav", cfg="MC_Nav_Emit.cfg", env=env, workers=1, timeout=timeout)
    tlc.require_ok(r, f"graph enumeration {env}")
    mms = r.results("MM")
    if not mms:
        raise tlc.MachineryError("MC_Nav did not print its meta-model")
    return r, mms[0], r.results("G")


def ask(mm, cases, dev=""):
    """NavOracle.tla on `cases`; returns ({id: answer}, stats)."""
    work = tlc.scratch("vt-nav-")
    try:
        p = os.path.join(work, "mm.json")
        with open(p, "w") as f:
            json.dump(mm, f)
        return tlc.oracle("NavOracle", cases, env={"VT_MM": p, "VT_DEV": dev})
    finally:
        shutil.rmtree(work, ignore_errors=True)


# ------------------------------------------------------------------ decoy meta-models (history before a check)


def decoy_containment(mm):
    """Same rule names, other rule bodies: every class keeps only its first containment attribute and no
    references.  Used to give Python user classes a past with another meta-model."""
    d = json.loads(json.dumps(mm))
    for c in d["classes"]:
        keep = [a for a in c["attrs"] if a["cont"]][:1]
        c["attrs"] = keep
    return d


def decoy_hierarchy(mm, shift=1):
    """Same rule names, other inheritance: the named classes are rotated inside the alternatives of the
    abstract rules, so that conformance between two rule names differs from mm."""
    d = json.loads(json.dumps(mm))
    named = [c["name"] for c in d["classes"] if c["named"]]
    perm = {n: named[(i + shift) % len(named)] for i, n in enumerate(named)}
    for a in d["abstracts"]:
        a["subs"] = [perm.get(x, x) for x in a["subs"]]
    return d
