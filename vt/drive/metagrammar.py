"""Driver shared by C23 and C24: the corpus of grammar texts and the three observers.

Corpus (token sequences over the alphabet of spec/MetaGrammar.tla):
  * every token sequence TLC derives from the production data within the budgets
    (MC_MetaGrammar, seeds 1..6), printed by TLC;
  * their one-token deletions, duplications, replacements and comment insertions
    (made here, mechanically; what they *are* -- in the language or not, which class --
    is decided by TLC in oracle mode);
  * targeted breakage and seeded-random token soups.
Python renders (tokens joined by blanks), runs the real code in worker processes and
reports what it saw; every expectation comes from TLC evaluating MetaGrammar.
"""
from __future__ import annotations

import json
import os
import random
import shutil
import signal
import sys
from concurrent.futures import ProcessPoolExecutor, ThreadPoolExecutor

from .. import common, tlc

BUDGETS = {"quick": dict(VT_NMAIN=2, VT_NLINK=4, VT_NMODS=3, VT_NPARAMS=3),
           "thorough": dict(VT_NMAIN=3, VT_NLINK=5, VT_NMODS=4, VT_NPARAMS=4)}
M_INVARIANTS = ["GenInL", "LastTokenNeeded", "TxAgrees", "NoLeak"]
SEED_NAMES = {1: "grammar", 2: "link", 3: "modifiers*", 4: "modifiers+=", 5: "params", 6: "norules",
              7: "reference+modifiers", 8: "assign-twice(2nd repeated)", 9: "assign-twice(1st repeated)",
              10: "assign-twice(2nd op)", 11: "assign-twice", 12: "alias-rules(2)", 13: "alias-rules(3)"}

# tokens used as replacements / soup material: every kind, but not the compound names
# (A.B, a-b), which a scannerless parser may split differently in foreign positions
PUNCT = [":", ";", "|", "(", ")", "[", "]", "=", "*=", "+=", "?=", "*", "+", "?", "#", "-",
         "!", "&", ",", ".", "~", "^", ".."]
REPL = PUNCT + ["+m:", "+p:", "A", "B", "U", "x", "ID", "INT", "OBJECT", "skipws", "ws", "foo", "split",
                "noskipws", "nows", "nosplit",
                "import", "reference", "as", "eolterm", "parent", "__asgn_r", "1b", "INTEGER",
                "'a'", "''", "'\\xzz'", "\"b\"", "/b/", "/(/", "/*c*/"]
COMMENTS = ["/*c*/", "//c"]


def ncpu():
    """Cores this check may use: tlc.NCPU, further capped by VT_CPUS when that is set."""
    try:
        return max(1, min(tlc.NCPU, int(os.environ.get("VT_CPUS", tlc.NCPU))))
    except ValueError:
        return tlc.NCPU


def render(toks):
    out = []
    for t in toks:
        out.append(t)
        out.append("\n" if t.startswith("//") else " ")
    return "".join(out).rstrip(" ")


# ------------------------------------------------------------------ TLC: generator and (M)
def tlc_generate(tier, dev=""):
    """Both TLC runs over the generator's state space: (a) one worker, prints every finished
    form and accumulates production coverage; (b) all workers, checks the invariants."""
    env = dict(BUDGETS[tier], VT_DEV=dev)

    def emit():
        return tlc.model_check("MC_MetaGrammar", cfg="MC_MetaGrammar_Emit.cfg", env=env, workers=1, timeout=3000)

    def inv():
        return tlc.model_check("MC_MetaGrammar", cfg="MC_MetaGrammar.cfg", env=env, workers=ncpu(), timeout=3000)

    with ThreadPoolExecutor(max_workers=2) as ex:
        fe, fi = ex.submit(emit), ex.submit(inv)
        re_, ri = fe.result(), fi.result()
    return re_, ri


def tlc_invariants(tier, dev):
    """The invariant run alone, with one deviation clause switched on (vacuity check of the module)."""
    return tlc.model_check("MC_MetaGrammar", cfg="MC_MetaGrammar.cfg", env=dict(BUDGETS[tier], VT_DEV=dev),
                           workers=ncpu(), timeout=3000)


def base_from(res):
    seen = {}
    for x in res.results("GEN"):
        key = tuple(x["toks"])
        if key not in seen:
            seen[key] = x["seed"]
    return [dict(toks=list(k), seed=s) for k, s in sorted(seen.items())]


def tlc_direction(tier):
    return tlc.model_check("MC_MetaGrammar", cfg="MC_MetaGrammar_Dir.cfg",
                           env=dict(BUDGETS[tier], VT_DEV=""), workers=ncpu(), timeout=3000)


# ------------------------------------------------------------------ mutations
def mutants(base, rng, per_pos_repl, full_matrix=0):
    """One-token deletions, duplications, replacements, comment insertions of each base text."""
    out = []
    for bi, b in enumerate(base):
        t = b["toks"]
        for k in range(len(t)):
            out.append(("del", t[:k] + t[k + 1:]))
            out.append(("dup", t[:k + 1] + t[k:]))
            if bi < full_matrix:
                cand = [r for r in REPL if r != t[k]]
            else:
                cand = rng.sample(REPL, per_pos_repl + 1)
                cand = [r for r in cand if r != t[k]][:per_pos_repl]
            for r in cand:
                out.append(("rep", t[:k] + [r] + t[k + 1:]))
        k = rng.randrange(len(t) + 1)
        out.append(("cmt", t[:k] + [rng.choice(COMMENTS)] + t[k:]))
    return out


def soups(base, rng, n):
    """Seeded-random token soups: pure random tokens, and splices of generated texts."""
    out = []
    for i in range(n):
        m = i % 3
        if m == 0 or not base:
            t = [rng.choice(REPL) for _ in range(rng.randint(1, 12))]
        elif m == 1:
            a, b = rng.choice(base)["toks"], rng.choice(base)["toks"]
            t = a[:rng.randint(0, len(a))] + b[rng.randint(0, len(b)):]
        else:
            t = list(rng.choice(base)["toks"])
            for _ in range(rng.randint(2, 4)):
                k = rng.randrange(len(t) + 1)
                t[k:k + rng.randint(0, 1)] = [rng.choice(REPL)]
        out.append(("soup", t[:40]))
    return out


# ------------------------------------------------------------------ surface variants (rendering)
# Other spellings of a module token with the same token kind and the same attributes (a valid
# string match stays a valid string match, an invalid regex stays invalid ...).  The module judges
# the token sequence; the real code gets the text with the variant spelling.
VARIANTS = {
    "'a'": ['"a"', "'a b'", "'it\\'s'", '"say \\"hi\\""', "'\"'", '"\'"', "'sin('", "'array['", "'pow**'",
            "'a)'", "'x+*'", "'end.'", "'f(x)'", "'while'", "'_k1'", "'\\n'", "'\\t|'"],
    "'n'": ['"n"', "'it\\'s'", '"a\\"b"', "'a b'", "'x('"],
    "','": ['";"', "'\\''", "'|'", "'..'"],
    "''": ['""'],
    "\"b\"": ["'b'", '"b\\"c"', '"b\'c"'],
    "'\\xzz'": ["'\\uzzzz'", "'\\N{bogus}'", '"\\xzz"', "'\\U0000zzzz'", "'a\\x4'"],
    "/b/": ["/[a-z]+/", "/a\\/b/", "/\\d{2,3}/", "/(?i)x/", "/\\w+\\s*/", "/[^\\/]+/", "/a|b/",
            "/ c /", "/a \\/ b/", "/a\\\\/", "/\\//", "/ /"],
    "/x*/": ["/a?/", "/(b|)/", "/\\s*/"],
    "/(/": ["/[/", "/a{2,1}/", "/\\1/", "/a**/", "/(?P<n>a)(?P<n>b)/", "/(?<=a+)b/", "/(?z)a/", "/a)/",
            "/a{99999999999999999999}/", "/\\d{4294967295}/", "/[a-z]{1,4294967296}/", "/\\p/"],
    "/*c*/": ["/**/", "/***/", "/****/", "/** doc **/", "/* a * b */", "/* / */", "/*\n * x\n **/", "/*//*/"],
    "//c": ["//", "// c /* x", "//*", "///"],
    "x": ["_x", "x1", "été"],
    "A": ["Abc_1", "Ä"],
    "1b": ["1", "007x"],
    "INTEGER": ["IDENT", "STRINGS", "BOOLEAN", "FLOATS", "NUMBERS", "BASETYPES", "IDx", "INTx"],
    "l": ["l_2", "x-y-"],
    "m": ["m_2", "a.b.c"],
}
STR_TOKENS = {"'a'", "'n'", "','", "''", "\"b\"", "'\\xzz'"}
OPTION_SETS = ["autokwd", "ignore_case", "noskipws", "memoization", "autokwd+ignore_case+memoization"]
KEYWORDS = ["import", "reference", "as", "eolterm", "parent"]
PREFIX_OPS, SUFFIX_OPS = ["!", "&"], ["*", "+", "?", "#", "-"]
ASSIGN_OPS = {"=", "*=", "+=", "?="}


def _lex_class(toks, k):
    """Purely lexical class of token k (what kind of phrase could start / end here)."""
    t = toks[k]
    if t[:1] in "'\"":
        return "str"
    if t.startswith("/") and len(t) > 1 and not t.startswith("/*") and not t.startswith("//"):
        return "re"
    if t in ("(", ")", "[", "]"):
        return t
    if t[:1].isalnum() or t[:1] == "_":
        return "attr" if k + 1 < len(toks) and toks[k + 1] in ASSIGN_OPS else "word"
    return "other"


def variant_cases(pool, rng, per_variant):
    """For every (token, variant) pair: `per_variant` texts from the pool (spread over the seeds,
    i.e. over the positions the token can stand in) with one occurrence respelled."""
    out = []
    by_tok = {}
    for b in pool:
        for tok in set(b["toks"]) & set(VARIANTS):
            by_tok.setdefault(tok, {}).setdefault(b.get("seed", 0), []).append(b["toks"])
    for tok in sorted(by_tok):
        seeds = sorted(by_tok[tok])
        for var in VARIANTS[tok]:
            for j in range(per_variant):
                host = rng.choice(by_tok[tok][seeds[j % len(seeds)]])
                occ = [k for k, t in enumerate(host) if t == tok]
                k = rng.choice(occ)
                shown = list(host)
                shown[k] = var
                out.append(dict(kind="var", toks=list(host), text=render(shown), variant=var, of=tok))
    return out


def op_insertions(base):
    """A predicate before / a repeat or suppress operator after every token that can start / end an
    expression; returned with a stratum (operator, lexical class of the neighbour) for sampling."""
    out = []
    for b in base:
        t = b["toks"]
        for k in range(len(t)):
            c = _lex_class(t, k)
            if c in ("attr", "word", "str", "re", "("):
                for op in PREFIX_OPS:
                    out.append((f"{op}<{c}", t[:k] + [op] + t[k:]))
            if c in ("attr", "word", "str", "re", ")", "]"):
                for op in SUFFIX_OPS:
                    out.append((f"{c}>{op}", t[:k + 1] + [op] + t[k + 1:]))
    return out


def stratified(items, rng, quota):
    """items: (stratum, value); at most `quota` per stratum (None = all), seeded choice."""
    by = {}
    for st, v in items:
        by.setdefault(st, []).append(v)
    out = []
    for st in sorted(by):
        vs = by[st]
        if quota is not None and len(vs) > quota:
            vs = rng.sample(vs, quota)
        out += [(st, v) for v in vs]
    return out


def glue_cases(pool, rng, quota):
    """A keyword token written without a blank before the following identifier-like token."""
    import re as _re
    items = []
    for toks in pool:
        for k in range(len(toks) - 1):
            if toks[k] in KEYWORDS and _re.fullmatch(r"[\w.\-]+", toks[k + 1]):
                parts = []
                for j, t in enumerate(toks):
                    parts.append(t)
                    if j != k:
                        parts.append("\n" if t.startswith("//") else " ")
                items.append((toks[k], dict(kind="glue", toks=list(toks), text="".join(parts).rstrip(" "), only="C24")))
    return [v for _, v in stratified(items, rng, quota)]



# ------------------------------------------------------------------ raw chunks and qualified names (C24)
RAW_PLACEHOLDERS = {"<r1>": 0, "<r2>": 1}
NATOMS = {"quick": 2, "thorough": 3}
BUILTIN_WORDS = ["ID", "BOOL", "INT", "FLOAT", "STRING", "NUMBER", "BASETYPE", "STRICTFLOAT", "OBJECT"]


def tlc_chunks(tier, dev=""):
    """TLC enumerates the raw chunks (MetaGrammarLex) and checks the theorems about the lexical rule."""
    return tlc.model_check("MetaGrammarLex", env=dict(VT_NATOMS=NATOMS[tier], VT_DEV=dev), workers=1, timeout=3000)


def chunk_cases(base, chunks, rng, quota):
    """Every sampled chunk in place of a regex token of a generated text (only texts in which no
    slash or quote follows that token), and in the plain host `A : <chunk> ;`."""
    hosts = [["A", ":", "<r1>", ";"]]
    for b in base:
        t = b["toks"]
        for k, tok in enumerate(t):
            if tok == "/b/" and not any(x[:1] in "'\"/" for x in t[k + 1:]):
                hosts.append(t[:k] + ["<r1>"] + t[k + 1:])
    # a comment chunk may stand anywhere: it is inserted (before the first token, or before any
    # token after which no slash or quote comes)
    chosts = [["<r1>", "A", ":", "ID", ";"], ["A", ":", "ID", "<r1>", ";"]]
    for b in base:
        t = b["toks"]
        ks = [k for k in range(len(t) + 1) if not any(x[:1] in "'\"/" for x in t[k:])]
        if ks:
            k = rng.choice(ks)
            chosts.append(t[:k] + ["<r1>"] + t[k:])
    items = [((c.get("fam", "re"), c["bf"], c["af"]), (c.get("fam", "re"), c["cs"])) for c in chunks]
    out = []
    for j, (_, (fam, cs)) in enumerate(stratified(items, rng, quota)):
        hs = hosts if fam == "re" else chosts
        host = hs[j % 2] if (j % 3 == 0 and fam != "re") else hs[0] if j % 3 == 0 else rng.choice(hs)
        out.append(dict(kind="chunk", toks=list(host), raws=[list(cs)], only="C24"))
    return out


def qualify_ops(base):
    """Qualified-name mutations of the name tokens of generated texts: a built-in name gets a dotted
    suffix (ID.x, INT.y.z), or a glued-dot word after it (ID .x); a rule name gets one (A.B, A.B.C)."""
    out = []
    for b in base:
        t = b["toks"]
        for k, tok in enumerate(t):
            prev = t[k - 1] if k else "^"
            if tok in BUILTIN_WORDS:
                for q in ("ID.x", "INT.y.z"):
                    out.append((f"builtin->{q} after {prev}", t[:k] + [q] + t[k + 1:]))
                out.append((f"builtin+.x after {prev}", t[:k + 1] + [".x"] + t[k + 1:]))
            elif tok in ("A", "B"):
                for q in ("A.B", "A.B.C"):
                    out.append((f"name->{q} after {prev}", t[:k] + [q] + t[k + 1:]))
                out.append((f"name+.x after {prev}", t[:k + 1] + [".x"] + t[k + 1:]))
    return out


def T(s):
    return s.split()


# Targeted breakage.  `toks` is what the module judges; `text` (optional) is a surface variant
# of the same token kinds that is given to the real code instead; `kw` selects extra arguments.
TARGETED = [
    dict(name="undefined-rule", toks=T("A : U ;")),
    dict(name="undefined-rule-in-assignment", toks=T("A : x = U ;")),
    dict(name="unknown-class-in-link", toks=T("A : x = [ U ] ;")),
    dict(name="unknown-qualified-class", toks=T("A : x = [ A.B ] ;")),
    dict(name="unknown-match-rule-in-link", toks=T("A : x = [ A : U ] ;")),
    dict(name="primitive-type-link", toks=T("A : x = [ INT ] ;")),
    dict(name="primitive-type-link-rrel", toks=T("A : x = [ STRING : ID | a ] ;")),
    dict(name="invalid-regex", toks=T("A : /(/ ;")),
    dict(name="invalid-regex-bracket", toks=T("A : /(/ ;"), text="A: /[/;"),
    dict(name="invalid-regex-range", toks=T("A : /(/ ;"), text="A: /a{2,1}/;"),
    dict(name="invalid-regex-backref", toks=T("A : /(/ ;"), text="A: /\\1/;"),
    dict(name="invalid-regex-as-separator", toks=T("A : 'a' * [ /(/ ] ;")),
    dict(name="invalid-regex-in-assignment", toks=T("A : x += /(/ [ ',' ] ;")),
    dict(name="bad-rule-param", toks=T("A [ foo ] : 'a' ;")),
    dict(name="bad-rule-param-value", toks=T("A [ noskipws = 'a' ] : 'a' ;")),
    dict(name="ws-param-without-value", toks=T("A [ ws ] : 'a' ;")),
    dict(name="nows-param", toks=T("A [ nows ] : 'a' ;")),
    dict(name="split-param-without-value", toks=T("A [ split ] : 'a' ;")),
    dict(name="split-param-empty", toks=T("A [ split = '' ] : 'a' ;")),
    dict(name="bool-assignment-reuse", toks=T("A : x ?= 'a' x ?= 'a' ;")),
    dict(name="bool-assignment-after-plain", toks=T("A : x = 'a' x ?= 'a' ;")),
    dict(name="bool-assignment-in-repetition", toks=T("A : ( x ?= 'a' 'a' ) + ;")),
    dict(name="bool-assignment-repeated", toks=T("A : x ?= 'a' * ;")),
    dict(name="modifiers-on-optional", toks=T("A : 'a' ? [ ',' ] ;")),
    dict(name="modifiers-on-plain-assignment", toks=T("A : x = 'a' [ ',' ] ;")),
    dict(name="modifiers-on-bool-assignment", toks=T("A : x ?= 'a' [ eolterm ] ;")),
    dict(name="directly-recursive-definition", toks=T("A : A ;")),
    dict(name="recursive-definition-in-brackets", toks=T("A : ( A ) ;")),
    dict(name="recursive-definition-suppressed", toks=T("A : A - ;")),
    dict(name="mutually-recursive-definitions", toks=T("A : B ; B : A ;")),
    dict(name="recursive-definition-second-rule", toks=T("A : 'a' B ; B : B ;")),
    dict(name="recursive-definition-overridden", toks=T("A : A ; A : 'a' ;")),
    dict(name="recursive-definition-overriding", toks=T("A : 'a' ; A : A ;")),
    dict(name="left-recursion", toks=T("A : A 'a' ;")),
    dict(name="left-recursion-choice", toks=T("A : A 'a' | 'a' ;")),
    dict(name="indirect-left-recursion", toks=T("A : B 'a' ; B : A | 'a' ;")),
    dict(name="recursion-under-optional", toks=T("A : A ? ;")),
    dict(name="unordered-group-on-rule-ref", toks=T("A : B # ; B : 'a' ;")),
    dict(name="unordered-group-on-bracketed-ref", toks=T("A : ( B ) # [ ',' ] ; B : 'a' ;")),
    dict(name="unordered-group-on-builtin", toks=T("A : ID # ;")),
    dict(name="unordered-group-on-match", toks=T("A : 'a' # ;")),
    dict(name="bad-rrel-double-star", toks=T("A : x = [ A : ID | a * * ] ;")),
    dict(name="bad-rrel-empty", toks=T("A : x = [ A : ID | ] ;")),
    dict(name="bad-rrel-trailing-comma", toks=T("A : x = [ A : ID | a , ] ;")),
    dict(name="bad-rrel-flag-twice", toks=T("A : x = [ A : ID | +m: +m: a ] ;")),
    dict(name="bad-rrel-fixed-name-without-tilde", toks=T("A : x = [ A : ID | 'n' a ] ;")),
    dict(name="rrel-parent-of-unknown-type", toks=T("A : x = [ A : ID | parent ( U ) ] ;")),
    dict(name="empty-string-match", toks=T("A : '' ;")),
    dict(name="empty-string-match-repeated", toks=T("A : '' * ;")),
    dict(name="empty-regex-match-repeated", toks=T("A : /x*/ + ;")),
    dict(name="empty-string-separator", toks=T("A : 'a' + [ '' ] ;")),
    dict(name="duplicate-rule-names", toks=T("A : 'a' ; A : /b/ ;")),
    dict(name="duplicate-rule-names-attrs", toks=T("A : x = ID ; A : y = INT ;")),
    dict(name="rule-named-like-builtin", toks=T("ID : 'a' ;")),
    dict(name="rule-named-like-internal-node", toks=T("__asgn_r : 'a' 'a' ;")),
    dict(name="rule-named-like-internal-node-2", toks=T("A : 'a' ; __asgn_r : x = ID ;"),
         text="A: 'a'; __asgn_plain: x=ID;"),
    dict(name="bad-escape-in-string", toks=T("A : '\\xzz' ;")),
    dict(name="bad-unicode-escape-in-string", toks=T("A : '\\xzz' ;"), text="A: '\\uzzzz';"),
    dict(name="bad-named-escape-in-string", toks=T("A : '\\xzz' ;"), text="A: '\\N{bogus}';"),
    dict(name="import-in-string-grammar", toks=T("import m A : 'a' ;")),
    dict(name="import-dotted-in-string-grammar", toks=T("reference l import m.n A : 'a' ;")),
    dict(name="reference-unregistered-language-used", toks=T("reference l as c A : x = [ c.X ] ;")),
    dict(name="reference-unregistered-language-unused", toks=T("reference a-b A : 'a' ;")),
    dict(name="reference-builtin-textx-language-used", toks=T("reference l as c A : x = [ c.X ] ;"),
         text="reference textX as t A: x=[t.Foo];"),
    dict(name="reference-builtin-textx-language-class", toks=T("reference l as c A : x = [ c.X ] ;"),
         text="reference textX as t A: x=[t.TextxRule];"),
    dict(name="user-class-not-used", toks=T("A : x = ID ;"), kw="unused_class"),
    dict(name="user-class-used", toks=T("A : x = ID ;"), kw="used_class"),
    dict(name="empty-grammar", toks=[]),
    dict(name="comment-only", toks=["/*c*/"]),
    dict(name="only-a-reference", toks=T("reference l")),
    dict(name="documented-comma-separated-modifiers", toks=T("A : 'a' * [ ',' , eolterm ] ;")),
    dict(name="link-without-rrel", toks=T("A : x = [ A : ID ] ;")),
    dict(name="link-pipe-separator", toks=T("A : x = [ A | ID ] ;")),
    dict(name="link-pipe-separator-rrel", toks=T("A : x = [ A | ID | a ] ;")),
    dict(name="rrel-path-flag", toks=T("A : x = [ A : ID | +p: a ] ;")),
    dict(name="rrel-both-flags", toks=T("A : x = [ A : ID | +mp: a ] ;")),
    dict(name="rrel-fixed-name", toks=T("A : x = [ A : ID | 'n' ~ a ] ;")),
    dict(name="mixed-repeat-modifiers", toks=T("A : 'a' * [ ',' eolterm ] ;")),
    dict(name="mixed-repeat-modifiers-rev", toks=T("A : x += 'a' [ eolterm ',' ] ;")),
    dict(name="digit-leading-rule-name", toks=T("1b : 'a' ;")),
    dict(name="digit-leading-attribute", toks=T("A : 1b = 'a' ;")),
    dict(name="builtin-prefixed-rule-with-modifiers", toks=T("A : x += INTEGER [ ',' ] ; INTEGER : /b/ ;")),
    dict(name="builtin-prefixed-rule-glued", toks=T("A : y = INTEGER = INT ;")),
    dict(name="builtin-prefixed-rule-plain", toks=T("A : INTEGER ; INTEGER : /b/ ;")),
]


def build_cases(base, rng, tier, prop=None, chunks=()):
    """The corpus as a list of dicts(id, toks, kind[, text, kw]); duplicates removed.
    `prop` drops the cases meant for the other property only."""
    quick = tier == "quick"
    cases, seen = [], set()

    def add(kind, toks, **extra):
        if extra.get("only") and prop and extra["only"] != prop:
            return
        key = (tuple(toks), extra.get("text"), extra.get("kw"), json.dumps(extra.get("raws")))
        if key in seen:
            return
        seen.add(key)
        cases.append(dict(id=f"{kind}{len(cases)}", kind=kind, toks=list(toks), **extra))

    for t in TARGETED:
        add("tgt", t["toks"], **{k: v for k, v in t.items() if k not in ("toks",)})
    for b in base:
        add("gen", b["toks"], seed=b["seed"])
    muts = mutants(base, rng, per_pos_repl=1 if quick else 2, full_matrix=0 if quick else 60)
    ins = op_insertions(base)
    total_mut = len(muts) + len(ins)
    if quick:
        # deterministic sample: every generated text stays, mutants are thinned by seed
        muts = rng.sample(muts, min(len(muts), 3600))
        ins_quota = 22
    else:
        cap = int(os.environ.get("VT_MG_CAP", "250000"))     # thorough: all of them (the cap is a safety net)
        if len(muts) > cap:
            muts = rng.sample(muts, cap)
        ins_quota = max(22, min(1500, cap // 40))
    for kind, toks in muts:
        add(kind, toks)
    # operator insertions: same number from every (operator, neighbour class) stratum
    for _, toks in stratified(ins, rng, ins_quota):
        add("ins", toks)
    for kind, toks in soups(base, rng, 400 if quick else 6000):
        add(kind, toks)
    # surface variants: every variant spelling in texts from every seed that has the token
    pool = base + [dict(toks=t["toks"], seed=0) for t in TARGETED if t.get("text") is None and not t.get("kw")]
    pool += [dict(toks=toks, seed=0) for kind, toks in muts if kind == "cmt"][:400]
    variants = variant_cases(pool, rng, per_variant=4 if quick else 16)
    for v in variants:
        add("var", v.pop("toks"), **{k: x for k, x in v.items() if k != "kind"})
    # metamodel options (C23): string / regex variants under every option set, plus a sample of the rest
    if prop != "C24":
        strv = [c for c in cases if c["kind"] == "var" and (c["of"] in STR_TOKENS or c["of"].startswith("/"))]
        for c in strv:
            for o in (OPTION_SETS if not quick else ["autokwd", OPTION_SETS[-1], rng.choice(OPTION_SETS[1:4])]):
                add("opt", c["toks"], text=c["text"], kw=o, only="C23")
        rest = [c for c in cases if c["kind"] in ("gen", "tgt") and not c.get("kw")]
        for c in rng.sample(rest, min(len(rest), 300 if quick else 3000)):
            add("opt", c["toks"], kw=rng.choice(OPTION_SETS), only="C23",
                **({"text": c["text"]} if c.get("text") is not None else {}))
    # qualified names: dotted suffixes on built-in and rule names, same number per (operator, left neighbour)
    for _, toks in stratified(qualify_ops(base), rng, 6 if quick else 200):
        add("qual", toks)
    # raw chunks: a regex match with tokens glued to it, lexed by the module (C24)
    if prop != "C23" and chunks:
        for c in chunk_cases(base, chunks, rng, 14 if quick else 400):
            add("chunk", c["toks"], raws=c["raws"], only="C24")
    # keyword glued to the following word (C24: both parsers take keywords as prefixes)
    if prop != "C23":
        gpool = [b["toks"] for b in base] + [toks for _, toks in muts[:6000]]
        for g in glue_cases(gpool, rng, 40 if quick else 1500):
            add("glue", g["toks"], text=g["text"], only="C24")
    return cases, total_mut


def oracle(cases, listed_devs):
    """MetaGrammar evaluated by TLC on every distinct token sequence of the corpus."""
    def key(c):
        return (tuple(c["toks"]), tuple(tuple(r) for r in c.get("raws") or ()))
    uniq = {}
    for c in cases:
        uniq.setdefault(key(c), f"t{len(uniq)}")
    work = tlc.scratch("vt-mg-")
    try:
        dp = os.path.join(work, "devs.json")
        with open(dp, "w") as f:
            json.dump(sorted(listed_devs), f)
        res, st = tlc.oracle("MetaGrammarOracle",
                             [dict(id=i, toks=list(t), raws=[list(r) for r in rw]) for (t, rw), i in uniq.items()],
                             env={"VT_DEVS": dp}, shards=ncpu())
    finally:
        shutil.rmtree(work, ignore_errors=True)
    bad = [i for i, r in res.items() if not r["wh"]]
    if bad:
        raise tlc.MachineryError(f"{len(bad)} cases put a slash or quote after a raw chunk (harness error)")
    return {c["id"]: res[uniq[key(c)]] for c in cases}, st


# ------------------------------------------------------------------ the real code, in worker processes
_W = {}


class _Timeout(Exception):
    pass


def _alarm(signum, frame):
    raise _Timeout()


def _init_worker():
    common.ensure_repo_on_path()
    signal.signal(signal.SIGALRM, _alarm)
    # build the two parsers once, outside any per-text time limit
    try:
        _lang_parser()
        _tx().metamodel   # noqa: B018 - loads textx.tx
    except Exception:     # noqa: BLE001 - a broken tree shows up in the observations
        pass


def _lang_parser():
    """The grammar compiler's own parser object (textx.lang caches it after the first compilation)."""
    if "lang" not in _W:
        import textx
        import textx.lang as L
        try:
            textx.metamodel_from_str("VtProbe: 'a';")
        except Exception:
            pass
        p = getattr(L, "textX_parsers", {}).get(False)
        if p is None:
            from arpeggio import ParserPython
            p = ParserPython(L.textx_model, comment_def=L.comment, ignore_case=False, reduce_tree=False,
                             memoization=False, debug=False)
        _W["lang"] = p
    return _W["lang"]


def _tx():
    if "tx" not in _W:
        from textx import metamodel_for_language
        _W["tx"] = metamodel_for_language("textx")
    return _W["tx"]


def _kwargs(kw):
    if kw == "unused_class":
        return dict(classes=[type("Unused", (), {})])
    if kw == "used_class":
        cls = type("A", (), {"__init__": lambda self, **k: None})
        return dict(classes=[cls])
    out = {}
    for o in (kw or "").split("+"):
        if o == "autokwd":
            out["autokwd"] = True
        elif o == "ignore_case":
            out["ignore_case"] = True
        elif o == "noskipws":
            out["skipws"] = False
        elif o == "memoization":
            out["memoization"] = True
    return out


def _observe_mm(text, kw):
    from textx import metamodel_from_str
    from textx.exceptions import TextXError, TextXSemanticError, TextXSyntaxError
    try:
        metamodel_from_str(text, **_kwargs(kw))
        return dict(out="ok", cls="ok", detail="")
    except TextXError as e:
        msg = str(e)
        has = bool(msg.strip()) and bool(str(getattr(e, "message", "") or "").strip())
        cls = "syntax" if isinstance(e, TextXSyntaxError) else "semantic" if isinstance(e, TextXSemanticError) else "textx"
        return dict(out="textx" if has else "textx-without-message", cls=cls,
                    detail=f"{type(e).__name__}: {msg[:120]}")
    except _Timeout:
        raise
    except Exception as e:  # noqa: BLE001 - the observation *is* the exception class
        name = type(e).__name__
        return dict(out=name, cls="import" if name == "AssertionError" else name, detail=f"{name}: {str(e)[:120]}")


def _observe_lang(text):
    from arpeggio import NoMatch
    try:
        _lang_parser().parse(text)
        return "acc"
    except NoMatch:
        return "rej"
    except _Timeout:
        raise
    except Exception as e:  # noqa: BLE001
        return f"EXC {type(e).__name__}: {str(e)[:100]}"


def _observe_tx(text):
    from textx.exceptions import TextXSyntaxError
    try:
        _tx().grammar_model_from_str(text)
        return "acc"
    except TextXSyntaxError:
        return "rej"
    except _Timeout:
        raise
    except Exception as e:  # noqa: BLE001
        return f"EXC {type(e).__name__}: {str(e)[:100]}"


def _observe_txf(text):
    """The self-hosted grammar asked through a file: the same path is rewritten for every text of
    this worker and inspected again (alternately grammar_model_from_file(path) and
    grammar_model_from_str(text, file_name=path)), so an answer that depends on what was inspected
    before under that name shows up."""
    from textx.exceptions import TextXSyntaxError
    path = os.path.join(os.environ["VT_MG_SCRATCH"], f"g{os.getpid()}.tx")
    _W["n"] = _W.get("n", 0) + 1
    try:
        with open(path, "w", encoding="utf-8", newline="") as f:
            f.write(text)
        if _W["n"] % 2:
            _tx().grammar_model_from_file(path)
        else:
            _tx().grammar_model_from_str(text, file_name=path)
        return "acc"
    except TextXSyntaxError:
        return "rej"
    except _Timeout:
        raise
    except Exception as e:  # noqa: BLE001
        return f"EXC {type(e).__name__}: {str(e)[:100]}"


def _run_chunk(args):
    chunk, what, limit = args
    out = []
    for cid, text, kw in chunk:
        o = dict(id=cid)
        for w in what:
            signal.setitimer(signal.ITIMER_REAL, limit)
            try:
                if w == "mm":
                    o["mm"] = _observe_mm(text, kw)
                elif w == "lang":
                    o["lang"] = _observe_lang(text)
                elif w == "txf":
                    o["txf"] = _observe_txf(text)
                else:
                    o["tx"] = _observe_tx(text)
            except _Timeout:
                o[w] = dict(out="Timeout", cls="Timeout", detail=f"no answer within {limit}s") if w == "mm" else "EXC Timeout"
            finally:
                signal.setitimer(signal.ITIMER_REAL, 0)
        out.append(o)
    return out


def text_of(c):
    if c.get("text") is not None:
        return c["text"]
    if c.get("raws"):
        out = []
        for t in c["toks"]:
            k = RAW_PLACEHOLDERS.get(t)
            if k is not None and k < len(c["raws"]):
                out.append("".join(c["raws"][k]) + "\n")      # the chunk as written, then a line break
            else:
                out.append(t + ("\n" if t.startswith("//") else " "))
        return "".join(out).rstrip(" ")
    return render(c["toks"])


def observe(cases, what, limit=20.0, procs=None):
    """Run every case through the requested observers ('mm', 'lang', 'tx') in worker processes.
    The per-text limit only guards against hangs: a text that hits it is run again, alone and
    with a long limit, before the timeout is reported."""
    import multiprocessing as mp
    procs = max(1, min(procs or ncpu(), ncpu()))
    items = [(c["id"], text_of(c), c.get("kw")) for c in cases]
    size = max(20, min(400, len(items) // (procs * 4) + 1))
    chunks = [(items[i:i + size], tuple(what), limit) for i in range(0, len(items), size)]
    out = {}
    ctx = mp.get_context("fork")
    work = tlc.scratch("vt-mgf-") if "txf" in what else None
    if work:
        os.environ["VT_MG_SCRATCH"] = work
    try:
        with ProcessPoolExecutor(max_workers=procs, mp_context=ctx, initializer=_init_worker) as ex:
            for part in ex.map(_run_chunk, chunks):
                for o in part:
                    out[o["id"]] = o
    finally:
        if work:
            shutil.rmtree(work, ignore_errors=True)
    if len(out) != len(cases):
        raise tlc.MachineryError("worker processes lost cases")
    slow = [c for c in cases if any("Timeout" in json.dumps(out[c["id"]].get(w)) for w in what)]
    if slow and limit < 300:
        if len(slow) > 50:
            raise tlc.MachineryError(f"{len(slow)} texts hit the {limit}s limit: machine overloaded?")
        again = observe(slow, what, limit=300.0, procs=1)
        out.update(again)
    return out


def observe_one(case, what):
    _init_worker()
    return _run_chunk(([(case["id"], text_of(case), case.get("kw"))], tuple(what), 300.0))[0]


def shrink(case, still_bad, max_rounds=3):
    """Greedy one-token deletions while `still_bad(list of candidate cases) -> list of bool` holds."""
    cur = dict(case)
    if cur.get("text") is not None or cur.get("kw") or cur.get("raws"):
        return cur
    for _ in range(max_rounds):
        t = cur["toks"]
        cands = [dict(id=f"s{k}", kind="shrink", toks=t[:k] + t[k + 1:]) for k in range(len(t))]
        if not cands:
            break
        bad = still_bad(cands)
        nxt = next((c for c, b in zip(cands, bad) if b), None)
        if nxt is None:
            break
        cur = dict(cur, toks=nxt["toks"])
    return cur


def witness_cases(findings):
    out = []
    for f in findings:
        w = f.get("witness")
        toks = w["toks"] if isinstance(w, dict) else str(w).split()
        extra = {}
        if isinstance(w, dict) and w.get("text") is not None:
            extra["text"] = w["text"]
        out.append(dict(id=f"witness:{f['id']}", kind="witness", toks=toks, **extra))
    return out


def coverage_union(orc):
    cov = set()
    for r in orc.values():
        cov.update(r["cov"])
    return sorted(cov)


if __name__ == "__main__":
    print(render(sys.argv[1:]))
