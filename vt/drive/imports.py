"""Driver for C25: renders a case of spec/Imports.tla as .tx files, loads the main
grammar with the real textX and projects the meta-model onto the module's Outcome.

The case (emitted by TLC) lists per file: ns, path, imports (dotted text), rules
(own probe rule first), refs, qrefs [ns, name, form], parent (who entered it).
Nothing here decides where a name resolves to: that is read off the real
meta-model (attr.cls, classes of parsed objects) and compared with TLC's answer.
"""
from __future__ import annotations

import os


def tag(ns):
    return ns.replace(".", "_")


def kw(ns, name, body):
    """Keyword the text of a rule starts with (Imports!Kw)."""
    return f"%{name}" if body == "probe" else f"%{name}_in_{tag(ns)}"


def leaf_texts(case, probe, name=None):
    """(keyword, text) of every rule with a body of its own that a reference to `name` may end up matching:
    the rules of that name in any file, and the rules named in the body of an alias rule of that name."""
    names = {name} | {t for g in case["files"] for n, b, t in g["defs"] if n == name and b == "alias"}
    out = []
    for g in case["files"]:
        if probe:
            if name is not None and g["rules"][0] != name:
                continue
            out.append((kw(g["ns"], g["rules"][0], "probe"), kw(g["ns"], g["rules"][0], "probe") + " nil"))
            continue
        for n, b, _t in g["defs"]:
            if name is not None and n not in names:
                continue
            if b == "common":
                out.append((kw(g["ns"], n, b), kw(g["ns"], n, b) + " 1"))
            elif b == "match":
                out.append((kw(g["ns"], n, b), kw(g["ns"], n, b)))
    return out


def render_file(f):
    out = [f"import {imp}" for imp in f["imports"]]
    p = f["rules"][0]
    alts = [f"'u_{n}' u_{n}={n}" for n in f["refs"]]
    for k, (qns, qname, form) in enumerate(f["qrefs"], 1):
        if form == "obj":
            alts.append(f"'r{k}' r{k}=[{qns}.{qname}]")
        else:
            alts.append(f"'q{k}' q{k}={qns}.{qname}")
    alts.append("z?='nil'")   # keeps the probe rule a common rule (it always has an attribute)
    out.append(f"{p}: '{kw(f['ns'], p, 'probe')}' ( " + " | ".join(alts) + " );")
    for n, b, t in f["defs"]:
        if b == "common":
            out.append(f"{n}: '{kw(f['ns'], n, b)}' x=INT;")
        elif b == "match":
            out.append(f"{n}: '{kw(f['ns'], n, b)}';")
        else:
            out.append(f"{n}: {t};")
    return "\n".join(out) + "\n"


def render(case, root):
    for f in case["files"]:
        path = os.path.join(root, *f["path"]) + ".tx"
        os.makedirs(os.path.dirname(path), exist_ok=True)
        with open(path, "w") as fh:
            fh.write(render_file(f))
    return os.path.join(root, *case["files"][0]["path"]) + ".tx"


def _path_tokens(case, i):
    """Keywords leading from the main probe rule to the probe rule of file i (0-based)."""
    files = case["files"]
    chain = [i]
    while files[chain[-1]]["parent"] != 0:
        chain.append(files[chain[-1]]["parent"] - 1)
    chain.reverse()
    toks = []
    for a, b in zip(chain, chain[1:]):
        toks += ["%" + files[a]["rules"][0], "u_" + files[b]["rules"][0]]
    toks.append("%" + files[i]["rules"][0])
    return toks


def _objects(model):
    from textx import get_children
    return list(get_children(lambda x: True, model))   # the root object comes first


def observe(case, root):
    """Load the rendered case; return the Outcome record as the module prints it."""
    from textx import metamodel_from_file
    from textx.exceptions import TextXSemanticError, TextXSyntaxError

    empty = dict(loaded=[], classes=[], res=[], qres=[], main=[])
    main = render(case, root)
    try:
        mm = metamodel_from_file(main)
    except TextXSyntaxError as e:
        return dict(status="failed", err="syntax", **empty), str(e)
    except TextXSemanticError as e:
        msg = str(e)
        kind = "unresolved" if ("Unexisting rule" in msg or "Unknown class/rule" in msg) else "semantic:" + msg[:80]
        return dict(status="failed", err=kind, **empty), msg
    except Exception as e:  # anything else is not an outcome the module knows
        return dict(status="failed", err="exception:" + type(e).__name__, **empty), repr(e)

    files = case["files"]
    loaded = [ns for ns in mm.namespaces if ns != "__base__"]
    seen = {}     # (ns key, name key) -> set of ids of class objects claiming that fqn

    def note(cls):
        seen.setdefault(getattr(cls, "_tx_fqn", "?"), {})[id(cls)] = cls

    for ns in loaded:
        for name, cls in mm.namespaces[ns].items():
            note(cls)
            for attr in cls._tx_attrs.values():
                note(attr.cls)
            try:
                note(mm[f"{ns}.{name}"])
            except KeyError:
                seen.setdefault(f"{ns}.{name}", {})[0] = None
    res, qres = [], []

    def parse_chains(toks, key, probe, name):
        chains = []
        for word, text in leaf_texts(case, probe, name):
            try:
                model = mm.model_from_str(" ".join(toks + [key, text]))
            except Exception:
                continue
            objs = _objects(model)
            for o in objs:
                note(type(o))
            chains.append(">".join(type(o)._tx_fqn for o in objs) + "@" + word)
        return "|".join(chains)

    for i, f in enumerate(files):
        if f["ns"] not in mm.namespaces:
            continue
        pcls = mm.namespaces[f["ns"]].get(f["rules"][0])
        toks = _path_tokens(case, i)
        for n in f["refs"]:
            attr = pcls._tx_attrs.get("u_" + n) if pcls is not None else None
            linked = attr.cls._tx_fqn if attr is not None and hasattr(attr.cls, "_tx_fqn") else "?"
            res.append([f["ns"], n, linked, parse_chains(toks, "u_" + n, n.startswith("P"), n)])
        for k, (qns, qname, form) in enumerate(f["qrefs"], 1):
            an = ("r" if form == "obj" else "q") + str(k)
            attr = pcls._tx_attrs.get(an) if pcls is not None else None
            linked = attr.cls._tx_fqn if attr is not None and hasattr(attr.cls, "_tx_fqn") else "?"
            qres.append([f["ns"], f"{qns}.{qname}", form, linked,
                         parse_chains(toks, an, False, qname) if form == "rule" else ""])
    classes = []
    for ns in loaded:
        for name, cls in mm.namespaces[ns].items():
            classes.append([ns, name, cls._tx_fqn, str(len(seen.get(cls._tx_fqn, {}))), str(cls._tx_type),
                            ",".join(getattr(c, "_tx_fqn", "?") for c in cls._tx_inh_by)])
    mainl = []
    for n in case["names"]:
        try:
            mainl.append([n, mm[n]._tx_fqn])
        except KeyError:
            mainl.append([n, "-"])
    return dict(status="ready", err="-", loaded=loaded, classes=classes, res=res, qres=qres, main=mainl), ""


def norm(out):
    """Order-insensitive form (load order and dict order are not part of the property)."""
    return dict(status=out["status"], err=out["err"], loaded=sorted(out["loaded"]),
                classes=sorted(out["classes"]), res=sorted(out["res"]), qres=sorted(out["qres"]),
                main=sorted(out["main"]))
