"""Driver for spec/LoaderResolve.tla (C08, C09): renders a scenario as model files in the
carrier grammar, loads them with real textX under a *scheduled scope provider* that follows
the scenario's environment (sched / deps / never / unknown) and logs every call, and projects
the outcome onto the module's vocabulary.  Also the TLC plumbing shared by c08.py and c09.py
(scenario/outcome emission, batched trace validation)."""
from __future__ import annotations

import json
import os
import random
import re
import shutil
from concurrent.futures import ThreadPoolExecutor

from .. import common, tlc

# Appendix D carrier grammar (fixed, not under test)
GRAMMAR = r"""
Model:   imports*=Import elems*=Elem;
Import:  'import' importURI=STRING;
Elem:    Pkg | Def | Use | UseList | Node | Target;
Pkg:     'pkg' name=ID '{' elems*=Elem '}';
Def:     DefA | DefB;
DefA:    'defa' name=ID ('extends' extends+=[Def:QName][','])?;
DefB:    'defb' name=ID;
Use:     'use' ref=[Def:QName];
UseList: 'refs' refs+=[Def:QName][','];
// one object with several reference attributes
Node:    'node' ins+=[Def:QName][','] ('out' outs+=[Def:QName][','])? ('one' ref=[Def:QName])?;
// an object and its first child start at the same input position, both have a list `refs`
Target:  main=Part ('with' refs+=[Def:QName][','])? ';';
Part:    'part' refs+=[Def:QName][','];
QName:   ID('.'ID)*;
Comment: /#.*$/;
"""

WATCHDOG = 60          # provider calls per reference before the harness stops an endless loop
LETTERS = "abcdefghijklmnopqrstuvwxyz"


class Watchdog(Exception):
    pass


def norm_sc(sc):
    """Scenario as printed by TLC -> canonical JSON-able form (sets as sorted lists)."""
    n = len(sc["sched"])
    return {"files": [[{"list": bool(st["list"]), "refs": list(st["refs"]), "join": st.get("join", "none")}
                       for st in f] for f in sc["files"]],
            "sched": list(sc["sched"]), "deps": [sorted(d) for d in sc["deps"]],
            "never": sorted(sc["never"]), "unknown": sorted(sc["unknown"]),
            "tgt": list(sc.get("tgt") or range(1, n + 1)),
            "builtin": sorted(sc.get("builtin") or []), "mode": sc.get("mode", "book")}


def ref_count(sc):
    return len(sc["sched"])


def file_refs(sc, m):
    return [r for st in sc["files"][m] for r in st["refs"]]


def names_for(sc, seed):
    """Target names: unique per target, and deliberately not in alphabetical order of the references."""
    n = ref_count(sc)
    rng = random.Random(f"{seed}:{common.canon(sc)}")
    pool = [a + b for a in "qrst" for b in LETTERS][: max(n, 1) * 3]
    rng.shuffle(pool)
    return {t: pool[t - 1] for t in range(1, n + 1)}


def _groups(stmts):
    """Statements of a file grouped into objects: [(kind, [statement index])] (pure syntax of `join`)."""
    out = []
    for k, st in enumerate(stmts):
        j = st.get("join", "none")
        if j == "none":
            out.append(["plain", [k]])
        elif j == "attr":
            out[-1][0] = "node"
            out[-1][1].append(k)
        else:
            out[-1][0] = "target"
            out[-1][1].append(k)
    return out


def render(sc, names, imports="star"):
    """-> [(filename, text)], {ref: (file index, offset)}, {ref: attribute name}.  File 1 is the main model."""
    nf = len(sc["files"])
    tgt = sc["tgt"]
    out, pos, attr = [], {}, {}
    for m in range(nf):
        parts = []
        if imports == "star":
            imps = list(range(1, nf)) if m == 0 else []
        else:                       # chain: each file imports the next one
            imps = [m + 1] if m + 1 < nf else []
        for j in imps:
            parts.append(f'import "f{j + 1}.m"\n')
        # a file without any element would make textX return a bare string instead of a model object
        parts.append(f"# targets\ndefb zz{m + 1}\n")
        for r in file_refs(sc, m):
            # a target is defined in the file of the first reference to it -- unless its name is unknown to
            # the provider (then it is nowhere in the files; it may be a builtin of the metamodel)
            if tgt[r - 1] == r and not any(tgt[u - 1] == r for u in sc["unknown"]):
                parts.append(f"defb {names[r]}\n")
        text = "".join(parts)

        def put(st, an):
            nonlocal text
            for i, r in enumerate(st["refs"]):
                if i:
                    text += ", "
                pos[r] = (m, len(text))
                attr[r] = an
                text += names[tgt[r - 1]]

        stmts = sc["files"][m]
        for kind, ks in _groups(stmts):
            sts = [stmts[k] for k in ks]
            if kind == "plain":
                text += "refs " if sts[0]["list"] else "use "
                put(sts[0], "refs" if sts[0]["list"] else "ref")
            elif kind == "node":
                text += "node "
                put(sts[0], "ins")
                for st in sts[1:]:
                    text += " out " if st["list"] else " one "
                    put(st, "outs" if st["list"] else "ref")
            else:
                text += "part "
                put(sts[0], "refs")
                text += " with "
                put(sts[1], "refs")
                text += " ;"
            text += "\n"
        out.append((f"f{m + 1}.m", text))
    return out, pos, attr


class Scheduled:
    """The environment of LoaderResolve.tla as a textX scope provider (inner provider of ImportURI)."""

    def begin(self, sc, names, pos, attr):
        self.sc = sc
        self.by_name = {v: k for k, v in names.items()}
        self.by_pos = {v: k for k, v in pos.items()}
        self.names = names
        self.attr = attr
        self.att = {r: 0 for r in pos}
        self.resolved = set()
        self.calls = []
        self.anomalies = []
        self.targets = None
        self.owners = None

    def _targets(self, obj):
        from textx import get_children_of_type, get_model
        from textx.scoping import get_included_models
        if self.targets is None:
            self.targets = {}
            for mdl in get_included_models(get_model(obj)):
                for d in get_children_of_type("DefB", mdl):
                    self.targets.setdefault(d.name, d)
        return self.targets

    def _owner(self, obj, d):
        """(object, attribute name) holding reference d, found by walking the loaded models like a user would."""
        from textx import get_model
        from textx.scoping import get_included_models
        if self.owners is None:
            self.owners = {}
            for mdl in get_included_models(get_model(obj)):
                fn = os.path.basename(getattr(mdl, "_tx_filename", None) or "")
                if not re.fullmatch(r"f\d+\.m", fn):
                    continue
                m = int(fn[1:-2]) - 1
                slots = []
                for el in mdl.elems:
                    cn = type(el).__name__
                    if cn == "UseList":
                        slots.append((el, "refs"))
                    elif cn == "Use":
                        slots.append((el, "ref"))
                    elif cn == "Node":
                        slots.append((el, "ins"))
                        stmts = self.sc["files"][m]
                        k = len(slots)
                        while k < len(stmts) and stmts[k]["join"] == "attr":
                            slots.append((el, "outs" if stmts[k]["list"] else "ref"))
                            k += 1
                    elif cn == "Target":
                        slots.append((el.main, "refs"))
                        slots.append((el, "refs"))
                for k, st in enumerate(self.sc["files"][m]):
                    for r in st["refs"]:
                        if k < len(slots):
                            self.owners[r] = slots[k]
        return self.owners[d]

    def _deps_open(self, obj, r):
        sc = self.sc
        if sc["mode"] == "api":
            # ask textX: the documented path walker answers Postponed while the attribute waits for references
            from textx.scoping import Postponed
            from textx.scoping.tools import resolve_model_path
            for d in sc["deps"][r - 1]:
                o, an = self._owner(obj, d)
                if type(resolve_model_path(o, an)) is Postponed:
                    return True
            return False
        return not set(sc["deps"][r - 1]) <= self.resolved

    def __call__(self, obj, attr, obj_ref):
        from textx import get_model
        from textx.scoping import Postponed
        if type(obj).__name__ == "Model":
            # ImportURI asks again on behalf of imported models after a None answer: same answer, not a new attempt
            return None
        fn = os.path.basename(get_model(obj)._tx_filename or "")
        m = int(fn[1:-2]) if re.fullmatch(r"f\d+\.m", fn) else 0
        # references are told apart by where they stand in the text (several may name the same target)
        r = self.by_pos.get((m - 1, obj_ref.position))
        if r is None:
            self.anomalies.append(f"provider asked for {obj_ref.obj_name!r} at offset {obj_ref.position} of file "
                                  f"{m}, where no reference was rendered")
            return None
        if obj_ref.obj_name != self.names[self.sc["tgt"][r - 1]]:
            self.anomalies.append(f"reference {r} offered with name {obj_ref.obj_name!r}")
        if attr.name != self.attr[r]:
            self.anomalies.append(f"reference {r} offered for attribute {attr.name}, rendered in {self.attr[r]}")
        self.att[r] += 1
        k = self.att[r]
        if k > WATCHDOG:
            raise Watchdog(f"reference {r} offered {k} times")
        sc = self.sc
        if k <= sc["sched"][r - 1]:
            ans = "postponed"
        elif r in sc["unknown"]:
            ans = "none"
        elif r in sc["never"] or self._deps_open(obj, r):
            ans = "postponed"
        else:
            ans = "resolved"
        self.calls.append({"m": m, "r": r, "attempt": k, "ans": ans})
        if ans == "postponed":
            return Postponed()
        if ans == "none":
            return None
        self.resolved.add(r)
        return self._targets(obj)[obj_ref.obj_name]


_STATE = {}


REF_ATTRS = [("Use", "ref"), ("UseList", "refs"), ("Node", "ins"), ("Node", "outs"), ("Node", "ref"),
             ("Target", "refs"), ("Part", "refs")]


def _mm(src="registered"):
    """One metamodel and provider per process and provider source (providers are set up once, as users do).
    src = "registered": register_scope_providers({"*.*": ImportURI(provider)});
    src = "grammar":    nothing registered; the provider sits on the reference attributes themselves, where
                        lang.py puts the provider of an RREL expression written in the grammar."""
    if src not in _STATE:
        from textx import metamodel_from_str
        from textx.scoping.providers import ImportURI
        sched = Scheduled()
        mm = metamodel_from_str(GRAMMAR, builtins={})
        if src == "registered":
            mm.register_scope_providers({"*.*": ImportURI(sched)})
        else:
            prov = ImportURI(sched)
            for cls, attr in REF_ATTRS:
                mm[cls]._tx_attrs[attr].scope_provider = prov
        _STATE[src] = (mm, sched)
    return _STATE[src]


def grammar_source_ok(sc, imports):
    """With the provider on the attributes, imported files are only loaded by a model that has a reference."""
    nf = len(sc["files"])
    if nf == 1:
        return True
    if imports == "star":
        return bool(sc["files"][0])
    return all(sc["files"][m] for m in range(nf - 1))


_NAME_RE = re.compile(r'"([^"]*)" of class "')


def run_scenario(sc, seed, workdir, imports="star", src="registered"):
    """Load the rendered scenario with real textX. -> observation dict (JSON-able)."""
    from textx.exceptions import TextXSemanticError
    from textx.scoping import get_included_models
    mm, sched = _mm(src)
    sc = norm_sc(sc)
    names = names_for(sc, seed)
    # the builtins of the metamodel: objects of an earlier model loaded with the same metamodel
    mm.builtins.clear()
    bi = sorted({sc["tgt"][r - 1] for r in sc["builtin"]})
    if bi:
        sched.begin(sc, names, {}, {})
        bm = mm.model_from_str("".join(f"defb {names[t]}\n" for t in bi))
        mm.builtins.update({d.name: d for d in bm.elems})
    files, pos, attr = render(sc, names, imports)
    for fn, text in files:
        with open(os.path.join(workdir, fn), "w") as f:
            f.write(text)
    sched.begin(sc, names, pos, attr)
    by_name = sched.by_name
    obs = {"kind": "?", "names": [], "attrs": [], "text": ""}
    try:
        model = mm.model_from_file(os.path.join(workdir, "f1.m"))
    except Watchdog as e:
        obs["kind"], obs["text"] = "endless", str(e)
    except TextXSemanticError as e:
        msg = e.message if hasattr(e, "message") else str(e)
        obs["text"] = msg
        if msg.startswith("Unresolvable cross references:"):
            obs["kind"] = "unresolvable"
            obs["names"] = [by_name.get(x, 0) for x in _NAME_RE.findall(msg)]
        elif msg.startswith("Unknown object"):
            obs["kind"] = "unknown"
            obs["names"] = [by_name.get(x, 0) for x in _NAME_RE.findall(msg)]
        else:
            obs["kind"] = "error:TextXSemanticError"
    except Exception as e:  # anything else is an outcome the module does not know
        obs["kind"], obs["text"] = "error:" + type(e).__name__, str(e)[:300]
    else:
        obs["kind"] = "ok"
        loaded = {os.path.basename(x._tx_filename): x for x in get_included_models(model)}
        attrs = []
        for m in range(len(sc["files"])):
            mdl = loaded.get(f"f{m + 1}.m")
            row = []
            if mdl is not None:
                def tg(objs):
                    return [by_name.get(getattr(t, "name", None), 0) for t in objs]

                for el in mdl.elems:
                    cn = type(el).__name__
                    if cn == "UseList":
                        row.append(tg(el.refs))
                    elif cn == "Use":
                        row.append(tg([el.ref]) if el.ref is not None else [])
                    elif cn == "Node":
                        row.append(tg(el.ins))
                        if el.outs:
                            row.append(tg(el.outs))
                        if el.ref is not None:
                            row.append(tg([el.ref]))
                    elif cn == "Target":
                        row.append(tg(el.main.refs))
                        if el.refs:
                            row.append(tg(el.refs))
            attrs.append(row)
        obs["attrs"] = attrs
    obs["calls"] = sched.calls
    obs["anomalies"] = sched.anomalies
    return obs


def _work(args):
    chunk, seed, imports, srcs = args
    work = tlc.scratch("vt-res-")
    try:
        return [run_scenario(sc, seed, work, imp, src) for sc, imp, src in zip(chunk, imports, srcs)]
    finally:
        shutil.rmtree(work, ignore_errors=True)


def run_many(scs, seed, imports=None, srcs=None):
    """Run many scenarios against the real code (process pool of tlc.NCPU workers, order preserved).
    Each worker loads its whole share on one metamodel per provider source (earlier models are dropped)."""
    import multiprocessing as mp
    imports = imports or ["star"] * len(scs)
    srcs = srcs or ["registered"] * len(scs)
    n = max(1, min(tlc.NCPU, len(scs) // 200 + 1))
    if n == 1:
        return _work((scs, seed, imports, srcs))
    size = (len(scs) + n - 1) // n
    jobs = [(scs[i:i + size], seed, imports[i:i + size], srcs[i:i + size]) for i in range(0, len(scs), size)]
    with mp.get_context("fork").Pool(n) as pool:
        parts = pool.map(_work, jobs)
    return [o for p in parts for o in p]


def observed_outcome(obs, attr_mode="seq"):
    """What is compared with the module: outcome kind, set of named references, attribute contents."""
    o = {"kind": obs["kind"], "names": sorted(obs["names"])}
    if obs["kind"] == "ok":
        o["attrs"] = obs["attrs"] if attr_mode == "seq" else [[sorted(a) for a in row] for row in obs["attrs"]]
    if obs["kind"] not in ("ok", "unresolvable", "unknown"):
        o["text"] = obs["text"][:200]
    return o


def expected_outcome(fin, attr_mode="seq"):
    """Same shape from a FINAL record printed by TLC."""
    o = {"kind": fin["kind"], "names": sorted(fin["names"])}
    if fin["kind"] == "ok":
        o["attrs"] = fin["attrs"] if attr_mode == "seq" else [[sorted(a) for a in row] for row in fin["attrs"]]
    return o


# ------------------------------------------------------------------ TLC side
def _env(family, order, dev, nshards=1, shard=0):
    return {"VT_FAMILY": family, "VT_ORDER": order, "VT_DEV": dev, "VT_NSHARDS": nshards, "VT_SHARD": shard}


def check_model(family, order="any", dev="", cfg="MC_LoaderResolve.cfg", timeout=3000):
    """(M): TLC on MC_LoaderResolve with the invariants (and liveness for the FairSpec cfg)."""
    return tlc.model_check("MC_LoaderResolve", cfg=cfg, env=_env(family, order, dev), timeout=timeout)


def emit(family, dev="", shards=1):
    """TLC enumerates every scenario of `family` with the outcome the module prescribes.
    -> ({canon(sc): FINAL record}, [TLCResult])"""
    shards = max(1, min(shards, tlc.NCPU))

    def one(i):
        r = tlc.model_check("MC_LoaderResolve", cfg="MC_LoaderResolve_Emit.cfg",
                            env=_env(family, "textual", dev, shards, i), workers=1, timeout=3000)
        return tlc.require_ok(r, f"scenario emission {family} dev={dev!r} shard {i}")

    with ThreadPoolExecutor(max_workers=shards) as ex:
        rs = list(ex.map(one, range(shards)))
    out = {}
    for r in rs:
        for f in r.results("FINAL"):
            f["sc"] = norm_sc(f["sc"])
            k = common.canon(f["sc"])
            if k in out:
                raise tlc.MachineryError("scenario emitted twice (the textual order must be deterministic)")
            out[k] = f
    return out, rs


def validate(traces, dev="", attr_mode="seq", batch=20000):
    """(I->S) TLC decides for each recorded load whether it is a behaviour of LoaderResolve.
    -> ([{reached, len, accepted}] per trace, [TLCResult])"""
    if not traces:
        return [], []
    nb = 1 if len(traces) < 600 else max(tlc.NCPU, (len(traces) + batch - 1) // batch)
    size = (len(traces) + nb - 1) // nb
    batches = [traces[i:i + size] for i in range(0, len(traces), size)]
    work = tlc.scratch("vt-restr-")

    def one(i):
        p = os.path.join(work, f"traces{i}.json")
        with open(p, "w") as f:
            json.dump(batches[i], f)
        r = tlc.model_check("TraceLoaderResolve", env={"VT_TRACES": p, "VT_DEV": dev, "VT_ATTRS": attr_mode},
                            workers=1, timeout=3000)
        tlc.require_ok(r, "trace validation")
        got = {x["tid"]: x for x in r.results("TRACE")}
        if len(got) != len(batches[i]):
            raise tlc.MachineryError("trace validation did not report every trace")
        return r, [got[t + 1] for t in range(len(batches[i]))]

    try:
        with ThreadPoolExecutor(max_workers=max(1, min(tlc.NCPU, len(batches)))) as ex:
            res = list(ex.map(one, range(len(batches))))
    finally:
        shutil.rmtree(work, ignore_errors=True)
    verdicts = []
    for _, got in res:
        for g in got:
            verdicts.append(dict(reached=g["reached"], len=g["len"], accepted=g["reached"] == g["len"] + 1))
    return verdicts, [r for r, _ in res]


def trace_of(sc, obs):
    """The record TraceLoaderResolve.tla reads (uniformly typed, no nulls)."""
    return {"sc": sc, "events": obs["calls"], "kind": obs["kind"].split(":")[0],
            "names": list(obs["names"]), "attrs": obs["attrs"] if obs["kind"] == "ok" else []}


def explain_reject(tr, v):
    k = v["reached"]
    ev = tr["events"]
    if k < len(ev):
        return (f"provider call {k + 1} of the load is not a TryRef step LoaderResolve allows here: {ev[k]} "
                f"(calls so far {[(e['m'], e['r'], e['ans']) for e in ev[:k]]})")
    return (f"all {len(ev)} provider calls are steps of LoaderResolve, but the load ended with {tr['kind']} "
            f"names={tr['names']} attrs={tr['attrs']} where the module continues or prescribes another outcome")


# ------------------------------------------------------------------ random bigger scenarios
def random_scenario(rng, max_files=3, max_refs=8, max_sched=3, p_dep=0.25, p_never=0.08, p_unknown=0.04):
    nf = rng.randint(1, max_files)
    n = rng.randint(1, max_refs)
    cuts = sorted(rng.randint(0, n) for _ in range(nf - 1))
    bounds = [0] + cuts + [n]
    files, r = [], 1
    for i in range(nf):
        cnt = bounds[i + 1] - bounds[i]
        stmts = []

        def lst(k, join="none"):
            nonlocal r, cnt
            stmts.append({"list": True, "refs": list(range(r, r + k)), "join": join})
            r, cnt = r + k, cnt - k

        def single(join="none"):
            nonlocal r, cnt
            stmts.append({"list": False, "refs": [r], "join": join})
            r, cnt = r + 1, cnt - 1

        while cnt > 0:
            x = rng.random()
            if x < 0.3:
                single()
            elif x < 0.6 or cnt < 2:
                lst(rng.randint(1, cnt))
            elif x < 0.8:                      # one object, several reference attributes
                lst(rng.randint(1, cnt - 1))
                if rng.random() < 0.75:
                    lst(rng.randint(1, cnt), "attr")
                if cnt > 0 and rng.random() < 0.5:
                    single("attr")
                if stmts[-1]["join"] == "none":
                    single("attr") if cnt > 0 else None
            else:                              # first child and parent with same-named lists
                lst(rng.randint(1, cnt - 1))
                lst(rng.randint(1, cnt), "parent")
        files.append(stmts)
    mode = rng.choice(["sched", "deps", "both"])
    sched = [rng.randint(0, max_sched) if mode != "deps" and rng.random() < 0.5 else 0 for _ in range(n)]
    deps = [sorted(j for j in range(1, n + 1) if j != i and mode != "sched" and rng.random() < p_dep)
            for i in range(1, n + 1)]
    never = sorted(i for i in range(1, n + 1) if mode != "sched" and rng.random() < p_never)
    unknown = sorted(i for i in range(1, n + 1) if rng.random() < p_unknown)
    tgt = []
    for i in range(1, n + 1):              # some references name a target that was referenced before
        known = [t for t in tgt if t not in unknown]
        tgt.append(rng.choice(known) if known and i not in unknown and rng.random() < 0.25 else i)
    builtin = [u for u in unknown if rng.random() < 0.6]      # unknown to the provider, but a builtin
    mode = rng.choice(["book", "api"])
    if mode == "api":
        # an attribute that waits for itself never resolves; keep that rare
        deps = [[d for d in ds if rng.random() < 0.9] for ds in deps]
    return {"files": files, "sched": sched, "deps": deps, "never": never, "unknown": unknown, "tgt": tgt,
            "builtin": builtin, "mode": mode}


# ------------------------------------------------------------------ the conformance pass shared by C08 and C09
def conformance(rep, families, attr_mode, devs, nontrivial, n_random, rng, random_kw=None, shards=None,
                trace_every=1):
    """(S->I) every scenario TLC enumerates for `families` is loaded with real textX and its outcome compared
    with the module's (Dev = {} -> pass, a listed deviation -> KNOWN-FINDING, else VIOLATION);
    (I->S) the provider calls logged during those loads, and during `n_random` bigger seeded-random
    scenarios, are validated by TLC as behaviours of LoaderResolve (same three-way verdict)."""
    shards = shards or tlc.NCPU
    stats = {}
    all_sc, all_obs, all_imp, all_src = [], [], [], []
    for fam in families:
        exp, rs = emit(fam, "", shards)
        for i, r in enumerate(rs):
            rep.add_mc(f"MC_LoaderResolve_Emit[{fam}#{i}]", r, ["(scenario and outcome emission)"])
        dexp = {fid: emit(fam, d, shards)[0] for fid, d in devs.items()}
        keys = sorted(exp)
        scs = [exp[k]["sc"] for k in keys]
        # provider source: alternately registered under '*.*' / attached to the attributes like a grammar RREL
        # (nothing registered); the loads with the other source are compared with the module as well
        src1 = ["grammar" if i % 2 and grammar_source_ok(sc, "star") else "registered" for i, sc in enumerate(scs)]
        src2 = ["registered" if a == "grammar" else ("grammar" if grammar_source_ok(sc, "star") else None)
                for a, sc in zip(src1, scs)]
        obs = run_many(scs, rep.seed, None, src1)
        idx2 = [i for i, b in enumerate(src2) if b]
        obs2 = dict(zip(idx2, run_many([scs[i] for i in idx2], rep.seed, None, [src2[i] for i in idx2])))
        cnt = dict(scenarios=len(scs), loads=len(scs) + len(idx2), passed=0, known=0, violations=0)
        for i, (k, sc) in enumerate(zip(keys, scs)):
            for o, src in ((obs[i], src1[i]), (obs2.get(i), src2[i])):
                if o is None:
                    continue
                case = {"kind": "scenario", "sc": sc, "imports": "star", "attr_mode": attr_mode, "src": src}
                if o["anomalies"]:
                    rep.violation(dict(case=case, observed=o), "the loader offered a reference the rendering does "
                                  "not explain: " + "; ".join(o["anomalies"][:3]))
                    cnt["violations"] += 1
                    continue
                v = common.judge(rep, case, observed_outcome(o, attr_mode), expected_outcome(exp[k], attr_mode),
                                 {fid: expected_outcome(t[k], attr_mode) for fid, t in dexp.items()},
                                 nontrivial=nontrivial(sc),
                                 why=f"scenario {common.canon(sc)} (provider {src}): textX gave "
                                     f"{common.canon(observed_outcome(o, attr_mode))} but LoaderResolve prescribes "
                                     f"{common.canon(expected_outcome(exp[k], attr_mode))}")
                cnt["passed" if v == "pass" else "known" if v == "known" else "violations"] += 1
        stats[fam] = cnt
        # the recorded loads handed to trace validation (every `trace_every`-th enumerated scenario)
        pick = range(0, len(scs), trace_every)
        all_sc += [scs[i] for i in pick]
        all_obs += [obs[i] for i in pick]
        all_imp += ["star"] * len(pick)
        all_src += [src1[i] for i in pick]
    n_enum = len(all_sc)
    kw = random_kw or {}
    rs_sc = [random_scenario(rng, **kw) for _ in range(n_random)]
    rs_imp = [rng.choice(["star", "chain"]) for _ in range(n_random)]
    rs_sc = [norm_sc(x) for x in rs_sc]
    rs_src = ["grammar" if i % 2 and grammar_source_ok(sc, imp) else "registered"
              for i, (sc, imp) in enumerate(zip(rs_sc, rs_imp))]
    all_sc += rs_sc
    all_imp += rs_imp
    all_src += rs_src
    all_obs += run_many(rs_sc, rep.seed, rs_imp, rs_src)
    traces = [trace_of(sc, o) for sc, o in zip(all_sc, all_obs)]
    verdicts, rr = validate(traces, "", attr_mode)
    for i, r in enumerate(rr):
        rep.add_mc(f"TraceLoaderResolve#{i}", r, ["TraceNext consumes every provider call and reaches the logged outcome"])
    rejected = [i for i, v in enumerate(verdicts) if not v["accepted"]]
    alt = {}
    if rejected:
        for fid, d in devs.items():
            v2, _ = validate([traces[i] for i in rejected], d, attr_mode)
            alt[fid] = {i: v2[j]["accepted"] for j, i in enumerate(rejected)}
    tcnt = dict(traces=len(traces), enumerated=n_enum, random=n_random, accepted=0, known=0, violations=0)
    for i, (tr, v) in enumerate(zip(traces, verdicts)):
        sc = all_sc[i]
        case = {"kind": "trace", "sc": sc, "imports": all_imp[i], "attr_mode": attr_mode, "src": all_src[i]}
        if all_obs[i]["anomalies"] and i >= n_enum:
            rep.violation(dict(case=case, observed=all_obs[i]), "; ".join(all_obs[i]["anomalies"][:3]))
            tcnt["violations"] += 1
        elif v["accepted"]:
            rep.passed(dict(sc=sc, calls=[[e["m"], e["r"], e["ans"]] for e in tr["events"][:16]]),
                       nontrivial=nontrivial(sc) and i >= n_enum)
            tcnt["accepted"] += 1
        else:
            fid = next((f for f, a in alt.items() if a.get(i)), None)
            if fid:
                rep.known_finding(fid, case)
                tcnt["known"] += 1
            else:
                rep.violation(dict(case=case, trace=tr), explain_reject(tr, v))
                tcnt["violations"] += 1
    stats["traces"] = tcnt
    return stats


def replay_case(path):
    """Re-run one stored case against the real code and let TLC judge the recorded load again."""
    with open(path) as f:
        rec = json.load(f)
    c = rec["case"]
    case = c.get("case", c)
    sc, imports, mode = norm_sc(case["sc"]), case.get("imports", "star"), case.get("attr_mode", "seq")
    src = case.get("src", "registered")
    work = tlc.scratch("vt-res-")
    try:
        obs = run_scenario(sc, int(os.environ.get("VERIF_SEED", "0") or 0), work, imports, src)
        print("provider source:", src)
        names = names_for(sc, int(os.environ.get("VERIF_SEED", "0") or 0))
        for fn, text in render(sc, names, imports)[0]:
            print(f"--- {fn}\n{text}", end="")
    finally:
        shutil.rmtree(work, ignore_errors=True)
    print("scenario :", common.canon(sc))
    print("calls    :", [(e["m"], e["r"], e["attempt"], e["ans"]) for e in obs["calls"]])
    print("observed :", common.canon(observed_outcome(obs, mode)), obs["anomalies"] or "")
    tr = trace_of(sc, obs)
    v, _ = validate([tr], "", mode)
    if v[0]["accepted"] and not obs["anomalies"]:
        print("LoaderResolve (Dev = {}) accepts this load")
        return 0
    print("LoaderResolve (Dev = {}) rejects this load:", explain_reject(tr, v[0]))
    return 1
