"""Driver for property C16 (spec/History.tla).

A *pool* of metamodel configurations (grammar x options) and inputs, an
executor that applies the abstract operations of History.tla -- NewMM, DropMM,
LoadStr, LoadFile -- to the real textX inside ONE interpreter, a projector
that turns what a load returned (model or exception) into a canonical dump,
a projector for the state that outlives a load, and the `fresh` entry point
that runs one (configuration, input, mode) in a brand-new interpreter
(`python -m vt.drive.history fresh ...`), which is how the `Fresh` table of
the specification is produced.

Nothing here decides what is expected: expected outcomes come out of TLC
evaluating History.tla with the Fresh table as data.
"""
from __future__ import annotations

import hashlib
import json
import os
import sys

if __name__ == "__main__":      # `python -m vt.drive.history fresh ...`: textX comes from $VT_REPO
    _repo = os.environ.get("VT_REPO", "/repo")
    if _repo not in sys.path:
        sys.path.insert(0, _repo)

# --------------------------------------------------------------------------- the pool
# The three grammars deliberately share textually identical regular expressions and
# string literals in different roles, so that anything cached per regex / literal text
# across metamodels (not only per metamodel) shows up as history dependence:
#   /\d+/     ent: right-hand side of an assignment   imp: suppressed match   expr: body of a match rule
#   /[a-z]+/  ent: right-hand side of an assignment   imp: separator modifier expr: body of a match rule
#   ','       ent/imp: separator modifier             imp: suppressed match   expr: assignment rhs + separator
# and every grammar is also built with ignore_case=True (option `icase`).
GRAMMARS = {
    # entities with base types, references resolved by a provider that uses the
    # parser's `_instances` index and performs *nested loads* (same metamodel)
    # from inside the scope provider for names of the form <lib>_<name>
    "ent": r"""
Model: 'model' name=ID items+=Item;
Item: 'item' name=ID ('=' val=BASETYPE)? ('#' num=NUMBER)? ('~' flt=FLOAT)? ('@' code=/\d+/ tag=/[a-z]+/)?
      ('->' refs+=[Item][','])? ('=>' one=[Item])? ';';
Comment: /\/\/.*$/;
""",
    # importURI: further files are loaded by the ModelLoader scope provider
    "imp": r"""
Model: imports*=Import things*=Thing;
Import: 'import' importURI=STRING (','- 'weak')? ';';
Thing: (/\d+/- ':')? 'thing' name=ID ('[' tags+=INT[/[a-z]+/] ']')?
       ('uses' uses+=[Thing|FQN][','])? ('{' things+=Thing '}')?;
FQN: ID('.'ID)*;
Comment: /#.*$/;
""",
    # parser modifiers, predicates, unordered group, match rules, block comments
    "expr": r"""
Prog: stmts+=Stmt;
Stmt: Let | Print | Row | Opts | Tup;
Tup: 'tup' x=Digits c=',' y=Digits unit=Unit ';';
Digits: /\d+/;
Unit: /[a-z]+/;
Let: 'let' name=ID '=' e=Sum ';';
Sum: l=Term (ops+=AddOp rs+=Term)*;
AddOp: '+' | '-';
Term: Neg | Num | Use | Paren | Txt;
Neg: '-' !'-' t=Term;
Num: v=NUMBER;
Use: ref=[Let];
Paren: '(' s=Sum ')';
Txt: s=Word;
Word[noskipws]: /\s*/ '<' /[a-z ]*/ '>';
Print: 'print' args+=Sum[','] ';';
Row: 'row' cells+=INT[eolterm] ('|' more+=STRING[eolterm])?;
Opts: 'opts' (a?='alpha' b?='beta' ('n' c=INT)?)# ';';
Comment: /\/\*(.|\n)*?\*\//;
""",
    # one RREL scope provider *registered as a string* serves attributes whose match rules
    # have different `split` parameters (the provider object lives in the metamodel and is
    # shared by all loads): models written in one notation each
    "pkg": r"""
Model: packages*=Package uses*=Use;
Package: 'package' name=ID '{' items*=Item packages*=Package '}';
Item: 'item' name=ID ('=' v=INT)? ';';
Use: DotUse | PathUse | ColUse;
DotUse: 'use' ref=[Item|DOTTED] ('or' alt=[Package|DOTTED])? ';';
PathUse: 'open' ref=[Item|PATH] ';';
ColUse: 'take' pk=[Package|COLON] ';';
DOTTED: ID ('.' ID)*;
PATH[split='/']: ID ('/' ID)*;
COLON[split='::']: ID ('::' ID)*;
Comment: /\/\/.*$/;
""",
    # an ImportURI provider configured with a search path (state of the provider object);
    # the model files live in several directories and import files by bare name
    "dirs": r"""
Model: imports*=Import things*=Thing uses*=Use;
Import: 'import' importURI=STRING ';';
Thing: 'thing' name=ID ('=' v=INT)? ';';
Use: 'use' ref=[Thing] ';';
Comment: /#.*$/;
""",
}
EXT = {"ent": ".ent", "imp": ".imp", "expr": ".expr", "pkg": ".pkg", "dirs": ".dirs"}
OPTIONS = ["plain", "memo", "classes", "procs", "grepo", "icase"]
# options per grammar (the two grammars with stateful providers get the options that matter for them)
GOPTIONS = {"ent": OPTIONS, "imp": OPTIONS, "expr": OPTIONS,
            "pkg": ["plain", "memo", "classes", "procs"], "dirs": ["plain", "memo", "classes", "grepo"]}

# inputs: text plus an abstract description.  History.tla is told `defs` (names
# the text defines, i.e. what a parser's _instances index holds after the load)
# and refs - defs (names that cannot be resolved); these feed only the seeded
# breakages of the module.  syn / trig / pre document what the text is meant to
# be (syntactically valid, contains the value the raising processor reacts to,
# failure forced by a nested / imported load); the outcome class itself is never
# taken from here but from the Fresh table.
_PKGS = "package P { item a; item b = 2; package Q { item a = 7; } }\npackage R { item c; }\n"
INPUTS = {
    "ent": {
        "valid": dict(text="""model m1 // first
item a = 5 # 1.5 ~ 2.5 @ 42 px;
item b = "text" -> a;
item c = true # 7 -> a, b => b;
item d = word ~ 3;
""", syn=True, defs=["a", "b", "c", "d"], refs=["a", "b"], trig=False, pre="none"),
        "valid2": dict(text="""model m2
item x = 10 -> good_p, x;
item y = 'q' # -2.5e3 @ 7 em => good_q; // nested load of a library
""", syn=True, defs=["x", "y", "good_p", "good_q"], refs=["good_p", "x", "good_q"], trig=False, pre="none"),
        "syntax": dict(text="""model m3
item a = 5 # 1.5;
item b = "text" -> a
item c = = ;
""", syn=False, defs=["a", "b"], refs=["a"], trig=False, pre="none"),
        "unknown": dict(text="""model m4
item x = 1;
item z -> x, a;
""", syn=True, defs=["x", "z"], refs=["x", "a"], trig=False, pre="none"),
        "boom": dict(text="""model m5
item a = "s";
item boom = 3 @ 0 x -> a;
item e => boom;
""", syn=True, defs=["a", "boom", "e"], refs=["a", "boom"], trig=True, pre="none"),
        "nestbad": dict(text="""model m6
item a = 1;
item w -> a, bad_p;
""", syn=True, defs=["a", "w"], refs=["a", "bad_p"], trig=False, pre="syntax"),
    },
    "imp": {
        "valid": dict(text="""import "lib.imp", weak; # uses a library
thing a [1 and 2 or 3] uses base, base.inner { thing a1 uses a }
10: thing b uses a.a1, other
""", syn=True, defs=["a", "a.a1", "b", "base", "base.inner", "other"],
                      refs=["base", "base.inner", "a", "a.a1", "other"], trig=False, pre="none"),
        "noimp": dict(text="""7: thing p [4] { thing q uses p }
thing r [5 x 6] uses p.q, p
""", syn=True, defs=["p", "p.q", "r"], refs=["p", "p.q"], trig=False, pre="none"),
        "syntax": dict(text="""import "lib.imp";
thing a uses base
thing { }
""", syn=False, defs=["a"], refs=["base"], trig=False, pre="none"),
        "unknown": dict(text="""import "lib.imp";
20: thing p uses base
thing c [8] uses p, a
""", syn=True, defs=["p", "c", "base", "base.inner", "other"], refs=["base", "p", "a"], trig=False, pre="none"),
        "boom": dict(text="""import "lib.imp";
thing a [1 z 2] uses other
30: thing boom uses a
""", syn=True, defs=["a", "boom", "base", "base.inner", "other"], refs=["other", "a"], trig=True, pre="none"),
        "impbad": dict(text="""import "lib.imp";
import "bad.imp";
thing a uses base
""", syn=True, defs=["a", "base", "base.inner", "other"], refs=["base"], trig=False, pre="syntax"),
    },
    "expr": {
        "valid": dict(text="""let a = 1 + 2.5 - (3 + -4);
/* a block
   comment */
let b = a + < some text > - -a;
print a, b + 1, <x>;
row 1 2 3
row 4 5 | "s" 't'
tup 3, 44 px;
opts beta n 3 alpha;
""", syn=True, defs=["a", "b"], refs=["a"], trig=False, pre="none"),
        "valid2": dict(text="""let q = 7;
opts alpha;
let r = q + q + 1e3; /* inline */
row 9
tup 0, 1 em;
print r;
""", syn=True, defs=["q", "r"], refs=["q", "r"], trig=False, pre="none"),
        "syntax": dict(text="""let a = 1 + 2.5;
let b = a + (3 - ;
print a;
""", syn=False, defs=["a"], refs=["a"], trig=False, pre="none"),
        "unknown": dict(text="""let q = 7;
let c = q + a;
print b;
""", syn=True, defs=["q", "c"], refs=["q", "a", "b"], trig=False, pre="none"),
        "boom": dict(text="""let a = 1;
let boom = a + 13;
tup 13, 13 x;
print boom;
""", syn=True, defs=["a", "boom"], refs=["a", "boom"], trig=True, pre="none"),
    },
    "pkg": {
        "valid": dict(text=_PKGS + "use P.b; use P.Q.a or P.Q; // dotted names only\n",
                      syn=True, defs=[], refs=[], trig=False, pre="none"),
        "valid2": dict(text=_PKGS + "open P/b;\nopen P/Q/a;\n", syn=True, defs=[], refs=[], trig=False, pre="none"),
        "colon": dict(text=_PKGS + "take P::Q; take R;\n", syn=True, defs=[], refs=[], trig=False, pre="none"),
        "mixed": dict(text=_PKGS + "take P::Q; open P/Q/a; use P.a or R;\n", syn=True, defs=[], refs=[], trig=False,
                      pre="none"),
        "syntax": dict(text=_PKGS + "use P.b\nopen ;\n", syn=False, defs=[], refs=[], trig=False, pre="none"),
        "unknown": dict(text=_PKGS + "open P/b; open P/Q/b;\n", syn=True, defs=[], refs=[], trig=False, pre="none"),
        "boom": dict(text=_PKGS + "package S { item boom = 1; }\nuse S.boom;\n", syn=True, defs=[], refs=[], trig=True,
                     pre="none"),
    },
    "dirs": {
        # a/ has its own common.dirs (thing x); b/ and c/ have none: only shared/common.dirs (thing y)
        # is reachable through the search path; onlya.dirs exists in a/ only
        "valid": dict(dir="a", text='import "common.dirs"; # found next to the file\nthing m = 3; use x; use m;\n',
                      syn=True, defs=[], refs=[], trig=False, pre="none"),
        "validb": dict(dir="b", text='import "common.dirs"; # found on the search path\nthing n; use y; use n;\n',
                       syn=True, defs=[], refs=[], trig=False, pre="none"),
        "missing": dict(dir="c", text='import "onlya.dirs";\nuse z;\n', syn=True, defs=[], refs=[], trig=False,
                        pre="other"),
        "noimp": dict(dir="c", text="thing p = 1; thing q; use q; use p;\n", syn=True, defs=[], refs=[], trig=False,
                      pre="none"),
        "syntax": dict(dir="a", text='import "common.dirs";\nthing m use x;\n', syn=False, defs=[], refs=[],
                       trig=False, pre="none"),
        "unknown": dict(dir="b", text='import "common.dirs";\nthing q; use q; use x;\n', syn=True, defs=[], refs=[],
                        trig=False, pre="none"),
        "boom": dict(dir="c", text='import "common.dirs";\nthing boom; use y;\n', syn=True, defs=[], refs=[],
                     trig=True, pre="none"),
        "impdep": dict(dir="b", dep=True, text='import "dep.dirs";\nimport "common.dirs";\nuse d; use y;\n',
                       syn=True, defs=[], refs=[], trig=False, pre="none"),
    },
}
INPUTS["imp"]["impdep"] = dict(dep=True, text='import "dep.imp";\nimport "lib.imp";\nthing u uses dep, other\n',
                               syn=True, defs=["u", "dep", "base", "base.inner", "other"], refs=["dep", "other"],
                               trig=False, pre="none")

# library files next to the model files (loaded by nested / imported loads)
LIBS = {
    "ent": {"good.ent": "model lib\nitem p = 1 @ 9 lib;\nitem q = 2 -> p;\n",
            "bad.ent": "model lib\nitem p = ;\n"},
    "imp": {"lib.imp": "1: thing base { thing inner }\nthing other [0 and 0] uses base.inner\n",
            "bad.imp": "thing base {\n"},
    "expr": {},
    "pkg": {},
    "dirs": {"a/common.dirs": "thing x = 1;\n", "a/onlya.dirs": "thing z;\n",
             "shared/common.dirs": "thing y = 2;\n"},
}
# the one *mutable library file* of a grammar directory (imported by the inputs marked dep=True):
# relative path and its two contents.  `good` is the initial content.
DEP = {"imp": ("dep.imp", {"good": "thing dep uses dep\n", "bad": "thing dep {\n"}),
       "dirs": ("shared/dep.dirs", {"good": "thing d = 4;\n", "bad": "thing d = ;\n"})}
WORLDS = ["good", "bad"]

# library files a scope provider loads as *nested main models* (same metamodel)
NESTED = {"ent": {"valid2": ["good.ent"], "nestbad": ["bad.ent"]}}
# imported models (is_main_model=False) parsed before reference resolution starts
NIMP = {"imp": {"valid": 1, "unknown": 1, "boom": 1, "impbad": 1, "impdep": 2},
        "dirs": {"valid": 1, "validb": 1, "unknown": 1, "boom": 1, "syntax": 0, "impdep": 2}}
# what WriteFile may put into the mutable file `scratch<ext>` (initially the first one); the scratch
# file lives in the directory of these inputs
WINPUTS = {g: (["validb", "unknown"] if g == "dirs" else ["valid", "unknown"]) for g in GRAMMARS}
SCRATCH = "scratch"

CFGS = [f"{g}.{o}" for g in GRAMMARS for o in GOPTIONS[g]]


def input_dir(g, inp):
    return INPUTS[g][inp].get("dir", "")


def scratch_dir(g):
    return input_dir(g, WINPUTS[g][0])


def input_path(workdir, g, inp):
    """Path of the file named `inp` (an input or the scratch file) of grammar g."""
    d = scratch_dir(g) if inp == SCRATCH else input_dir(g, inp)
    return os.path.join(workdir, g, d, inp + EXT[g])


def uses_dep(g, inp):
    return bool(INPUTS[g][inp].get("dep"))


def cfg_flags(cfg):
    g, o = cfg.split(".")
    return dict(grammar=g, memo=(o == "memo"), classes=(o == "classes"), procs=(o == "procs"),
                grepo=(o == "grepo"), icase=(o == "icase"), inst=(g == "ent"), debug=False)


def _put(path, text):
    os.makedirs(os.path.dirname(path), exist_ok=True)
    with open(path, "w") as f:
        f.write(text)


def write_pool(workdir, world="good"):
    """One directory tree per grammar: the input files, the libraries, the scratch file and
    the mutable library file with the content of `world`."""
    for g in GRAMMARS:
        os.makedirs(os.path.join(workdir, g), exist_ok=True)
        for name, rec in INPUTS[g].items():
            _put(input_path(workdir, g, name), rec["text"])
        for name, text in LIBS[g].items():
            _put(os.path.join(workdir, g, name), text)
        write_scratch(workdir, g, WINPUTS[g][0])
        if g in DEP:
            write_dep(workdir, g, world)


def write_scratch(workdir, g, inp):
    _put(input_path(workdir, g, SCRATCH), INPUTS[g][inp]["text"])


def write_dep(workdir, g, world):
    _put(os.path.join(workdir, g, DEP[g][0]), DEP[g][1][world])


# --------------------------------------------------------------------------- building a metamodel
class Live:
    """One metamodel of the pool that is currently alive."""

    def __init__(self, cfg, mm, classes, workdir):
        self.cfg, self.mm, self.classes, self.workdir = cfg, mm, classes, workdir
        self.flags = cfg_flags(cfg)


def _user_classes(grammar, counters):
    """Fresh class objects for every metamodel (sharing classes is out of scope)."""

    def mk(name, fields):
        def __init__(self, parent=None, **kw):
            counters[name] = counters.get(name, 0) + 1
            self.__dict__["_inits"] = self.__dict__.get("_inits", 0) + 1
            if parent is not None:
                self.parent = parent
            for k in fields:
                setattr(self, k, kw.pop(k, None))
            assert not kw, kw

        return type(name, (), {"__init__": __init__})

    if grammar == "ent":
        return [mk("Model", ["name", "items"]), mk("Item", ["name", "val", "num", "flt", "code", "tag", "refs", "one"])]
    if grammar == "imp":
        return [mk("Thing", ["name", "tags", "uses", "things"])]
    if grammar == "pkg":
        return [mk("Package", ["name", "items", "packages"]), mk("Item", ["name", "v"])]
    if grammar == "dirs":
        return [mk("Thing", ["name", "v"]), mk("Use", ["ref"])]
    return [mk("Let", ["name", "e"]), mk("Sum", ["l", "ops", "rs"])]


def _processors(grammar):
    from textx.exceptions import TextXSemanticError
    from textx.model import get_location

    def named_boom(o):
        if getattr(o, "name", None) == "boom":
            raise TextXSemanticError("boom!", **get_location(o))

    if grammar == "ent":
        return {"Item": named_boom, "STRING": lambda s: s[1:-1].upper()}
    if grammar in ("imp", "dirs"):
        return {"Thing": named_boom}
    if grammar == "pkg":
        return {"Item": named_boom}

    def num(o):
        if o.v == 13:
            raise TextXSemanticError("unlucky", **get_location(o))

    return {"Num": num, "Word": lambda w: w.strip()}


def _ent_provider(live_ref):
    """Item.* references: local lookup through parser._instances; names
    <lib>_<name> are looked up in <lib>.ent, loaded *from inside the provider*
    with the same metamodel."""
    from textx.scoping.providers import PlainName

    local = PlainName(multi_metamodel_support=False)

    def provider(obj, attr, obj_ref):
        r = local(obj, attr, obj_ref)
        if r is not None:
            return r
        name = obj_ref.obj_name
        if "_" in name:
            lib, n = name.split("_", 1)
            live = live_ref[0]
            path = os.path.join(live.workdir, "ent", lib + ".ent")
            if os.path.exists(path):
                m = live.mm.model_from_file(path)
                for it in m.items:
                    if it.name == n:
                        return it
        return None

    return provider


def new_mm(cfg, workdir):
    from textx import metamodel_from_str
    from textx.scoping.providers import FQNImportURI, PlainNameImportURI

    fl = cfg_flags(cfg)
    g = fl["grammar"]
    counters = {}
    kw = {}
    classes = []
    if fl["classes"]:
        classes = _user_classes(g, counters)
        kw["classes"] = classes
    if fl["memo"]:
        kw["memoization"] = True
    if fl["grepo"]:
        kw["global_repository"] = True
    if fl["icase"]:
        kw["ignore_case"] = True
    mm = metamodel_from_str(GRAMMARS[g], **kw)
    live = Live(cfg, mm, classes, workdir)
    live.counters = counters
    if g == "ent":
        mm.register_scope_providers({"*.*": _ent_provider([live])})
    elif g == "imp":
        mm.register_scope_providers({"*.*": FQNImportURI()})
    elif g == "pkg":
        # RREL providers given as strings: one provider object per pattern, shared by all loads
        mm.register_scope_providers({"*.ref": "packages*.items", "*.pk": "packages*", "*.alt": "packages*"})
    elif g == "dirs":
        mm.register_scope_providers({"*.*": PlainNameImportURI(search_path=[os.path.join(workdir, "dirs", "shared")])})
    if fl["procs"]:
        mm.register_obj_processors(_processors(g))
    return live


# --------------------------------------------------------------------------- projection of results
_ROOT = [None]      # directory of the grammar whose load is being projected (set by do_load)


def _norm_file(fn, self_file):
    if fn is None:
        return "<none>"
    fn = os.path.abspath(fn)
    if self_file and fn == os.path.abspath(self_file):
        return "<self>"
    if _ROOT[0] and fn.startswith(_ROOT[0] + os.sep):
        return "file:" + os.path.relpath(fn, _ROOT[0])
    return "file:" + os.path.basename(fn)


def _prim(v):
    if isinstance(v, bool):
        return ["bool", v]
    if isinstance(v, int):
        return ["int", v]
    if isinstance(v, float):
        return ["float", repr(v)]
    if isinstance(v, str):
        return ["str", v]
    if v is None:
        return ["none"]
    return None


def dump_metamodel(mm):
    out = []
    for ns in sorted(mm.namespaces, key=str):
        for name, cls in sorted(mm.namespaces[ns].items()):
            attrs = []
            for an, a in getattr(cls, "_tx_attrs", {}).items():
                attrs.append([an, a.cls.__name__, a.mult, bool(a.cont), bool(a.ref), a.position])
            out.append([str(ns), name, str(getattr(cls, "_tx_type", "?")), attrs,
                        sorted(c.__name__ for c in getattr(cls, "_tx_inh_by", [])),
                        getattr(cls, "_tx_position", None)])
    return out


def dump_model(model, self_file):
    """Class names, attribute values, containment, reference targets as paths, positions."""
    from textx import get_model

    if _prim(model) is not None:
        return dict(root=_prim(model))
    paths = {}       # id(model) -> {id(obj): path}

    def index(m):
        if id(m) in paths:
            return paths[id(m)]
        tab = paths[id(m)] = {}

        def walk(o, p):
            tab[id(o)] = p
            cls = type(o)
            for an, a in getattr(cls, "_tx_attrs", {}).items():
                if not a.cont:
                    continue
                v = getattr(o, an, None)
                if isinstance(v, list):
                    for i, x in enumerate(v):
                        if hasattr(type(x), "_tx_attrs"):
                            walk(x, f"{p}/{an}.{i}")
                elif v is not None and hasattr(type(v), "_tx_attrs"):
                    walk(v, f"{p}/{an}")

        walk(m, "")
        return tab

    def ref(t):
        if t is None:
            return ["ref", "none"]
        if not hasattr(type(t), "_tx_attrs"):
            return ["ref", "foreign", repr(_prim(t))]
        tm = get_model(t)
        p = index(tm).get(id(t), "?unreachable")
        return ["ref", _norm_file(getattr(tm, "_tx_filename", None), self_file), p or "/"]

    def obj(o, parent):
        cls = type(o)
        d = dict(cls=cls.__name__, pos=[getattr(o, "_tx_position", None), getattr(o, "_tx_position_end", None)])
        if "_inits" in getattr(o, "__dict__", {}):
            d["inits"] = o.__dict__["_inits"]
        par = getattr(o, "parent", None)
        d["parent_ok"] = (par is parent) if parent is not None else (par is None)
        attrs = {}
        for an, a in cls._tx_attrs.items():
            v = getattr(o, an, "<missing>")
            if a.cont:
                if isinstance(v, list):
                    attrs[an] = [obj(x, o) if hasattr(type(x), "_tx_attrs") else _prim(x) for x in v]
                elif hasattr(type(v), "_tx_attrs"):
                    attrs[an] = obj(v, o)
                else:
                    attrs[an] = _prim(v) if _prim(v) is not None else ["?", repr(type(v))]
            else:
                attrs[an] = [ref(x) for x in v] if isinstance(v, list) else ref(v)
        d["attrs"] = attrs
        extra = sorted(k for k in getattr(o, "__dict__", {}) if not k.startswith("_") and k not in attrs
                       and k != "parent")
        if extra:
            d["extra"] = extra
        return d

    return dict(root=obj(model, None), file=_norm_file(getattr(model, "_tx_filename", None), self_file),
                mm_ok=getattr(model, "_tx_metamodel", None) is not None)


def project_error(e, self_file, workdir):
    msg = str(getattr(e, "message", None) if getattr(e, "message", None) is not None else e)
    if workdir:
        msg = msg.replace(os.path.realpath(workdir), "<wd>").replace(workdir, "<wd>")
    fn = getattr(e, "filename", None)
    return dict(error=type(e).__name__, message=msg, line=getattr(e, "line", None), col=getattr(e, "col", None),
                filename=_norm_file(fn, self_file) if isinstance(fn, (str, type(None))) else repr(fn),
                err_type=getattr(e, "err_type", None))


def kind_of(dump):
    if "error" not in dump:
        return "model"
    c, et, msg = dump["error"], dump.get("err_type"), dump.get("message", "")
    if c == "TextXSyntaxError":
        return "syntax"
    if c == "TextXSemanticError" and et == "Unknown object":
        return "unknown"
    if c == "TextXSemanticError" and msg in ("boom!", "unlucky"):
        return "proc"
    return "other:" + c


def digest(x):
    return hashlib.sha1(json.dumps(x, sort_keys=True, separators=(",", ":"), default=str).encode()).hexdigest()[:16]


def do_load(live, mode, inp):
    """mode 'str': inp names an input text; mode 'file': inp names a file.
    Returns (dump, model-or-None)."""
    g = live.flags["grammar"]
    path = input_path(live.workdir, g, inp)
    _ROOT[0] = os.path.abspath(os.path.join(live.workdir, g))
    try:
        if mode == "str":
            model = live.mm.model_from_str(INPUTS[g][inp]["text"])
            self_file = None
        else:
            model = live.mm.model_from_file(path)
            self_file = path
    except Exception as e:  # the projected error is the outcome
        return project_error(e, path if mode == "file" else None, live.workdir), None
    return dump_model(model, self_file), model


# --------------------------------------------------------------------------- projection of shared state
def _rule_cache_entries(root, seen):
    n = 0
    stack = [root]
    while stack:
        r = stack.pop()
        if id(r) in seen:
            continue
        seen.add(id(r))
        n += len(getattr(r, "_result_cache", {}) or {})
        stack.extend(getattr(r, "nodes", []) or [])
    return n


def project_shared(lives, slots, scratch, dep):
    """The state that outlives a load, projected onto History.tla's variables.

    gp      {debug flag: none | plain | memo}      textx.lang.textX_parsers
    cache   number of packrat entries stored in any rule object reachable from the
            grammar parser, the shared base-type rules and every live blueprint
    mms     per slot 1..N: cfg ("-" = free), dirty = names of blueprint-parser fields
            that are not pristine (+ leftovers of the class instrumentation),
            instr = sum of the _tx_instrumented counters of the user classes,
            repo = files cached in the metamodel's global repository
    scratch content of the mutable file per grammar (known to the executor)
    """
    import textx.lang as lang

    gp = {"false": "none", "true": "none"}
    cache = 0
    seen = set()
    for dbg, p in lang.textX_parsers.items():
        gp["true" if dbg else "false"] = "memo" if p.memoization else "plain"
        cache += _rule_cache_entries(p.parser_model, seen)
        if getattr(p, "comments_model", None) is not None:
            cache += _rule_cache_entries(p.comments_model, seen)
    for r in lang.BASE_TYPE_RULES.values():
        cache += _rule_cache_entries(r, seen)
    mms = []
    for slot in range(1, slots + 1):
        live = lives.get(slot)
        if live is None:
            mms.append(dict(cfg="-", dirty=[], instr=0, repo=[]))
            continue
        bp = getattr(live.mm, "_parser_blueprint", None)
        dirty = []
        if bp is not None:
            for fld in ("_inst_stack", "_instances", "_crossrefs", "comments", "comment_positions", "sem_actions"):
                if getattr(bp, fld, None):
                    dirty.append(fld)
            for fld in ("input", "parse_tree", "_user_class_inst"):
                if getattr(bp, fld, None) is not None:
                    dirty.append(fld)
            cache += _rule_cache_entries(bp.parser_model, seen)
            if getattr(bp, "comments_model", None) is not None:
                cache += _rule_cache_entries(bp.comments_model, seen)
        instr = 0
        for c in live.classes:
            instr += int(c.__dict__.get("_tx_instrumented", 0))
            for nm in ("__setattr__", "__getattribute__", "__delattr__"):
                if nm in c.__dict__ and "_tx_instrumented" not in c.__dict__:
                    dirty.append("class:" + nm)
        repo = []
        r = getattr(live.mm, "_tx_model_repository", None)
        if r is not None:
            repo = sorted(_repo_name(k, live.workdir, live.flags["grammar"])
                          for k in r.all_models.filename_to_model)
        mms.append(dict(cfg=live.cfg, dirty=sorted(set(dirty)), instr=instr, repo=repo))
    d = dict(dep)
    d["_"] = "good"          # never an empty object (TLC's JSON reader)
    return dict(gp=gp, cache=cache, mms=mms, scratch=dict(scratch), dep=d)


def _repo_name(path, workdir, g):
    """Name of a cached file as the module knows it: the input (or `scratch`) for a file
    of the pool, otherwise the path relative to the grammar directory (libraries)."""
    path = os.path.abspath(path)
    for i in list(INPUTS[g]) + [SCRATCH]:
        if path == os.path.abspath(input_path(workdir, g, i)):
            return i
    root = os.path.abspath(os.path.join(workdir, g))
    return os.path.relpath(path, root) if path.startswith(root + os.sep) else os.path.basename(path)


# --------------------------------------------------------------------------- executing a history
class Executor:
    """Applies History.tla operations to the real textX in this interpreter."""

    def __init__(self, workdir, slots=3, grammars=None):
        self.workdir = workdir
        self.slots = slots
        self.grammars = list(grammars or GRAMMARS)
        self.lives = {}
        self.returned = []      # (op index, model) kept alive so identity is meaningful
        self.n = 0
        self.scratch = {g: WINPUTS[g][0] for g in self.grammars}
        self.dep = {g: "good" for g in self.grammars if g in DEP}

    def reset_process_state(self):
        """Back to the initial state of the module (used between histories)."""
        import gc

        import textx.lang as lang

        self.lives.clear()
        self.returned.clear()
        self.n = 0
        lang.textX_parsers.clear()
        for g in self.grammars:
            if self.scratch[g] != WINPUTS[g][0]:
                write_scratch(self.workdir, g, WINPUTS[g][0])
            self.scratch[g] = WINPUTS[g][0]
            if self.dep.get(g, "good") != "good":
                write_dep(self.workdir, g, "good")
                self.dep[g] = "good"
        gc.collect()

    def apply(self, op):
        """op = dict(name, slot, arg[, inp]); returns dict(kind, dig, ident, dump)."""
        self.n += 1
        name = op["name"]
        if name == "NewMM":
            assert op["slot"] not in self.lives
            try:
                live = new_mm(op["arg"], self.workdir)
                self.lives[op["slot"]] = live
                dump = dict(metamodel=dump_metamodel(live.mm))
                kind = "mm"
            except Exception as e:
                dump = project_error(e, None, self.workdir)
                kind = "other:" + type(e).__name__
            return dict(kind=kind, dig=digest(dump), ident=0, dump=dump)
        if name == "DropMM":
            del self.lives[op["slot"]]
            return dict(kind="none", dig="-", ident=0, dump={})
        if name == "WriteFile":
            write_scratch(self.workdir, op["arg"], op["inp"])
            self.scratch[op["arg"]] = op["inp"]
            return dict(kind="none", dig="-", ident=0, dump={})
        if name == "WriteDep":
            write_dep(self.workdir, op["arg"], op["inp"])
            self.dep[op["arg"]] = op["inp"]
            return dict(kind="none", dig="-", ident=0, dump={})
        live = self.lives[op["slot"]]
        dump, model = do_load(live, "str" if name == "LoadStr" else "file", op["arg"])
        ident = 0
        if model is not None:
            for k, m in self.returned:
                if m is model:
                    ident = k
                    break
            else:
                self.returned.append((self.n, model))
        return dict(kind=kind_of(dump), dig=digest(dump), ident=ident, dump=dump)

    def state(self):
        return project_shared(self.lives, self.slots, self.scratch, self.dep)


# --------------------------------------------------------------------------- Fresh: one run in a new interpreter
def fresh_one(cfg, inp, mode, workdir, world):
    """NewMM(cfg) then one load, in this (brand-new) interpreter.  `workdir` holds the pool
    with the mutable library file in state `world` (one directory per world, prepared by the
    caller; nothing is written here)."""
    import textx

    g = cfg.split(".")[0]
    ex = Executor(workdir, slots=1, grammars=[g])
    if g in DEP:
        ex.dep[g] = world
    r0 = ex.apply(dict(name="NewMM", slot=1, arg=cfg))
    out = dict(cfg=cfg, inp=inp, mode=mode, world=world, mm=dict(kind=r0["kind"], dig=r0["dig"]))
    r = ex.apply(dict(name="LoadStr" if mode == "str" else "LoadFile", slot=1, arg=inp))
    st = ex.state()
    out["load"] = dict(kind=r["kind"], dig=r["dig"], dump=r["dump"],
                       libs=[f for f in st["mms"][0]["repo"] if not (mode == "file" and f == inp)],
                       state=st)
    out["textx"] = os.path.realpath(os.path.dirname(os.path.dirname(os.path.abspath(textx.__file__))))
    return out


def main(argv):
    if argv[:1] == ["fresh"]:
        cfg, inp, mode, workdir, world = argv[1:6]
        print("FRESH|" + json.dumps(fresh_one(cfg, inp, mode, workdir, world), sort_keys=True))
        return 0
    return 2


if __name__ == "__main__":
    sys.exit(main(sys.argv[1:]))
