"""Driver for the textX base types (C04): renders code-point sequences as text, pushes
them through real textX meta-models and projects what comes out onto the shape of
spec/BaseTypes.tla (`[ok, rule, beg, end, val]`, val a sequence of code points).

Grammars used (carriers; `R` is the base type under test):
  one(R)    Model: v=V t=Tail?; V: x=R; Tail: /(?s).+/;     -> value and exact span of the R match,
                                                               whatever follows it
  many(R)   Model: v*=V; V: x=R;   and the plain   Model: v*=R;   (the property's observation point)
  seq(Rs)   Model: a1=A1 a2=A2 ..; A1: x=R1; ...
"""
from __future__ import annotations

# the Python type a terminal rule converts to (textx/metamodel.py _default_obj_processors)
PYTYPE = {"INT": "int", "FLOAT": "float", "STRICTFLOAT": "float", "BOOL": "bool", "ID": "str", "STRING": "str"}


def text_of(codes):
    return "".join(map(chr, codes))


def codes_of(s):
    return [ord(ch) for ch in s]


class Carriers:
    """opts: meta-model options (use_regexp_group, ignore_case, autokwd, skipws, memoization) every
    carrier meta-model is built with; {} = the defaults."""

    def __init__(self, opts=None):
        from textx import metamodel_from_str
        from textx.exceptions import TextXSyntaxError
        self.opts = dict(opts or {})
        self._mk = lambda g: metamodel_from_str(g, **self.opts)
        self.SyntaxError = TextXSyntaxError
        self._cache = {}

    def mm(self, kind, rules):
        key = (kind, tuple(rules))
        if key not in self._cache:
            if kind == "one":
                g = f"Model: v=V t=Tail?; V: x={rules[0]}; Tail: /(?s).+/;"
            elif kind == "many":
                g = f"Model: v*=V; V: x={rules[0]};"
            elif kind == "plain":
                g = f"Model: v*={rules[0]};"
            elif kind == "seq":
                g = "Model: " + " ".join(f"a{i}=A{i}" for i in range(len(rules))) + "; " + \
                    " ".join(f"A{i}: x={r};" for i, r in enumerate(rules))
            else:
                raise ValueError(kind)
            self._cache[key] = self._mk(g)
        return self._cache[key]

    # ---- running; a run returns {"ok": bool, "ms": [raw matches]} or {"ok": "EXC:<class>"}
    def _raw(self, obj):
        return dict(beg=obj._tx_position, end=obj._tx_position_end, v=obj.x)

    def run(self, mode, rules, text):
        try:
            if mode == "one":
                m = self.mm("one", rules).model_from_str(text)
                return dict(ok=True, ms=[self._raw(m.v)])
            if mode == "many":
                m = self.mm("many", rules).model_from_str(text)
                ms = [self._raw(o) for o in m.v]
                plain = self.mm("plain", rules).model_from_str(text).v
                return dict(ok=True, ms=ms, plain=list(plain))
            if mode == "seq":
                m = self.mm("seq", rules).model_from_str(text)
                return dict(ok=True, ms=[self._raw(getattr(m, f"a{i}")) for i in range(len(rules))])
            raise ValueError(mode)
        except self.SyntaxError:
            return dict(ok=False, ms=[])
        except Exception as e:          # anything else is an outcome of its own
            return dict(ok="EXC:" + type(e).__name__, ms=[])


def pytype(v):
    return type(v).__name__


def project_value(v, expected_rule, expected_val):
    """A converted Python value as the module's `val` (sequence of code points).

    Numeric accuracy is not decided in TLA+ (DESIGN.md section 8): for FLOAT / STRICTFLOAT the
    module gives the matched literal, and the value conforms iff it is a float equal to the value
    of that literal; it is then shown as the literal itself, otherwise as repr(v).
    """
    if isinstance(v, bool):
        return [1] if v else [0]
    if isinstance(v, int):
        return codes_of(str(v))
    if isinstance(v, float):
        if PYTYPE.get(expected_rule) == "float":
            try:
                lit = float(text_of(expected_val))
            except ValueError:
                lit = None
            if lit is not None and lit == v:
                return list(expected_val)
        return codes_of(repr(v))
    if isinstance(v, str):
        return codes_of(v)
    return codes_of("?" + repr(v))


def observe(run, expected_ms):
    """Observed outcome in the module's shape, given what the module expects (only used to
    pick the literal a float is compared with)."""
    out = dict(ok=run["ok"], ms=[])
    for i, m in enumerate(run["ms"]):
        ex = expected_ms[i] if i < len(expected_ms) else dict(rule="-", val=[])
        out["ms"].append(dict(beg=m["beg"], end=m["end"], type=pytype(m["v"]),
                              val=project_value(m["v"], ex["rule"], ex["val"])))
    if "plain" in run:
        out["plain_same"] = [pytype(a) == pytype(b["v"]) and a == b["v"]
                             for a, b in zip(run["plain"], run["ms"])] + \
                            [False] * abs(len(run["plain"]) - len(run["ms"]))
    return out


def expected_shape(ok, ms, with_plain=False):
    """The module's answer in the same shape as observe()."""
    out = dict(ok=ok, ms=[dict(beg=m["beg"], end=m["end"], type=PYTYPE.get(m["rule"], "?"), val=list(m["val"]))
                          for m in ms])
    if with_plain:
        out["plain_same"] = [True] * len(ms)
    return out
