"""Driver for RREL (C11): renders abstract cases of spec/Rrel.tla into real textX input,
runs the real resolver in three ways, projects what comes back onto object ids.

Abstract model  : list of objects, id = index + 1, id 1 is the model root
                  {cls, name, named, parent, attrs: {a: {has, els}}}
Abstract RREL   : {"paths": [{"els": [elem, ...]}, ...]} with elem one of
                  {k: nav, attr, mode: consume|all|fixed, fixed}   {k: dots, n}   {k: up}
                  {k: parent, type}   {k: br, paths}   {k: star, e}
No semantics lives here: rendering, calling, reading attributes.
"""
from __future__ import annotations

ATTRS = ["packages", "classes", "extends", "type"]
CLASSES = ["Model", "Package", "Class"]
HAS = {"Model": ["packages", "classes"], "Package": ["packages", "classes"],
       "Class": ["classes", "extends", "type"]}

_PROBES = ("('probec' pc=[Class:QName%(pc)s])? ('probep' pp=[Package:QName%(pp)s])? "
           "('slashc' sc=[Class:SName%(sc)s])? ('slashp' sp=[Package:SName%(sp)s])?")
_GRAMMAR = r'''
Model:   PROBES
         packages*=Package classes*=Class;
Package: 'package' name=ID uid=UID
         PROBES
         '{' packages*=Package classes*=Class '}';
Class:   'class' name=ID uid=UID ('extends' extends+=[Class:UID][','])? ('type' type=[Class:UID])?
         PROBES
         ('{' classes*=Class '}')?;
UID:     /#\d+/;
QName:   ID('.'ID)*;
SName[split='/']: ID('/'ID)*;
'''.replace("PROBES", _PROBES)
# the probing reference attribute for (target class, name delimiter) and its keyword
PROBE = {("Class", "."): ("pc", "probec"), ("Package", "."): ("pp", "probep"),
         ("Class", "/"): ("sc", "slashc"), ("Package", "/"): ("sp", "slashp")}


# ---------------------------------------------------------------- abstract model helpers
def new_obj(cls, name, parent):
    return dict(cls=cls, name=name or "-", named=bool(name), parent=parent,
                attrs={a: dict(has=a in HAS[cls], els=[]) for a in ATTRS})


def check_model(objs):
    """Well-formedness of an abstract model (generator self-check)."""
    assert objs[0]["cls"] == "Model" and objs[0]["parent"] == 0
    seen = set()
    for i, o in enumerate(objs, 1):
        for a in ("packages", "classes"):
            for x in o["attrs"][a]["els"]:
                assert o["attrs"][a]["has"] and objs[x - 1]["parent"] == i and x not in seen
                assert objs[x - 1]["cls"] == ("Package" if a == "packages" else "Class")
                seen.add(x)
        for a in ("extends", "type"):
            for x in o["attrs"][a]["els"]:
                assert o["attrs"][a]["has"] and objs[x - 1]["cls"] == "Class"
        assert len(o["attrs"]["type"]["els"]) <= 1
    assert seen == set(range(2, len(objs) + 1))


# ---------------------------------------------------------------- rendering
def expr_text(expr, flags=""):
    return (("+" + flags + ":") if flags else "") + ",".join(_path_text(p) for p in expr["paths"])


def _path_text(p):
    els = p["els"]
    if els[0]["k"] in ("dots", "up"):
        return _elem_text(els[0]) + ".".join(_elem_text(e) for e in els[1:])
    return ".".join(_elem_text(e) for e in els)


def _elem_text(e):
    k = e["k"]
    if k == "nav":
        if e["mode"] == "consume":
            return e["attr"]
        if e["mode"] == "all":
            return "~" + e["attr"]
        return "'" + e["fixed"] + "'~" + e["attr"]
    if k == "dots":
        return "." * e["n"]
    if k == "up":
        return "^"
    if k == "parent":
        return "parent(" + e["type"] + ")"
    if k == "br":
        return "(" + ",".join(_path_text(p) for p in e["paths"]) + ")"
    if k == "star":
        return _elem_text(e["e"]) + "*"
    raise ValueError(k)


def norm_expr(expr):
    """Normal form shared with project_tree: e* wraps a non-bracket body, ^ is (..)*."""
    def el(e):
        k = e["k"]
        if k == "up":
            return dict(k="star", e=dict(k="br", paths=[dict(els=[dict(k="dots", n=2)])]))
        if k == "star":
            b = el(e["e"])
            if b["k"] != "br":
                b = dict(k="br", paths=[dict(els=[b])])
            return dict(k="star", e=b)
        if k == "br":
            return dict(k="br", paths=[pa(p) for p in e["paths"]])
        if k == "nav":
            return dict(k="nav", attr=e["attr"], mode=e["mode"], fixed=e["fixed"] if e["mode"] == "fixed" else "-")
        return dict(e)

    def pa(p):
        return dict(els=[el(e) for e in p["els"]])
    return dict(paths=[pa(p) for p in expr["paths"]])


def project_tree(tree):
    """textx.scoping.rrel AST -> abstract RREL in normal form (renderer cross-check)."""
    from textx.scoping import rrel as R

    def el(n):
        if isinstance(n, R.RRELNavigation):
            mode = "fixed" if n.fixed_name is not None else ("consume" if n.consume_name else "all")
            return dict(k="nav", attr=n.name, mode=mode, fixed=n.fixed_name if mode == "fixed" else "-")
        if isinstance(n, R.RRELDots):
            return dict(k="dots", n=n.num)
        if isinstance(n, R.RRELParent):
            return dict(k="parent", type=n.type)
        if isinstance(n, R.RRELBrackets):
            return dict(k="br", paths=[pa(p) for p in n.seq.paths])
        if isinstance(n, R.RRELZeroOrMore):
            return dict(k="star", e=el(n.path_element))
        raise ValueError(type(n))

    def pa(p):
        return dict(els=[el(e) for e in p.path_elements])
    return dict(paths=[pa(p) for p in tree.seq.paths]), tree.flags


def model_text(objs, probe=None):
    """probe = (start id, keyword, name text) adds one RREL-resolved reference."""
    out = []

    def pr(i):
        if probe and probe[0] == i:
            return " %s %s" % (probe[1], probe[2])
        return ""

    def emit(i, ind):
        o = objs[i - 1]
        a = o["attrs"]
        pad = "  " * ind
        if o["cls"] == "Model":
            if pr(i):
                out.append(pr(i).strip())
            for x in a["packages"]["els"]:
                emit(x, ind)
            for x in a["classes"]["els"]:
                emit(x, ind)
        elif o["cls"] == "Package":
            out.append(f"{pad}package {o['name']} #{i}{pr(i)} {{")
            for x in a["packages"]["els"]:
                emit(x, ind + 1)
            for x in a["classes"]["els"]:
                emit(x, ind + 1)
            out.append(pad + "}")
        else:
            s = f"{pad}class {o['name']} #{i}"
            if a["extends"]["els"]:
                s += " extends " + ", ".join("#%d" % x for x in a["extends"]["els"])
            if a["type"]["els"]:
                s += " type #%d" % a["type"]["els"][0]
            s += pr(i)
            if a["classes"]["els"]:
                out.append(s + " {")
                for x in a["classes"]["els"]:
                    emit(x, ind + 1)
                out.append(pad + "}")
            else:
                out.append(s)
    emit(1, 0)
    return "\n".join(out) + "\n"


# ---------------------------------------------------------------- the real code
def _by_uid(obj, attr, obj_ref):
    from textx import get_children, get_model
    r = get_children(lambda x: getattr(x, "uid", None) == obj_ref.obj_name, get_model(obj))
    return r[0] if r else None


def oid(x):
    """object -> abstract id (the root has no uid)."""
    u = getattr(x, "uid", None)
    return int(u[1:]) if isinstance(u, str) else 1


class Real:
    """Caches metamodels (one per way and RREL text) and loaded models."""

    def __init__(self):
        from textx import metamodel_from_str
        self._mfs = metamodel_from_str
        self.base = self._mm("", None)
        self._prov = None
        self._prov_key = None
        self._mms = {}
        self._models = {}
        self._trees = {}

    def _mm(self, rrel_in_grammar, attr):
        r = ("|" + rrel_in_grammar) if rrel_in_grammar else ""
        mm = self._mfs(_GRAMMAR % {a: (r if a == attr else "") for a in ("pc", "pp", "sc", "sp")})
        mm.register_scope_providers({"Class.extends": _by_uid, "Class.type": _by_uid})
        return mm

    def mm(self, way, text, attr):
        """way 'grammar': a metamodel whose grammar carries the RREL on the probing attribute;
        way 'provider': the RREL-free metamodel with the RREL string registered under "*.*", so that
        one provider object serves all four probing attributes (two match rules with different
        `split`) for as long as the same expression is probed."""
        if way == "provider":
            if self._prov is None:
                self._prov = self._mm("", None)
            if self._prov_key != text:
                self._prov.register_scope_providers({"Class.extends": _by_uid, "Class.type": _by_uid,
                                                     "*.*": text})
                self._prov_key = text
            return self._prov
        k = (text, attr)
        if k not in self._mms:
            if len(self._mms) > 400:
                self._mms.clear()
            self._mms[k] = self._mm(text, attr)
        return self._mms[k]

    def parse_check(self, expr, flags):
        """Renderer cross-check: the text parses back to the same AST (normal form) and flags."""
        text = expr_text(expr, flags)
        got, gflags = project_tree(self.tree(text))
        return got == norm_expr(expr) and gflags == flags, text

    def tree(self, text):
        """RREL trees are stateless: parsed once per text."""
        from textx.scoping.rrel import parse
        if text not in self._trees:
            if len(self._trees) > 5000:
                self._trees.clear()
            self._trees[text] = parse(text)
        return self._trees[text]

    def base_model(self, key, objs):
        if key not in self._models:
            if len(self._models) > 300:
                self._models.clear()
            m = self.base.model_from_str(model_text(objs))
            by = {1: m}
            from textx import get_children
            for x in get_children(lambda x: hasattr(x, "uid"), m):
                by[oid(x)] = x
            self._models[key] = (m, by)
        return self._models[key]

    @staticmethod
    def _project(r):
        from textx.scoping import Postponed
        from textx.scoping.rrel import ReferenceProxy
        if r is None:
            return dict(res=0, path=[], proxy=False)
        if isinstance(r, Postponed):
            return dict(res=-1, path=[], proxy=False, err="Postponed")
        if type(r) is ReferenceProxy:
            return dict(res=oid(r._tx_obj), path=[oid(x) for x in r._tx_path], proxy=True)
        return dict(res=oid(r), path=[], proxy=False)

    def find(self, key, objs, start, names, cls, expr, flags, delim="."):
        """way 1: textx.scoping.rrel.find on a loaded model."""
        from textx.scoping.rrel import find
        m, by = self.base_model(key, objs)
        try:
            r = find(by[start], delim.join(names), self.tree(expr_text(expr, flags)),
                     obj_cls=None if cls == "OBJECT" else self.base[cls], split_string=delim,
                     use_proxy="p" in flags)
        except Exception as e:  # noqa
            return dict(res=-1, path=[], proxy=False, err=type(e).__name__ + ": " + str(e)[:200])
        return self._project(r)

    def load(self, way, objs, start, names, cls, expr, flags, delim="."):
        """way 2 ('grammar'): RREL written in the grammar; way 3 ('provider'): RREL string registered.
        delim: the reference is written with the match rule QName ('.') or SName[split='/']."""
        from textx.exceptions import TextXSemanticError
        attr, kw = PROBE[(cls, delim)]
        mm = self.mm(way, expr_text(expr, flags), attr)
        text = model_text(objs, (start, kw, delim.join(names)))
        try:
            m = mm.model_from_str(text)
        except TextXSemanticError as e:
            if 'Unknown object "' in str(e):
                return dict(res=0, path=[], proxy=False)
            return dict(res=-1, path=[], proxy=False, err="TextXSemanticError: " + str(e)[:200])
        except Exception as e:  # noqa
            return dict(res=-1, path=[], proxy=False, err=type(e).__name__ + ": " + str(e)[:200])
        if start == 1:
            holder = m
        else:
            from textx import get_children
            holder = get_children(lambda x: getattr(x, "uid", None) == "#%d" % start, m)[0]
        return self._project(getattr(holder, attr))
