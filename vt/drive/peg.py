"""Driver for Peg.tla cases: build the real metamodel from the rendered grammar, parse the
input, project the model (or the error) onto the form Peg!Outcome produces."""
from __future__ import annotations

from ..gen import peg as G


def mm_kwargs(cfg):
    kw = dict(skipws=cfg["skipws"], ignore_case=cfg["icase"], autokwd=cfg["autokwd"],
              memoization=cfg["memo"], use_regexp_group=cfg["regroup"], auto_init_attributes=cfg["autoinit"])
    if cfg.get("wsnone"):
        kw["ws"] = ""                      # an explicitly empty whitespace set (comments are still skipped)
    elif cfg["ws"]:
        kw["ws"] = G.text(cfg["ws"])
    return kw


def default_cfg(**over):
    c = dict(skipws=True, ws=[], icase=False, autokwd=False, memo=False, regroup=False, autoinit=True)
    c.update(over)
    return c


def project_value(v, seen=None):
    if v is None:
        return {"t": "none"}
    if isinstance(v, bool):
        return {"t": "bool", "v": v}
    if isinstance(v, int):
        return {"t": "int", "v": v}
    if isinstance(v, float):
        return {"t": "float", "v": repr(v)}
    if isinstance(v, str):
        return {"t": "str", "v": G.codes(v)}
    if isinstance(v, list):
        return {"t": "list", "v": [project_value(x) for x in v]}
    cls = type(v)
    if hasattr(cls, "_tx_attrs"):
        attrs = []
        for name in cls._tx_attrs:
            attrs.append([name, project_value(getattr(v, name))])
        o = {"t": "obj", "cls": cls.__name__, "attrs": attrs, "s": v._tx_position, "e": v._tx_position_end}
        try:
            from textx import get_location
            loc = get_location(v)
            o["ln"], o["co"] = loc["line"], loc["col"]
            if loc["nchar"] != v._tx_position_end - v._tx_position:
                o["nchar_mismatch"] = loc["nchar"]
        except Exception as e:  # observable
            o["ln"], o["co"] = -1, type(e).__name__
        return o
    return {"t": "py", "v": repr(v)}


def offset(text, line, col):
    """0-based offset of (line, col) as Arpeggio reports them (1-based line and col)."""
    lines = text.split("\n")
    return sum(len(l) + 1 for l in lines[: line - 1]) + (col - 1)


def make_user_class(name, class_attrs=()):
    """A plain user class; `class_attrs` are given class-level defaults (a common Python idiom that must not
    change what the loaded objects hold)."""
    def __init__(self, **kwargs):
        for k, v in kwargs.items():
            setattr(self, k, v)
    d = {"__init__": __init__}
    for i, a in enumerate(class_attrs):
        d[a] = [] if i % 2 == 0 else None
    return type(name, (object,), d)


class Built:
    """A metamodel built from an abstract grammar + cfg (kept for many inputs)."""

    def __init__(self, g, cfg, grammar_text=None):
        from textx import metamodel_from_str
        self.g, self.cfg = g, cfg
        self.text = grammar_text or G.render_grammar(g)
        kw = mm_kwargs(cfg)
        if cfg.get("userclasses"):
            # plain user-supplied classes for every rule with assignments (same semantics prescribed)
            ca = cfg["userclasses"] == "classattrs"
            kw["classes"] = [make_user_class(r["name"], sorted({e["attr"] for e in G.walk_all(r["body"])
                                                                if e["k"] == "asg"}) if ca else ())
                             for r in g["rules"] if any(e["k"] == "asg" for e in G.walk_all(r["body"]))]
        if cfg.get("split3"):
            # the same grammar written as a chain of three grammar files (main imports mid imports leaf): what is
            # parsed and built does not depend on how the rules are distributed over files
            self.mm = self._from_files(g, kw)
        else:
            self.mm = metamodel_from_str(self.text, **kw)

    @staticmethod
    def split3(g):
        """(main, mid, leaf) rule lists, or None when the grammar cannot be written as such a chain: a rule may
        refer to rules of its own file and of the directly imported file only."""
        rules = g["rules"]
        if len(rules) < 3 or any(r["name"] in ("Comment", "LineC") for r in rules):
            return None
        parts = ([rules[0]], [rules[1]], rules[2:])
        where = {r["name"]: i for i, part in enumerate(parts) for r in part}
        for i, part in enumerate(parts):
            for r in part:
                for e in G.walk_all(r["body"]):
                    if e["k"] == "ref" and e["name"] in where and where[e["name"]] not in (i, i + 1):
                        return None
        return parts

    def _from_files(self, g, kw):
        import os, shutil, tempfile
        from textx import metamodel_from_file
        parts = self.split3(g)
        assert parts is not None
        d = tempfile.mkdtemp(prefix="vt-split3-")
        try:
            names = ["main", "mid", "leaf"]
            for i, part in enumerate(parts):
                text = ("import %s\n" % names[i + 1] if i < 2 else "") + G.render_grammar(dict(rules=part))
                with open(os.path.join(d, names[i] + ".tx"), "w") as f:
                    f.write(text)
            return metamodel_from_file(os.path.join(d, "main.tx"), **kw)
        finally:
            shutil.rmtree(d, ignore_errors=True)

    def run(self, inp):
        from textx.exceptions import TextXSemanticError, TextXSyntaxError
        try:
            m = self.mm.model_from_str(inp)
        except TextXSyntaxError as e:
            return {"accept": False, "far": offset(inp, e.line, e.col), "model": {"t": "none"}}
        except TextXSemanticError as e:
            return {"accept": True, "far": 0, "model": {"t": "err", "v": getattr(e, "err_type", None) or str(e)}}
        return {"accept": True, "far": 0, "model": project_value(m)}


def strip_far(o):
    o = dict(o)
    o.pop("far", None)
    return o
