"""Driver for Peg.tla cases: build the real metamodel from the rendered grammar, parse the
input, project the model (or the error) onto the form Peg!Outcome produces."""
from __future__ import annotations

from ..gen import peg as G


def mm_kwargs(cfg):
    kw = dict(skipws=cfg["skipws"], ignore_case=cfg["icase"], autokwd=cfg["autokwd"],
              memoization=cfg["memo"], use_regexp_group=cfg["regroup"], auto_init_attributes=cfg["autoinit"])
    if cfg.get("wsnone"):
        kw["ws"] = ""                      # an explicitly empty whitespace set (comments are still skipped)
    elif cfg["ws"]:
        kw["ws"] = G.text(cfg["ws"])
    return kw


def default_cfg(**over):
    c = dict(skipws=True, ws=[], icase=False, autokwd=False, memo=False, regroup=False, autoinit=True)
    c.update(over)
    return c


def project_value(v, seen=None):
    if v is None:
        return {"t": "none"}
    if isinstance(v, bool):
        return {"t": "bool", "v": v}
    if isinstance(v, int):
        return {"t": "int", "v": v}
    if isinstance(v, float):
        return {"t": "float", "v": repr(v)}
    if isinstance(v, str):
        return {"t": "str", "v": G.codes(v)}
    if isinstance(v, list):
        return {"t": "list", "v": [project_value(x) for x in v]}
    cls = type(v)
    if hasattr(cls, "_tx_attrs"):
        attrs = []
        for name in cls._tx_attrs:
            attrs.append([name, project_value(getattr(v, name))])
        o = {"t": "obj", "cls": cls.__name__, "attrs": attrs, "s": v._tx_position, "e": v._tx_position_end}
        try:
            from textx import get_location
            loc = get_location(v)
            o["ln"], o["co"] = loc["line"], loc["col"]
            if loc["nchar"] != v._tx_position_end - v._tx_position:
                o["nchar_mismatch"] = loc["nchar"]
        except Exception as e:  # observable
            o["ln"], o["co"] = -1, type(e).__name__
        return o
    return {"t": "py", "v": repr(v)}


def offset(text, line, col):
    """0-based offset of (line, col) as Arpeggio reports them (1-based line and col)."""
    lines = text.split("\n")
    return sum(len(l) + 1 for l in lines[: line - 1]) + (col - 1)


def make_user_class(name, class_attrs=()):
    """A plain user class; `class_attrs` are given class-level defaults (a common Python idiom that must not
    change what the loaded objects hold)."""
    def __init__(self, **kwargs):
        for k, v in kwargs.items():
            setattr(self, k, v)
    d = {"__init__": __init__}
    for i, a in enumerate(class_attrs):
        d[a] = [] if i % 2 == 0 else None
    return type(name, (object,), d)


class Built:
    """A metamodel built from an abstract grammar + cfg (kept for many inputs)."""

    def __init__(self, g, cfg, grammar_text=None):
        from textx import metamodel_from_str
        self.g, self.cfg = g, cfg
        self.text = grammar_text or G.render_grammar(g)
        kw = mm_kwargs(cfg)
        if cfg.get("userclasses"):
            # plain user-supplied classes for every rule with assignments (same semantics prescribed)
            ca = cfg["userclasses"] == "classattrs"
            kw["classes"] = [make_user_class(r["name"], sorted({e["attr"] for e in G.walk_all(r["body"])
                                                                if e["k"] == "asg"}) if ca else ())
                             for r in g["rules"] if any(e["k"] == "asg" for e in G.walk_all(r["body"]))]
        self.mm = metamodel_from_str(self.text, **kw)

    def run(self, inp):
        from textx.exceptions import TextXSemanticError, TextXSyntaxError
        try:
            m = self.mm.model_from_str(inp)
        except TextXSyntaxError as e:
            return {"accept": False, "far": offset(inp, e.line, e.col), "model": {"t": "none"}}
        except TextXSemanticError as e:
            return {"accept": True, "far": 0, "model": {"t": "err", "v": getattr(e, "err_type", None) or str(e)}}
        return {"accept": True, "far": 0, "model": project_value(m)}


def strip_far(o):
    o = dict(o)
    o.pop("far", None)
    return o
