"""Driver for the `textx` command (spec/Cli.tla, property C30).

render : an abstract case (tokens as code-point lists, file table, generator
         declaration, mode) -> files on disk, registrations, an argv
run    : click.testing.CliRunner.invoke, in-process
project: exit code, what the recording generator received, the class and the
         location of the ERROR message  ->  the observation record of Cli.tla

No semantics of the command lives here: which outcome is right is decided by
TLC evaluating Cli.tla on (case, observation).
"""
from __future__ import annotations

import logging
import os
import re
import shutil

from .. import common, tlc

# every carrier language has the same body and its own first keyword (its name), so a file of one
# language is a syntax error at 1:1 for every other language
GRAMMAR = """Model: '%s' items*=Item;
Item: Def | Use;
Def: 'def' name=ID;
Use: 'use' ref=[Def];
"""


def text(cs):
    return "".join(chr(x) for x in cs)


def codes(s):
    return [ord(ch) for ch in s]


def render_model(keyword, status, line, col):
    """Model text of the language with first keyword `keyword` (line 1) whose first error (if any)
    is at (line, col), 1-based, line >= 2.

    syntax:   a character no rule accepts, at (line, col)
    semantic: a reference to an undefined name; the *name* stands at (line, col), col >= 5
    """
    head = [keyword] + ["def d%d" % i for i in range(2, max(line, 2))]
    if status == "ok":
        return keyword + "\ndef a\ndef b\nuse a\nuse b\n"
    if line < 2:
        raise tlc.MachineryError("line 1 holds the language keyword")
    if status == "syntax":
        return "\n".join(head + [" " * (col - 1) + "?"]) + "\n"
    if status == "semantic":
        if col < 5:
            raise tlc.MachineryError("semantic error column must be >= 5")
        return "\n".join(head + [" " * (col - 5) + "use zz"]) + "\ndef tail\n"
    raise tlc.MachineryError(f"unknown file status {status}")


class _Capture(logging.Handler):
    def __init__(self):
        super().__init__(level=logging.DEBUG)
        self.records = []

    def emit(self, record):
        try:
            self.records.append((record.levelname, record.getMessage()))
        except Exception as e:      # a message that cannot be formatted is still an observation
            self.records.append((record.levelname, f"<unformattable {e!r}>"))


def _kwlist(kw):
    return [dict(key=codes(k), ty="bool" if v is True else ("str" if isinstance(v, str) else type(v).__name__),
                 val=codes(v) if isinstance(v, str) else [])
            for k, v in sorted(kw.items())]


_LOC = re.compile(r"^ERROR: (.*?):(\d+):(\d+): ")


class RealCli:
    """Registers the case's carrier languages and recording generators, runs cases, cleans up."""

    def __init__(self):
        common.ensure_repo_on_path()
        from click.testing import CliRunner
        import textx.registration as reg
        from textx.cli import textx as group
        self.reg = reg
        self.group = group
        if "generate" not in group.commands:
            from textx.cli.generate import generate
            generate(group)
        if "check" not in group.commands:
            from textx.cli.check import check
            check(group)
        self.runner = CliRunner()
        self.cwd = os.getcwd()
        self.dir = tlc.scratch("vt-c30-")
        os.chdir(self.dir)
        reg.clear_language_registrations()
        reg.clear_generator_registrations()
        self.langset = None       # key of the registered languages
        self.mms = {}             # (name, mparams) -> meta-model
        self.targets = {}
        self.written = {}
        self.calls = []
        self.cap = _Capture()
        root = logging.getLogger()
        self._root_handlers, self._root_level = root.handlers[:], root.level
        root.handlers = [self.cap]
        root.setLevel(logging.INFO)

    # ------------------------------------------------------------------ render
    def _recorder(self, gen_name):
        def record(metamodel, model, output_path, overwrite, debug, **kw):
            fn = getattr(model, "_tx_filename", None) if model is not None else None
            mp = dict(getattr(model, "_tx_model_params", None) or {}) if model is not None else {}
            self.calls.append(dict(file=codes(os.path.basename(fn)) if fn else [], gen=codes(gen_name),
                                   ow=bool(overwrite), kw=_kwlist(kw), mp=_kwlist(mp)))
        return record

    def ensure_languages(self, langs):
        """Register exactly the case's languages (name, pattern *suffix, model parameters)."""
        key = common.canon([[l["name"], l["suffix"], l["mparams"]] for l in langs])
        if key == self.langset:
            return
        from textx import metamodel_from_str
        reg = self.reg
        reg.clear_language_registrations()
        reg.clear_generator_registrations()
        self.targets = {}
        for l in langs:
            name, mparams = text(l["name"]), tuple(text(x) for x in l["mparams"])
            if (name, mparams) not in self.mms:
                mm = metamodel_from_str(GRAMMAR % name)
                for p in mparams:
                    mm.model_param_defs.add(p, "model parameter defined by the C30 check")
                self.mms[(name, mparams)] = mm
                with open(name + ".tx", "w") as f:
                    f.write(GRAMMAR % name)
            mm = self.mms[(name, mparams)]
            reg.register_language(reg.LanguageDesc(name, pattern="*" + text(l["suffix"]),
                                                   description="carrier language of the C30 check",
                                                   metamodel=(lambda m: (lambda **kw: m))(mm)))
        self.langset = key

    def target_for(self, case):
        """One target per combination of declarations; a generator per language and one for "any"."""
        decls = [(text(l["name"]), l["decl"]) for l in case["langs"]] + [("any", case["anydecl"])]
        key = common.canon(decls)
        if key not in self.targets:
            reg = self.reg
            tgt = "vtrec%d" % len(self.targets)
            for lang, decl in decls:
                params = None
                if decl["declared"]:
                    params = [reg.GeneratorParam(text(p["name"]), "declared by the C30 check", bool(p["mandatory"]))
                              for p in decl["params"]]
                reg.register_generator(reg.GeneratorDesc(lang, tgt, "recording generator of the C30 check",
                                                         generator=self._recorder(lang), custom_args=params))
            self.targets[key] = tgt
        return self.targets[key]

    def ensure_files(self, case):
        for f in case["files"]:
            name = text(f["name"])
            if os.path.basename(name) != name or not name:
                raise tlc.MachineryError(f"file name {name!r} is not a plain name")
            sig = (text(case["langs"][f["lang"] - 1]["name"]), f["status"], f["line"], f["col"])
            if self.written.get(name) != sig:
                with open(name, "w") as fh:
                    fh.write(render_model(*sig))
                self.written[name] = sig

    def argv(self, case):
        sel = text(case["langs"][case["sel"] - 1]["name"])
        head = {"language": ["--language", sel], "grammar": ["--grammar", sel + ".tx"], "ext": []}[case["mode"]]
        tail = [text(t) for t in case["argv"]]
        if case["cmd"] == "check":
            return ["check"] + head + tail
        return ["generate", "--target", self.target_for(case)] + head + tail

    # ------------------------------------------------------------------ run + project
    def run(self, case):
        self.ensure_languages(case["langs"])
        self.ensure_files(case)
        argv = self.argv(case)
        self.calls = []
        self.cap.records = []
        res = self.runner.invoke(self.group, argv)
        errors = [m for lv, m in self.cap.records if lv in ("ERROR", "CRITICAL")]
        locs, why = [], "none"
        for m in errors:
            mt = _LOC.match(m)
            if mt:
                locs.append(dict(file=codes(os.path.basename(mt.group(1))), line=int(mt.group(2)),
                                 col=int(mt.group(3))))
        if errors:
            m = errors[0]
            if _LOC.match(m):
                why = "load"
            elif "must be provided" in m:
                why = "missing"
            elif "is not defined for this generator" in m:
                why = "undeclared"
            else:
                why = "other"
        oks = [codes(os.path.basename(m[:-len(": OK.")])) for lv, m in self.cap.records
               if lv == "INFO" and m.endswith(": OK.")]
        exc = res.exception
        return dict(exit=int(res.exit_code), calls=self.calls, why=why, locs=locs, oks=oks,
                    exc="" if exc is None or isinstance(exc, SystemExit) else type(exc).__name__,
                    msg=(errors[0][:160] if errors else ""), argv=argv[1:])

    def close(self):
        root = logging.getLogger()
        root.handlers = self._root_handlers
        root.setLevel(self._root_level)
        try:
            self.reg.clear_language_registrations()
            self.reg.clear_generator_registrations()
        finally:
            self.reg.languages = None
            self.reg.generators = None
            self.reg.metamodels = {}
            os.chdir(self.cwd)
            shutil.rmtree(self.dir, ignore_errors=True)


def _langkey(c):
    return common.canon([[l["name"], l["suffix"], l["mparams"]] for l in c["langs"]])


def _work(cases):
    real = RealCli()
    try:
        # cases with the same registered languages run together (re-registration is the costly part)
        order = sorted(range(len(cases)), key=lambda i: _langkey(cases[i]))
        out = [None] * len(cases)
        for i in order:
            out[i] = real.run(cases[i])
        return out
    finally:
        real.close()


def run_cases(cases, procs=None):
    """Observation for every case, in order.  Larger batches are spread over forked workers
    (each with its own registrations, scratch directory and working directory)."""
    if len(cases) < 1500 or (procs or tlc.NCPU) <= 1:
        return _work(cases)
    import multiprocessing as mp
    n = min(procs or tlc.NCPU, 16, max(1, len(cases) // 500))
    chunks = [cases[i::n] for i in range(n)]
    with mp.get_context("fork").Pool(n) as pool:
        outs = pool.map(_work, chunks)
    res = [None] * len(cases)
    for k, out in enumerate(outs):
        res[k::n] = out
    return res
