"""Verdicts, known findings, evidence and replay files (DESIGN.md section 5)."""
from __future__ import annotations

import hashlib
import json
import os
import sys
import time

from . import tlc

VERIF = tlc.VERIF
EVIDENCE = os.environ.get("VT_EVIDENCE_DIR") or os.path.join(VERIF, "evidence")   # overridden only by tools/mutcheck
REPLAYS = os.environ.get("VT_REPLAY_DIR") or os.path.join(VERIF, "replays")
FINDINGS = os.path.join(VERIF, "known_findings.json")
REPO = os.environ.get("VT_REPO", "/repo")


def load_findings():
    """known_findings.json plus per-property lists under findings.d/ (same entry format)."""
    out = {"open": [], "fixed": []}
    if os.path.exists(FINDINGS):
        with open(FINDINGS) as f:
            out = json.load(f)
    d = os.path.join(VERIF, "findings.d")
    if os.path.isdir(d):
        seen = {e["id"] for e in out["open"]}
        for name in sorted(os.listdir(d)):
            if name.endswith(".json"):
                with open(os.path.join(d, name)) as f:
                    for e in json.load(f):
                        if e["id"] not in seen:
                            out["open"].append(e)
                            seen.add(e["id"])
    return out


def open_findings(pid):
    return [f for f in load_findings().get("open", []) if f["property"] == pid]


def open_deviations(pid):
    """Deviation clause names that may be tried for this property (only listed ones)."""
    return sorted({f["deviation"] for f in open_findings(pid)})


def canon(x):
    return json.dumps(x, sort_keys=True, separators=(",", ":"), default=str)


def digest(x):
    return hashlib.sha1(canon(x).encode()).hexdigest()[:12]


class Report:
    """Collects what a run covered, prints the contract lines, writes evidence."""

    def __init__(self, pid, tier, seed, level="model_checking"):
        self.pid, self.tier, self.seed, self.level = pid, tier, seed, level
        self.t0 = time.time()
        self.states = 0
        self.transitions = 0
        self.mc_runs = []          # [{module,cfg,distinct,generated,wall_s,cmd,invariants}]
        self.evaluations = 0       # cases compared with the real code
        self.traces = 0            # traces_validated_against_impl
        self.nontrivial = set()    # digests of distinct non-trivial cases
        self.samples = []
        self.violations = []
        self.known = {}            # finding id -> count
        self.notes = []
        self.assumptions = []
        self.rule = ""
        self.exhaustive = None
        self.bounds = {}
        self.extra = {}
        self._findings = {f["id"]: f for f in open_findings(pid)}
        # replay files of earlier runs of this property are stale
        d = os.path.join(REPLAYS, pid)
        if os.path.isdir(d):
            for n in os.listdir(d):
                if n.endswith(".json"):
                    try:
                        os.remove(os.path.join(d, n))
                    except OSError:
                        pass

    # ---- model checking part
    def add_mc(self, name, res, invariants=()):
        self.states += res.distinct
        self.transitions += res.generated
        self.mc_runs.append(dict(name=name, distinct=res.distinct, generated=res.generated,
                                 depth=res.depth, wall_s=round(res.wall_s, 2), cmd=res.cmd,
                                 invariants=list(invariants),
                                 coverage={k: v for k, v in list(res.coverage.items())[:40]}))

    def add_oracle(self, name, st):
        self.states += st["distinct"]
        self.transitions += st["generated"]
        self.mc_runs.append(dict(name=name, distinct=st["distinct"], generated=st["generated"],
                                 wall_s=round(st["wall_s"], 2), cmd=st["cmd"], runs=st["runs"],
                                 invariants=["(oracle evaluation: Expected(case, Dev))"]))

    # ---- conformance part
    def passed(self, case=None, nontrivial=False, n=1, trace=True):
        self.evaluations += n
        if trace:
            self.traces += n
        if nontrivial and case is not None:
            self.nontrivial.add(digest(case))
        if case is not None and len(self.samples) < 4 and (nontrivial or not self.samples):
            self.samples.append(case)

    def known_finding(self, fid, case=None, what=None):
        """A case explained by a listed open finding."""
        self.evaluations += 1
        self.traces += 1
        if fid not in self.known:
            f = self._findings.get(fid, {})
            print(f"KNOWN-FINDING: property={self.pid} {fid} {what or f.get('what', '')}".rstrip(), flush=True)
            self.known[fid] = 0
        self.known[fid] += 1

    def violation(self, case, why, name=None):
        self.evaluations += 1
        self.traces += 1
        d = os.path.join(REPLAYS, self.pid)
        os.makedirs(d, exist_ok=True)
        name = name or digest(case)
        path = os.path.join(d, f"{name}.json")
        with open(path, "w") as f:
            json.dump(dict(property=self.pid, why=why, case=case), f, indent=1, sort_keys=True, default=str)
        if len(self.violations) < 8:
            print(f"VIOLATION property={self.pid} replay={path}", flush=True)
            print(f"  why: {str(why)[:400]}", flush=True)
        self.violations.append(dict(replay=path, why=str(why)[:300]))

    def note(self, s):
        self.notes.append(s)

    def finish(self):
        cov = dict(
            states=max(self.states, 0), transitions=max(self.transitions, 0),
            traces_validated_against_impl=self.traces,
            evaluations=self.evaluations,
            distinct_nontrivial=len(self.nontrivial),
            rule=self.rule,
            samples=self.samples[:4] if self.samples else [],
            tlc_runs=self.mc_runs,
            known_findings_reproduced=self.known,
            bounds=self.bounds,
            notes=self.notes,
        )
        if self.exhaustive is not None:
            cov["exhaustive"] = bool(self.exhaustive)
        cov.update(self.extra)
        ev = dict(property_id=self.pid, tier=self.tier, seed=self.seed, level=self.level, coverage=cov,
                  assumptions=self.assumptions, wall_s=round(time.time() - self.t0, 2),
                  violations=len(self.violations))
        os.makedirs(EVIDENCE, exist_ok=True)
        with open(os.path.join(EVIDENCE, f"{self.pid}.json"), "w") as f:
            json.dump(ev, f, indent=1, default=str)
        print(f"[{self.pid}] tier={self.tier} seed={self.seed} tlc_states={self.states} "
              f"compared={self.evaluations} nontrivial={len(self.nontrivial)} "
              f"known={sum(self.known.values())} violations={len(self.violations)} "
              f"wall={ev['wall_s']}s", flush=True)
        return 1 if self.violations else 0


def judge(report, case, observed, expected, dev_expected=None, nontrivial=False, why=None, norm=canon):
    """Total per-case verdict (section 5).

    expected      -- Expected(case, {})
    dev_expected  -- {finding_id: Expected(case, D)} for the *listed open* findings only
    """
    if norm(observed) == norm(expected):
        report.passed(case, nontrivial)
        return "pass"
    for fid, ex in (dev_expected or {}).items():
        if norm(observed) == norm(ex):
            report.known_finding(fid, case)
            return "known"
    report.violation(dict(case=case, observed=observed, expected=expected),
                     why or f"observed {canon(observed)[:300]} expected {canon(expected)[:300]}")
    return "violation"


def ensure_repo_on_path():
    if REPO not in sys.path:
        sys.path.insert(0, REPO)
