SPECIFICATION Spec
CONSTANTS
  MM <- EnvMM
  Dev <- NoDev
  MaxN <- EnvMaxN
  MaxNamed <- EnvMaxNamed
  MaxUnnamed <- EnvMaxUn
  MaxRefs <- EnvMaxRefs
  Names <- EnvNames
  Sorted <- EnvSorted
  FullN <- EnvFullN
  Builtins <- NoBuiltins
INVARIANT Emit
CHECK_DEADLOCK FALSE
