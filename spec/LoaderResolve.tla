---------------------------- MODULE LoaderResolve ----------------------------
(***************************************************************************)
(* The reference-resolution part of textX model loading (properties C08,   *)
(* C09, C32): textx/model.py, `parse_tree_to_objgraph` from                 *)
(*                                                                         *)
(*     resolved_count = 1; unresolved_count = 1                            *)
(*     while unresolved_count > 0 and resolved_count > 0: ...               *)
(*                                                                         *)
(* down to the "Unresolvable cross references" error, together with        *)
(* `ReferenceResolver.resolve_one_step` and the provider lookup in it.     *)
(*                                                                         *)
(* A scenario is chosen in Init and never changes:                         *)
(*   files   Seq of model files (file 1 is the main model, the others are  *)
(*           the imported models in the order they enter the repository);  *)
(*           a file is a Seq of statements in textual order, a statement   *)
(*           is one reference attribute of one object:                     *)
(*           [list |-> BOOLEAN, refs |-> Seq of reference ids, join]       *)
(*           `use r` (single attribute) or `refs r1, r2, ..` (list         *)
(*           attribute).  `join` says how the attribute sits in the object *)
(*           structure: "none" an object of its own; "attr" a further      *)
(*           attribute of the same object as the previous statement;       *)
(*           "parent" the same-named list of the object whose first child  *)
(*           (starting at the same input position) owns the previous       *)
(*           statement.  The documented semantics does not depend on it.   *)
(*           References are numbered 1..N in textual order, file after     *)
(*           file.                                                         *)
(*   tgt     [ref -> target]  reference r points at target tgt[r]; several *)
(*           references may point at the same target (targets are named    *)
(*           by the first reference pointing at them)                      *)
(*   sched   [ref -> Nat]  the provider answers Postponed on the first     *)
(*           sched[r] attempts for r                               (C08)   *)
(*   deps    [ref -> SUBSET refs]  afterwards it answers Postponed until   *)
(*           every reference of deps[r] is resolved                (C09)   *)
(*   never   refs whose provider answers Postponed for ever        (C09)   *)
(*   unknown refs whose provider answers None (unknown object)             *)
(*   builtin those of `unknown` whose name is in the metamodel's builtins: *)
(*           after the None answer they are linked to the builtin object   *)
(*   mode    how the provider learns that deps[r] are resolved:            *)
(*           "book" it keeps its own book of the references it resolved;   *)
(*           "api"  it asks textX (scoping.tools.resolve_model_path /      *)
(*           needs_to_be_resolved on the attribute holding the reference): *)
(*           an attribute is reported as waiting while one of its          *)
(*           references is in the parser's pending list, which is updated  *)
(*           when a resolution step of that model ENDS                     *)
(* The environment is the scope provider; everything else is the loader.   *)
(*                                                                         *)
(* `Order` = "textual": models in repository order, references in textual  *)
(* order (what model.py does).  `Order` = "any": any visiting order inside *)
(* a round; the invariants hold for every order, which is the "result does *)
(* not depend on the order taken" clause of C09.                           *)
(***************************************************************************)
EXTENDS Naturals, Sequences, FiniteSets, TLC, Json, LoaderProvider

CONSTANTS
  ScenarioSets,\* a sequence of sets of scenarios; Init chooses one scenario of one of the sets
               \* (a sequence of sets, not their union: TLC unions big sets of records quadratically)
  Order        \* "textual" | "any"
\* Dev (deviation clauses switched on; documented semantics: {}) is declared in LoaderProvider,
\* which also defines Provider(registeredKeys, cls, attr, hasGrammarRrel) -- the `provider = ...`
\* step of TryRef (C32)

VARIABLES
  sc,        \* the scenario (constant along a behaviour)
  pc,        \* "begin" | "model" | "refs" | "exit" | "idle"
  round,     \* number of rounds started
  todo,      \* models still to visit in this round
  cur,       \* model being visited (0: none)
  queue,     \* current_crossrefs of `cur` not yet visited in this step
  newp,      \* new_crossrefs of `cur` built in this step
  pending,   \* [model -> Seq(ref)]   parser._crossrefs
  delayed,   \* [model -> Seq(ref)]   resolver.delayed_crossrefs
  rcnt,      \* resolved_count of the round
  ucnt,      \* unresolved_count of the round
  attrs,     \* [model -> [statement -> Seq(ref)]]  attribute contents (targets)
  attempts,  \* [ref -> Nat]  provider calls so far
  resolved,  \* set of resolved references
  outcome,   \* [kind |-> "running"|"ok"|"unresolvable"|"unknown", names |-> Seq(ref)]
  op         \* last provider call [m, r, attempt, ans]

vars == <<sc, pc, round, todo, cur, queue, newp, pending, delayed, rcnt, ucnt,
          attrs, attempts, resolved, outcome, op>>

----------------------------------------------------------------------------
RECURSIVE Flat(_)
Flat(ss) == IF ss = <<>> THEN <<>> ELSE Head(ss) \o Flat(Tail(ss))
Remove(q, i) == SubSeq(q, 1, i - 1) \o SubSeq(q, i + 1, Len(q))

\* --- reading a scenario ---------------------------------------------------
NMOf(s)          == Len(s.files)
NOf(s)           == Len(s.sched)
StmtRefsOf(s, m) == [k \in 1..Len(s.files[m]) |-> s.files[m][k].refs]
FileRefsOf(s, m) == Flat(StmtRefsOf(s, m))

Models       == 1..NMOf(sc)
N            == NOf(sc)
AllRefs      == 1..N
Stmts(m)     == 1..Len(sc.files[m])
FileRefs(m)  == FileRefsOf(sc, m)
ModelOf(r)   == CHOOSE m \in Models : r \in Range(FileRefs(m))
StmtOf(r)    == LET m == ModelOf(r) IN CHOOSE k \in Stmts(m) : r \in Range(sc.files[m][k].refs)
IsList(r)    == sc.files[ModelOf(r)][StmtOf(r)].list

\* references are numbered in textual order, file after file; a single
\* attribute holds exactly one reference, a list attribute at least one
JoinOK(f) ==
  \A k \in 1..Len(f) :
     /\ f[k].join \in {"none", "attr", "parent"}
     /\ (f[k].join # "none" => k > 1)
     \* the parent's list follows the list of its first child; nothing joins the parent
     /\ (f[k].join = "parent" => /\ f[k].list /\ f[k - 1].list /\ f[k - 1].join = "none"
                                 /\ (k < Len(f) => f[k + 1].join = "none"))
     \* an object with several reference attributes: list [list] [single]
     /\ (f[k].join = "attr" =>
           /\ f[k - 1].list
           /\ \/ f[k - 1].join = "none"
              \/ (f[k - 1].join = "attr" /\ ~f[k].list /\ k > 2 /\ f[k - 2].join = "none"))

WellFormed(s) ==
  /\ NMOf(s) >= 1
  /\ Flat([m \in 1..NMOf(s) |-> FileRefsOf(s, m)]) = [i \in 1..NOf(s) |-> i]
  /\ \A m \in 1..NMOf(s) :
        /\ JoinOK(s.files[m])
        /\ \A k \in 1..Len(s.files[m]) :
             /\ Len(s.files[m][k].refs) >= 1
             /\ (~s.files[m][k].list => Len(s.files[m][k].refs) = 1)
  /\ Len(s.deps) = NOf(s) /\ Len(s.tgt) = NOf(s)
  /\ \A r \in 1..NOf(s) : s.deps[r] \subseteq 1..NOf(s)
  /\ \A r \in 1..NOf(s) : s.tgt[r] \in 1..r /\ s.tgt[s.tgt[r]] = s.tgt[r]
  /\ s.never \subseteq 1..NOf(s) /\ s.unknown \subseteq 1..NOf(s)
  /\ s.builtin \subseteq s.unknown /\ s.mode \in {"book", "api"}

----------------------------------------------------------------------------
\* The environment: what the scope provider answers for r in the current state
\* the attribute holding d still waits, as textX reports it (pending[m] is parser._crossrefs of m)
AttrWaiting(d) == \E x \in Range(pending[ModelOf(d)]) : StmtOf(x) = StmtOf(d)
DepsOpen(r) == IF sc.mode = "api" THEN \E d \in sc.deps[r] : AttrWaiting(d)
               \* its own book: the references it answered itself (not those linked to a builtin after None)
               ELSE ~(sc.deps[r] \subseteq resolved \ sc.builtin)

Answer(r) ==
  IF attempts[r] < sc.sched[r] THEN "postponed"
  ELSE IF r \in sc.unknown THEN "none"
  ELSE IF r \in sc.never \/ DepsOpen(r) THEN "postponed"
  ELSE "resolved"

\* list attribute after one more reference resolved
\*   documented (C08): the targets in the order of their references in the text
\*   AppendInResolutionOrder: what resolve_one_step does, attr_value.append(resolved)
InsertTextual(m, k, content, r) ==
  SelectSeq(sc.files[m][k].refs, LAMBDA x : x \in Range(content) \cup {r})
ListAfter(m, k, content, r) ==
  IF "AppendInResolutionOrder" \in Dev THEN Append(content, r)
  ELSE InsertTextual(m, k, content, r)

----------------------------------------------------------------------------
InitWith(s) ==
  /\ sc = s
  /\ pc = "begin" /\ round = 0 /\ todo = {} /\ cur = 0 /\ queue = <<>> /\ newp = <<>>
  /\ pending = [m \in 1..NMOf(s) |-> FileRefsOf(s, m)]     \* collected in textual order
  /\ delayed = [m \in 1..NMOf(s) |-> <<>>]
  /\ rcnt = 1 /\ ucnt = 1                                  \* as initialised in model.py
  /\ attrs = [m \in 1..NMOf(s) |-> [k \in 1..Len(s.files[m]) |-> <<>>]]
  /\ attempts = [r \in 1..NOf(s) |-> 0]
  /\ resolved = {}
  /\ outcome = [kind |-> "running", names |-> <<>>]
  /\ op = [m |-> 0, r |-> 0, attempt |-> 0, ans |-> "-"]

Init == \E i \in DOMAIN ScenarioSets : \E s \in ScenarioSets[i] : InitWith(s)

\* `while unresolved_count > 0 and resolved_count > 0:` taken -- a new round
BeginRound ==
  /\ pc = "begin"
  /\ round' = round + 1 /\ rcnt' = 0 /\ ucnt' = 0 /\ todo' = Models /\ pc' = "model"
  /\ UNCHANGED <<sc, cur, queue, newp, pending, delayed, attrs, attempts, resolved, outcome, op>>

\* `for m in models:` -- resolve_one_step of m starts
BeginModel(m) ==
  /\ pc = "model" /\ m \in todo
  /\ (Order = "textual" => m = Min(todo))
  /\ cur' = m /\ queue' = pending[m] /\ newp' = <<>>
  /\ delayed' = [delayed EXCEPT ![m] = <<>>]
  /\ pc' = "refs"
  /\ UNCHANGED <<sc, round, todo, pending, rcnt, ucnt, attrs, attempts, resolved, outcome, op>>

\* one reference is offered to its scope provider
TryRef(m, r) ==
  /\ pc = "refs" /\ m = cur
  /\ \E i \in (IF Order = "textual" THEN {1} \cap DOMAIN queue ELSE DOMAIN queue) :
        queue[i] = r /\ queue' = Remove(queue, i)
  /\ LET a == Answer(r)
         k == StmtOf(r)
     IN /\ attempts' = [attempts EXCEPT ![r] = @ + 1]
        /\ op' = [m |-> m, r |-> r, attempt |-> attempts[r] + 1, ans |-> a]
        \* a None answer for a name found in the builtins links the reference to the builtin object
        /\ CASE a = "resolved" \/ (a = "none" /\ r \in sc.builtin) ->
                  /\ resolved' = resolved \cup {r}
                  /\ rcnt' = rcnt + 1
                  /\ attrs' = [attrs EXCEPT ![m][k] =
                                 IF IsList(r) THEN ListAfter(m, k, @, r) ELSE <<r>>]
                  /\ UNCHANGED <<newp, delayed, pc, outcome>>
             [] a = "postponed" ->
                  /\ delayed' = [delayed EXCEPT ![m] = Append(@, r)]
                  /\ newp' = Append(newp, r)
                  /\ UNCHANGED <<resolved, rcnt, attrs, pc, outcome>>
             [] a = "none" /\ r \notin sc.builtin ->     \* 'Unknown object' error, load fails
                  /\ outcome' = [kind |-> "unknown", names |-> <<r>>]
                  /\ pc' = "idle"
                  /\ UNCHANGED <<resolved, rcnt, attrs, newp, delayed>>
  /\ UNCHANGED <<sc, round, todo, cur, pending, ucnt>>

\* resolve_one_step of `cur` returns: postponed references stay in the parser
EndModel ==
  /\ pc = "refs" /\ queue = <<>>
  /\ pending' = [pending EXCEPT ![cur] = newp]
  /\ ucnt' = ucnt + Len(delayed[cur])
  /\ todo' = todo \ {cur} /\ cur' = 0 /\ pc' = "model"
  /\ UNCHANGED <<sc, round, queue, newp, delayed, rcnt, attrs, attempts, resolved, outcome, op>>

\* all models visited: the progress test of the while loop
\* (StopAfterTwoRounds / ErrorNamesAllReferences are not observed in textX; they exist to show
\*  that C09_Verdict is not vacuous: TLC reports it violated when one of them is switched on)
EndRound ==
  /\ pc = "model" /\ todo = {}
  /\ pc' = IF ucnt > 0 /\ rcnt > 0 /\ ("StopAfterTwoRounds" \notin Dev \/ round < 2)
           THEN "begin" ELSE "exit"
  /\ UNCHANGED <<sc, round, todo, cur, queue, newp, pending, delayed, rcnt, ucnt, attrs,
                 attempts, resolved, outcome, op>>

\* no progress: the error names every delayed reference, model after model
FailUnresolvable ==
  /\ pc = "exit" /\ ucnt > 0
  /\ outcome' = [kind |-> "unresolvable",
                 names |-> IF "ErrorNamesAllReferences" \in Dev THEN [i \in 1..N |-> i]
                           ELSE Flat([m \in Models |-> delayed[m]])]
  /\ pc' = "idle"
  /\ UNCHANGED <<sc, round, todo, cur, queue, newp, pending, delayed, rcnt, ucnt, attrs,
                 attempts, resolved, op>>

Succeed ==
  /\ pc = "exit" /\ ucnt = 0
  /\ outcome' = [kind |-> "ok", names |-> <<>>]
  /\ pc' = "idle"
  /\ UNCHANGED <<sc, round, todo, cur, queue, newp, pending, delayed, rcnt, ucnt, attrs,
                 attempts, resolved, op>>

Internal == BeginRound \/ (\E m \in Models : BeginModel(m)) \/ EndModel \/ EndRound
            \/ FailUnresolvable \/ Succeed

Next == Internal \/ \E m \in Models, r \in AllRefs : TryRef(m, r)

Spec     == Init /\ [][Next]_vars
FairSpec == Spec /\ WF_vars(Next)

----------------------------------------------------------------------------
\* Properties
Idle == pc = "idle"

\* what an observer sees: the targets held by the attributes / named by the error
TargetsOf(q) == [i \in 1..Len(q) |-> sc.tgt[q[i]]]
AttrTargets  == [m \in Models |-> [k \in Stmts(m) |-> TargetsOf(attrs[m][k])]]
NameTargets  == TargetsOf(outcome.names)

TypeOK ==
  /\ WellFormed(sc)
  /\ pc \in {"begin", "model", "refs", "exit", "idle"}
  /\ todo \subseteq Models /\ cur \in Models \cup {0}
  /\ Range(queue) \subseteq AllRefs /\ Range(newp) \subseteq AllRefs
  /\ resolved \subseteq AllRefs
  /\ \A m \in Models : Range(pending[m]) \subseteq Range(FileRefs(m))
                       /\ Range(delayed[m]) \subseteq Range(FileRefs(m))
  /\ outcome.kind \in {"running", "ok", "unresolvable", "unknown"}
  /\ (Idle <=> outcome.kind # "running")

\* C08: a list attribute holds the targets in the textual order of the references
TextualSoFar(m, k) == SelectSeq(sc.files[m][k].refs, LAMBDA x : x \in resolved)
C08_Partial   == \A m \in Models : \A k \in Stmts(m) : attrs[m][k] = TextualSoFar(m, k)
C08_ListOrder == (Idle /\ outcome.kind = "ok") =>
                   \A m \in Models : \A k \in Stmts(m) : attrs[m][k] = sc.files[m][k].refs
\* whatever the order, an attribute holds exactly the resolved targets, once each
AttrsComplete == \A m \in Models : \A k \in Stmts(m) :
                   /\ Range(attrs[m][k]) = Range(sc.files[m][k].refs) \cap resolved
                   /\ Len(attrs[m][k]) = Cardinality(Range(attrs[m][k]))

\* between rounds: every unresolved reference was offered exactly once per round
\* (a postponed reference is retried in the next round, nothing else is)
OncePerRound ==
  pc \in {"begin", "exit"} =>
    /\ \A r \in AllRefs : IF r \in resolved THEN attempts[r] <= round ELSE attempts[r] = round
    /\ \A m \in Models : Range(pending[m]) = Range(FileRefs(m)) \ resolved
    /\ (Order = "textual" =>
          \A m \in Models : pending[m] = SelectSeq(FileRefs(m), LAMBDA x : x \notin resolved))

\* every round but the last resolves something
RoundBound == round <= Cardinality(resolved) + 1 /\ round <= N + 1

\* the error names exactly the references that are not resolved, success leaves none
ErrorNamesUnresolved ==
  /\ (Idle /\ outcome.kind = "unresolvable") =>
        /\ Range(outcome.names) = AllRefs \ resolved /\ outcome.names # <<>>
        /\ Len(outcome.names) = Cardinality(Range(outcome.names))
  /\ (Idle /\ outcome.kind = "ok") => resolved = AllRefs

\* C09: for a pure dependency scenario, the least fixpoint of `deps` decides
\* in "api" mode a reference waits for every reference of the attributes holding its deps
MatesOf(s, d) == LET m == CHOOSE i \in 1..NMOf(s) : d \in Range(FileRefsOf(s, i))
                     k == CHOOSE j \in 1..Len(s.files[m]) : d \in Range(s.files[m][j].refs)
                 IN Range(s.files[m][k].refs)
EffDeps(s, r) == IF s.mode = "api" THEN UNION {MatesOf(s, d) : d \in s.deps[r]} ELSE s.deps[r]
RECURSIVE LfpFrom(_, _)
LfpFrom(s, S) == LET T == S \cup {r \in 1..NOf(s) : r \notin s.never /\ EffDeps(s, r) \subseteq S}
                 IN IF T = S THEN S ELSE LfpFrom(s, T)
Resolvable(s) == LfpFrom(s, {})
PureDeps(s)   == s.unknown = {} /\ \A r \in 1..NOf(s) : s.sched[r] = 0

C09_Verdict ==
  (Idle /\ PureDeps(sc)) =>
     /\ (outcome.kind = "ok" <=> Resolvable(sc) = AllRefs)
     /\ (outcome.kind # "ok" =>
           outcome.kind = "unresolvable" /\ Range(outcome.names) = AllRefs \ Resolvable(sc))
     /\ resolved = Resolvable(sc)
\* nothing outside the fixpoint is ever resolved, in no order
C09_Sound == PureDeps(sc) => resolved \subseteq Resolvable(sc)

C09_Terminates == <>Idle          \* under FairSpec, without any CONSTRAINT

=============================================================================
