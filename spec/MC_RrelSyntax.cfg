INIT Init
NEXT Next
CONSTANTS
  Dev <- MCDev
INVARIANT ParsePrintExact
INVARIANT ParseSpacedExact
INVARIANT RoundTrip
INVARIANT NormIdempotent
CONSTRAINT Emit
CHECK_DEADLOCK FALSE
