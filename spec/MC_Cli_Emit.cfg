SPECIFICATION Spec
CONSTANTS
  Dev <- NoDev
INVARIANT Emit
CHECK_DEADLOCK FALSE
