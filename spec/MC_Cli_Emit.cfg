SPECIFICATION EmitSpec
CONSTANTS
  Dev <- NoDev
INVARIANT Emit
CHECK_DEADLOCK FALSE
