SPECIFICATION EmitSpec
CONSTANTS
  Meta <- CarrierMeta
  Scenarios <- MCScenarios
  Dev <- EnvDev
  Family <- EnvFamily
  MaxObjs <- EnvMaxObjs
  MaxFiles <- EnvMaxFiles
  MaxRefs <- EnvMaxRefs
  MaxPostpone <- EnvMaxPostpone
CONSTRAINT EmitScenario
CHECK_DEADLOCK FALSE
