-------------------------- MODULE OracleLoaderProc --------------------------
(* LoaderProc as an oracle: evaluates the module's functions on rendered    *)
(* cases (positions taken from real text) and prints one RESULT per case.   *)
(* case = scenario fields + [id, want, devsets]; the outcome is given for    *)
(* every requested deviation set.                                            *)
EXTENDS LoaderProc, LoaderProcCarrier, IOUtils, Json

Cases == JsonDeserialize(IOEnv.VT_CASES)
NoScenarios == <<>>
NoDev == {}

VARIABLE i

Out(c) ==
  CASE c.want = "c13" -> [id |-> c.id, calls |-> WalkAll(c), final |-> FinalOf(c)]
    [] c.want = "c33" -> [id |-> c.id,
                          res |-> [k \in 1..Len(c.devsets) |-> ErrLoc(c, RangeOf(c.devsets[k]))]]
    [] c.want = "c34" -> [id |-> c.id,
                          res |-> [k \in 1..Len(c.devsets) |->
                                     [xrefs |-> Xrefs(c, RangeOf(c.devsets[k])),
                                      rdict |-> RuleDict(c, RangeOf(c.devsets[k]))]]]

OInit == /\ i = 0 /\ sid = 0 /\ pc = "oracle" /\ round = 0 /\ xr = <<>> /\ inited = FALSE
         /\ calls = <<>> /\ cont = <<>> /\ err = NoErr /\ xrefs = <<>> /\ rdict = <<>>
ONext == /\ i < Len(Cases) /\ i' = i + 1
         /\ PrintT("RESULT|" \o ToJson(Out(Cases[i + 1])))
         /\ UNCHANGED vars
OSpec == OInit /\ [][ONext]_<<vars, i>>
=============================================================================
