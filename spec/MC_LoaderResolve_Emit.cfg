SPECIFICATION Spec
CONSTANTS
  Scenarios <- EnvScenarios
  Order <- EnvOrder
  Dev <- EnvDev
INVARIANT EmitFinal
CHECK_DEADLOCK FALSE
