SPECIFICATION Spec
CONSTANTS
  ScenarioSets <- EnvScenarioSets
  Order <- EnvOrder
  Dev <- EnvDev
INVARIANT EmitFinal
CHECK_DEADLOCK FALSE
