SPECIFICATION TraceSpec
CONSTANTS
  Scenarios = {}
  Order = "textual"
  Dev <- TDev
CONSTRAINT Progress
POSTCONDITION Report
CHECK_DEADLOCK FALSE
