SPECIFICATION TraceSpec
CONSTANTS
  ScenarioSets <- TNone
  Order = "textual"
  Dev <- TDev
CONSTRAINT Progress
POSTCONDITION Report
CHECK_DEADLOCK FALSE
