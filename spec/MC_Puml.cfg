SPECIFICATION MSpec
INVARIANT AcceptBalanced
INVARIANT StateAgrees
INVARIANT FoldAgrees
PROPERTY ErrSticky
CHECK_DEADLOCK FALSE
