----------------------------- MODULE DotExport -----------------------------
(***************************************************************************)
(* The exporter side of property C29: which text textx/export.py puts into *)
(* the DOT output for the free-text fields of a model -- the `name` of an  *)
(* object (first record field of its node label), string attribute values  *)
(* (inside the record label) and primitive values of lists that also hold  *)
(* objects (a quoted node identifier).  The property demands that every    *)
(* such field is escaped so that the output stays a DOT graph; the named    *)
(* deviation clauses describe the fields the implementation writes raw.    *)
(* Predict(case, Dev) is evaluated with the recogniser of DotLex.tla.      *)
(***************************************************************************)
EXTENDS DotLex

CONSTANTS Dev

\* escaping of one character for a record label inside a quoted string (dot_escape)
EscChar(c) ==
  CASE c = NL -> <<BS, BS, 110>>            \* a newline is shown as \n
    [] c = BS -> <<BS, BS>>
    [] c = DQ -> <<BS, DQ>>
    [] c \in {BAR, LB, RB, GT, LT, 63} -> <<BS, c>>
    [] OTHER -> <<c>>
RECURSIVE Esc(_)
Esc(s) == IF Len(s) = 0 THEN <<>> ELSE EscChar(Head(s)) \o Esc(Tail(s))

\* escaping for a quoted identifier: only the quote and the backslash matter
EscIdChar(c) == IF c = DQ THEN <<BS, DQ>> ELSE IF c = BS THEN <<BS, BS>> ELSE <<c>>
RECURSIVE EscId(_)
EscId(s) == IF Len(s) = 0 THEN <<>> ELSE EscIdChar(Head(s)) \o EscId(Tail(s))

Header  == <<100, 105, 103, 114, 97, 112, 104, 32, 116, 101, 120, 116, 88, 32, 123, 10, 110, 111, 100, 101, 91, 10, 32, 115, 104, 97, 112, 101, 61, 114, 101, 99, 111, 114, 100, 44, 10, 32, 115, 116, 121, 108, 101, 61, 102, 105, 108, 108, 101, 100, 10, 93, 10>>
NodeA   == <<49, 91, 108, 97, 98, 101, 108, 61, 34, 123>>
NodeB   == <<58, 67, 124, 125, 34, 93, 10>>
ValA    == <<49, 91, 108, 97, 98, 101, 108, 61, 34, 123, 110, 58, 67, 124, 43, 118, 58, 115, 116, 114, 61, 39>>
ValB    == <<39, 92, 108, 125, 34, 93, 10>>
ReprA   == <<49, 91, 108, 97, 98, 101, 108, 61, 34, 123, 110, 58, 67, 124, 43, 118, 58, 115, 116, 114, 61>>
ReprB   == <<92, 108, 125, 34, 93, 10>>
EdgeA   == <<49, 32, 45, 62, 32, 34>>
EdgeB   == <<58, 115, 116, 114, 34, 32, 91, 108, 97, 98, 101, 108, 61, 34, 97, 58, 48, 34, 32, 97, 114, 114, 111, 119, 116, 97, 105, 108, 61, 100, 105, 97, 109, 111, 110, 100, 32, 100, 105, 114, 61, 98, 111, 116, 104, 93, 10>>
Trailer == <<10, 125, 10>>

\* the name of an object: first field of the record label
NameField(s) == IF "NameNotEscaped" \in Dev THEN s ELSE Esc(s)
\* a string attribute value: always escaped (dot_repr)
ValueField(s) == Esc(s)
\* a primitive string of a list that also holds objects: a quoted node identifier
MixedField(s) == IF "MixedPrimitiveNotEscaped" \in Dev THEN s ELSE EscId(s)

NameDoc(s)  == Header \o NodeA \o NameField(s) \o NodeB \o Trailer
ValueDoc(s) == Header \o ValA \o ValueField(s) \o ValB \o Trailer
MixedDoc(s) == Header \o EdgeA \o MixedField(s) \o EdgeB \o Trailer

\* well-formed: a DOT graph that still shows what was exported -- `nodes` node statements
\* with one record separator each, `edges` edge statements
Verdict(doc, nodes, edges) ==
  LET c == Run(Init0, doc, 1)
  IN IF Accepting(c) /\ c.nodes = nodes /\ c.bars = nodes /\ c.edges = edges /\ c.bare = 0
     THEN "wellformed" ELSE "malformed"
\* texts produced by the implementation's own escaping functions, put where they are used
EscapedDoc(e) == Header \o ValA \o e \o ValB \o Trailer           \* e = dot_escape(s)
ReprDoc(e)    == Header \o ReprA \o e \o ReprB \o Trailer         \* e = dot_repr(s)

\* kind: "name" | "value" | "mixed"  (s is the model's string)
\*       "escaped" | "repr"          (s is the text the implementation made of it)
Predict(kind, s) == CASE kind = "name" -> Verdict(NameDoc(s), 1, 0)
                      [] kind = "value" -> Verdict(ValueDoc(s), 1, 0)
                      [] kind = "mixed" -> Verdict(MixedDoc(s), 0, 1)
                      [] kind = "escaped" -> Verdict(EscapedDoc(s), 1, 0)
                      [] kind = "repr" -> Verdict(ReprDoc(s), 1, 0)
                      [] OTHER -> "unknown"

\* ---- which classes a meta-model export shows.  A meta-model: Seq of grammar files
\* [ns, imports (indices of the files it imports), classes (common and abstract classes)],
\* the main grammar first.  The property: a node / a declaration for every common and abstract
\* class of the meta-model, i.e. of every grammar file it was loaded from.
RangeOf(q) == {q[k] : k \in DOMAIN q}
RECURSIVE ReachFiles(_, _)
ReachFiles(F, S) == LET T == S \cup UNION {RangeOf(F[i].imports) : i \in S}
                    IN IF T = S THEN S ELSE ReachFiles(F, T)
DrawnFiles(F) == IF "TransitiveImportsNotDrawn" \in Dev
                 THEN {1} \cup RangeOf(F[1].imports)      \* the main grammar and what it imports itself
                 ELSE ReachFiles(F, {1})
Drawn(F) == UNION {RangeOf(F[i].classes) : i \in DrawnFiles(F)}
\* F[i].subs: pairs <<abstract class, subclass>>.  Under the deviation the exporter looks every
\* subclass of a shown class up among the shown classes and fails when it is not there.
Crashes(F) == \E i \in DrawnFiles(F) : \E p \in RangeOf(F[i].subs) : p[2] \notin Drawn(F)
\* every class is shown; nothing is lost by a deviation-free export
AllClasses(F) == UNION {RangeOf(F[i].classes) : i \in 1..Len(F)}

\* the property for one string: whatever the text, the export stays well-formed
FieldsWellFormed(s) == /\ Predict("name", s) = "wellformed"
                       /\ Predict("value", s) = "wellformed"
                       /\ Predict("mixed", s) = "wellformed"
=============================================================================
