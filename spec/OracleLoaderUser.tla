------------------------- MODULE OracleLoaderUser -------------------------
(* LoaderUser evaluated on scenarios given as JSON by the harness: every    *)
(* behaviour of every scenario is run to its end and its summary printed     *)
(* (RESULT lines); the harness compares them with what the real loader did.  *)
EXTENDS LoaderUser, IOUtils

JScenarios == JsonDeserialize(IOEnv.VT_CASES)
JSpec == InitWith(Range(JScenarios)) /\ [][Next]_vars
=============================================================================
