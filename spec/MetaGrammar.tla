---------------------------- MODULE MetaGrammar ----------------------------
(***************************************************************************)
(* The textX meta-language (the language grammars are written in) at token *)
(* level: properties C23 and C24.                                          *)
(*                                                                         *)
(*  - a text is a sequence of tokens (strings, the surface spelling); the  *)
(*    harness renders it by joining the tokens with blanks;                *)
(*  - the productions are *data* (Gram): PEG expressions over token        *)
(*    classes, literal tokens and non-terminals, following the grammar of  *)
(*    textx/lang.py (textx_model .. comment) and textx/scoping/rrel.py;    *)
(*  - Parse is a PEG interpreter over that data (ordered choice, greedy    *)
(*    repetition, no backtracking into a repetition), InL the recogniser;  *)
(*    every non-terminal that matched leaves an event [r, a, b], so the    *)
(*    event list is the parse tree in post-order = the order in which the  *)
(*    grammar visitor (TextXVisitor) sees the nodes;                       *)
(*  - Class / Allowed state the documented checks of the grammar compiler  *)
(*    on that tree (C23);                                                  *)
(*  - the same production data, read as a context-free grammar with a cost *)
(*    on every non-default choice, is the generator (MetaGrammarGen.tla).  *)
(*                                                                         *)
(* Dev: named deviation clauses.  Tx*  = where textx/textx.tx (the         *)
(* self-hosted grammar) departs from the grammar compiler (C24);           *)
(* the others = inputs on which the grammar compiler raises something      *)
(* that is not a TextXError (C23).                                         *)
(***************************************************************************)
EXTENDS Naturals, Sequences, FiniteSets, TLC

----------------------------------------------------------------------------
\* Tokens

Builtins   == {"ID", "BOOL", "INT", "FLOAT", "STRICTFLOAT", "STRING", "NUMBER", "BASETYPE"}
Keywords   == {"import", "reference", "as", "eolterm", "parent"}
ParamWords == {"skipws", "noskipws", "ws", "nows", "split", "nosplit", "foo"}
AsgnNames  == {"__asgn_r"}                 \* rule names that collide with the compiler's internal node names
Words      == {"A", "B", "C", "U", "x", "y", "a", "b", "c", "l", "m", "n", "OBJECT"}
                \cup Builtins \cup Keywords \cup ParamWords \cup AsgnNames
DIdents    == {"1b"}                       \* \w+ but not an ID (leading digit)
BIdents    == {"INTEGER"}                  \* an identifier that starts with the name of a built-in type
QNames     == {"A.B", "m.n", "c.X", "A.B.C"} \* \w+(\.\w+)+
BQNames    == {"ID.x", "INT.y.z"}          \* a qualified name whose first part is the name of a built-in type
DotWords   == {".x"}                       \* a dot glued to the following word (as in `ID .x`)
DashNames  == {"a-b"}                      \* language names (\w|-)+
BadEscStrs == {"'\\xzz'"}                  \* a string match with a malformed escape sequence
EmptyStrs  == {"''"}
Strs       == {"'a'", "','", "'n'", "\"b\""} \cup BadEscStrs \cup EmptyStrs
BadRes     == {"/(/"}                      \* not a regular expression
Res        == {"/b/", "/x*/"} \cup BadRes
Flags      == {"+m:", "+p:", "+mp:", "+pm:"}
Comments   == {"/*c*/", "//c"}             \* a line comment is rendered with a newline after it
Punct      == {":", ";", "|", "(", ")", "[", "]", "=", "*=", "+=", "?=", "*", "+", "?", "#", "-",
               "!", "&", ",", ".", "~", "^", ".."}
Alphabet   == Words \cup DIdents \cup BIdents \cup QNames \cup BQNames \cup DotWords \cup DashNames \cup Strs \cup Res \cup Flags
                \cup Comments \cup Punct

Kind(x) == CASE x \in Words     -> "word"
             [] x \in DIdents   -> "dident"
             [] x \in BIdents   -> "bident"
             [] x \in QNames    -> "qname"
             [] x \in BQNames   -> "bqname"
             [] x \in DotWords  -> "dotword"
             [] x \in DashNames -> "dash"
             [] x \in Strs      -> "str"
             [] x \in Res       -> "re"
             [] x \in Flags     -> "flags"
             [] x \in {".", ".."} -> "dots"
             [] x = "-"         -> "minus"
             [] x \in Comments  -> "comment"
             [] OTHER           -> "punct"

\* comments may stand between any two tokens
Strip(t) == SelectSeq(t, LAMBDA x : Kind(x) # "comment")

IdentRoles == {"RULENAME", "ATTR", "RULEREF", "PARAM", "ALIAS", "MATCHRULE"}

\* token kinds accepted by a terminal class
\*   lang.py: ident = \w+, qualified_ident = \w+(\.\w+)* (rule references and class names),
\*            grammar_to_import = (\w|\.)+, language_name = (\w|-)+, rrel_id = [^\d\W]\w*\b
ClsKinds(c, D) ==
  CASE c = "RULEREF"    -> {"word", "bident", "qname", "bqname"} \cup (IF "TxIdentIsID" \in D THEN {} ELSE {"dident"})
    [] c \in IdentRoles -> {"word", "bident"} \cup (IF "TxIdentIsID" \in D THEN {} ELSE {"dident"})
    [] c = "QNAME"      -> {"word", "bident", "dident", "qname", "bqname"}
    [] c = "IMPORTNAME" -> {"word", "bident", "dident", "qname", "bqname", "dotword", "dots"}
    [] c = "LANGNAME"   -> {"word", "bident", "dident", "dash", "minus"}
    [] c \in {"RID", "PTYPE"} -> {"word", "bident"}
    [] c \in {"STR", "PVAL", "FIXED"} -> {"str"}
    [] c = "RE"         -> {"re"}
    [] c = "FLAGS"      -> {"flags"}
    [] c = "DOTS"       -> {"dots"}
    [] OTHER            -> {}

----------------------------------------------------------------------------
\* Lexical layer: raw chunks.
\* A text may contain the placeholders <r1>, <r2>; raws[k] is then a sequence of characters
\* (one-character strings) written at that place, with a line break after it.  The harness
\* keeps `/` and quote characters out of the tokens that follow a placeholder, so a chunk is
\* lexed on its own.  Lex turns it into tokens of the alphabet, by the rules of lang.py:
\*   - blanks separate tokens; before every token comments are skipped:
\*     `//` up to the end of the line, `/*` up to the first `*/` if there is one;
\*   - otherwise `/` starts a regex match, ONE token, the regular expression
\*         /((\\/)|[^/])*/          (re_match in lang.py)
\*     matched with backtracking: `\/` is taken as an escaped slash if the literal can still
\*     be closed afterwards, else the backslash is an ordinary character and the `/` closes;
\*   - a quote starts a string, one token '((\\')|[^'])*' (likewise for "), same matching;
\*   - a run of word characters is a word; any other character stands for itself.
\* What the tokens are called does not matter for the syntax: a regex becomes /b/, a string
\* 'a', a word x, a comment /*c*/.  A character that starts no token gives <bad>, which
\* no production accepts.
\* TxRegexSplit: textx.tx used to spell the regex match as three tokens, '/' body '/', with
\* the body /((\\/)|[^\/])*/ matched on its own (greedy, nothing to give back) and blanks
\* and comments skipped before the body and before the closing slash.
WordChars == {"a", "b", "c", "s", "x"}
RawIndex(tok) == CASE tok = "<r1>" -> 1 [] tok = "<r2>" -> 2 [] OTHER -> 0

RECURSIVE LitEnd(_, _, _)
\* index of the closing quote/slash q of the literal whose body starts at i (0: none), by the
\* matching order of the regular expression q((\\q)|[^q])*q: escape first, then plain, then stop
LitEnd(cs, i, q) ==
  IF i > Len(cs) THEN 0
  ELSE IF cs[i] = q THEN i
  ELSE IF cs[i] = "\\" /\ i < Len(cs) /\ cs[i + 1] = q
       THEN LET r == LitEnd(cs, i + 2, q) IN IF r # 0 THEN r ELSE LitEnd(cs, i + 1, q)
       ELSE LitEnd(cs, i + 1, q)

RECURSIVE GreedyBody(_, _)
\* first position the stand-alone body token ((\\/)|[^\/])* does not consume
GreedyBody(cs, i) ==
  IF i > Len(cs) THEN i
  ELSE IF cs[i] = "\\" /\ i < Len(cs) /\ cs[i + 1] = "/" THEN GreedyBody(cs, i + 2)
  ELSE IF cs[i] # "/" THEN GreedyBody(cs, i + 1)
  ELSE i

RECURSIVE CommentEnd(_, _)
\* index of the `/` of the first `*/` at or after i (0: none)
CommentEnd(cs, i) == IF i >= Len(cs) THEN 0
                     ELSE IF cs[i] = "*" /\ cs[i + 1] = "/" THEN i + 1 ELSE CommentEnd(cs, i + 1)
At2(cs, i, a, b) == i < Len(cs) /\ cs[i] = a /\ cs[i + 1] = b

RECURSIVE SkipWsComments(_, _)
\* first position at or after i that is neither blank nor inside a comment
SkipWsComments(cs, i) ==
  IF i > Len(cs) THEN i
  ELSE IF cs[i] = " " THEN SkipWsComments(cs, i + 1)
  ELSE IF At2(cs, i, "/", "/") THEN Len(cs) + 1
  ELSE IF At2(cs, i, "/", "*") /\ CommentEnd(cs, i + 2) # 0 THEN SkipWsComments(cs, CommentEnd(cs, i + 2) + 1)
  ELSE i

\* index of the closing slash of the regex match that starts at i (cs[i] = "/"), 0: no match
ReEnd(cs, i, D) ==
  IF "TxRegexSplit" \in D
  THEN LET b == SkipWsComments(cs, i + 1)
           e == SkipWsComments(cs, GreedyBody(cs, b))
       IN IF e <= Len(cs) /\ cs[e] = "/" THEN e ELSE 0
  ELSE LitEnd(cs, i + 1, "/")

RECURSIVE WordEnd(_, _), Lex(_, _, _)
WordEnd(cs, i) == IF i <= Len(cs) /\ cs[i] \in WordChars THEN WordEnd(cs, i + 1) ELSE i
Lex(cs, i, D) ==
  IF i > Len(cs) THEN <<>>
  ELSE IF cs[i] = " " THEN Lex(cs, i + 1, D)
  ELSE IF At2(cs, i, "/", "/") THEN <<"//c">>
  ELSE IF At2(cs, i, "/", "*") /\ CommentEnd(cs, i + 2) # 0 THEN <<"/*c*/">> \o Lex(cs, CommentEnd(cs, i + 2) + 1, D)
  ELSE IF cs[i] = "/" THEN LET e == ReEnd(cs, i, D) IN IF e = 0 THEN <<"<bad>">> ELSE <<"/b/">> \o Lex(cs, e + 1, D)
  ELSE IF cs[i] \in {"'", "\""} THEN LET e == LitEnd(cs, i + 1, cs[i]) IN
                                     IF e = 0 THEN <<"<bad>">> ELSE <<"'a'">> \o Lex(cs, e + 1, D)
  ELSE IF cs[i] \in WordChars THEN <<"x">> \o Lex(cs, WordEnd(cs, i), D)
  ELSE IF cs[i] \in Punct THEN <<cs[i]>> \o Lex(cs, i + 1, D)
  ELSE <<"<bad>">>

RECURSIVE Expand(_, _, _)
\* the token sequence of a text with raw chunks, as lexed under deviation set D
Expand(toks, raws, D) ==
  IF toks = <<>> THEN <<>>
  ELSE LET k == RawIndex(Head(toks)) IN
       (IF k = 0 \/ k > Len(raws) THEN <<Head(toks)>> ELSE Lex(raws[k], 1, D)) \o Expand(Tail(toks), raws, D)

\* no `/` or quote may follow a chunk (a literal left open in the chunk would reach it)
RECURSIVE WellHosted(_, _)
WellHosted(toks, seen) ==
  IF toks = <<>> THEN TRUE
  ELSE LET h == Head(toks) IN
       /\ (seen => (RawIndex(h) = 0 /\ Kind(h) \notin {"str", "re", "comment"}))
       /\ WellHosted(Tail(toks), seen \/ RawIndex(h) # 0)

----------------------------------------------------------------------------
\* PEG expressions (the cost fields are read by the generator only)
Tk(v)      == [op |-> "tok", v |-> v]
Cl(c)      == [op |-> "cls", c |-> c]
Nt(n)      == [op |-> "nt", n |-> n]
Sq(xs)     == [op |-> "seq", xs |-> xs]
Al(xs, cs) == [op |-> "alt", xs |-> xs, cs |-> cs]     \* ordered choice; cs[i] = cost of alternative i
Op(x, c)   == [op |-> "opt", x |-> x, c |-> c]         \* c = cost of taking it
Sr(x, c)  == [op |-> "star", x |-> x, c |-> c]        \* c = cost of one iteration
Pl(x, c)  == [op |-> "plus", x |-> x, c |-> c]        \* first iteration free

\* The productions.  Names follow textx/lang.py and textx/scoping/rrel.py; the names
\* repeat_sign, repeat_modifier, eolterm_mod, obj_ref_sep, rrel_anchor, rrel_path_parts,
\* rrel_path_part, rrel_nav_plain, rrel_nav_fixed only label inline choices of those files.
Gram(D) == [
  textx_model     |-> Sq(<<Sr(Nt("import_or_reference_stm"), 1),
                          IF "TxNoRulesOk" \in D THEN Sr(Nt("textx_rule"), 1) ELSE Pl(Nt("textx_rule"), 1)>>),
  import_or_reference_stm |-> Al(<<Nt("import_stm"), Nt("reference_stm")>>, <<0, 0>>),
  import_stm      |-> Sq(<<Tk("import"), Cl("IMPORTNAME")>>),
  reference_stm   |-> Sq(<<Tk("reference"), Cl("LANGNAME"), Op(Nt("language_alias"), 1)>>),
  language_alias  |-> Sq(<<Tk("as"), Cl("ALIAS")>>),
  textx_rule      |-> Sq(<<Nt("rule_name"), Op(Nt("rule_params"), 1), Tk(":"), Nt("textx_rule_body"), Tk(";")>>),
  rule_name       |-> Cl("RULENAME"),
  rule_params     |-> Sq(<<Tk("["), Nt("rule_param"), Sr(Sq(<<Tk(","), Nt("rule_param")>>), 1), Tk("]")>>),
  rule_param      |-> Sq(<<Nt("param_name"), Op(Sq(<<Tk("="), Cl("PVAL")>>), 1)>>),
  param_name      |-> Cl("PARAM"),
  textx_rule_body |-> Nt("choice"),
  choice          |-> Sq(<<Nt("sequence"), Sr(Sq(<<Tk("|"), Nt("sequence")>>), 1)>>),
  sequence        |-> Pl(Nt("repeatable_expr"), 1),
  repeatable_expr |-> Sq(<<Nt("expression"), Op(Nt("repeat_operator"), 1), Op(Tk("-"), 1)>>),
  expression      |-> Al(<<Nt("assignment"),
                          Sq(<<Op(Nt("syntactic_predicate"), 1),
                              Al(<<Nt("simple_match"), Nt("rule_ref"), Nt("bracketed_choice")>>, <<0, 1, 1>>)>>)>>,
                        <<1, 0>>),
  bracketed_choice |-> Sq(<<Tk("("), Nt("choice"), Tk(")")>>),
  repeat_operator |-> Sq(<<Nt("repeat_sign"), Op(Nt("repeat_modifiers"), 1)>>),
  repeat_sign     |-> Al(<<Tk("*"), Tk("?"), Tk("+"), Tk("#")>>, <<0, 1, 1, 1>>),
  repeat_modifiers |-> IF "TxModifiersNotMixed" \in D
                       THEN Sq(<<Tk("["), Al(<<Pl(Nt("simple_match"), 1), Nt("eolterm_mod")>>, <<0, 1>>), Tk("]")>>)
                       ELSE Sq(<<Tk("["), Pl(Nt("repeat_modifier"), 1), Tk("]")>>),
  repeat_modifier |-> Al(<<Nt("simple_match"), Nt("eolterm_mod")>>, <<0, 1>>),
  eolterm_mod     |-> Tk("eolterm"),
  syntactic_predicate |-> Al(<<Tk("!"), Tk("&")>>, <<0, 0>>),
  simple_match    |-> Al(<<Nt("str_match"), Nt("re_match")>>, <<0, 1>>),
  str_match       |-> Cl("STR"),
  re_match        |-> Cl("RE"),
  assignment      |-> Sq(<<Nt("attribute"), Nt("assignment_op"), Nt("assignment_rhs")>>),
  attribute       |-> Cl("ATTR"),
  assignment_op   |-> Al(<<Tk("="), Tk("*="), Tk("+="), Tk("?=")>>, <<0, 1, 1, 1>>),
  assignment_rhs  |-> Sq(<<Al(<<Nt("simple_match"), Nt("reference")>>, <<0, 1>>), Op(Nt("repeat_modifiers"), 1)>>),
  reference       |-> Al(<<Nt("rule_ref"), Nt("obj_ref")>>, <<0, 1>>),
  rule_ref        |-> Cl("RULEREF"),
  obj_ref         |-> Sq(<<Tk("["), Nt("class_name"),
                          Op(Sq(<<Nt("obj_ref_sep"), Nt("obj_ref_rule"),
                                IF "TxRrelRequired" \in D
                                THEN Sq(<<Tk("|"), Nt("rrel_expression")>>)
                                ELSE Op(Sq(<<Tk("|"), Nt("rrel_expression")>>), 1)>>), 1),
                          Tk("]")>>),
  obj_ref_sep     |-> Al(<<Tk(":"), Tk("|")>>, <<0, 1>>),
  obj_ref_rule    |-> Cl("MATCHRULE"),
  class_name      |-> Cl("QNAME"),
  rrel_expression |-> Sq(<<Op(IF "TxFlagOnlyM" \in D THEN Tk("+m:") ELSE Cl("FLAGS"), 1), Nt("rrel_sequence")>>),
  rrel_sequence   |-> Sq(<<Sr(Sq(<<Nt("rrel_path"), Tk(",")>>), 1), Nt("rrel_path")>>),
  rrel_path       |-> Al(<<Nt("rrel_path_parts"), Nt("rrel_anchor")>>, <<0, 1>>),
  rrel_path_parts |-> Sq(<<Op(Nt("rrel_anchor"), 1), Sr(Sq(<<Nt("rrel_path_part"), Tk(".")>>), 1), Nt("rrel_path_part")>>),
  rrel_anchor     |-> Al(<<Tk("^"), Nt("rrel_dots")>>, <<0, 0>>),
  rrel_dots       |-> Cl("DOTS"),
  rrel_path_part  |-> Al(<<Nt("rrel_zero_or_more"), Nt("rrel_path_element")>>, <<1, 0>>),
  rrel_zero_or_more |-> Sq(<<Nt("rrel_path_element"), Tk("*")>>),
  rrel_path_element |-> Al(<<Nt("rrel_parent"), Nt("rrel_brackets"), Nt("rrel_navigation")>>, <<1, 1, 0>>),
  rrel_parent     |-> Sq(<<Tk("parent"), Tk("("), Cl("PTYPE"), Tk(")")>>),
  rrel_brackets   |-> Sq(<<Tk("("), Nt("rrel_sequence"), Tk(")")>>),
  rrel_navigation |-> IF "TxNoFixedName" \in D
                      THEN Al(<<Nt("rrel_nav_plain")>>, <<0>>)
                      ELSE Al(<<Nt("rrel_nav_plain"), Nt("rrel_nav_fixed")>>, <<0, 1>>),
  rrel_nav_plain  |-> Sq(<<Op(Tk("~"), 1), Cl("RID")>>),
  rrel_nav_fixed  |-> Sq(<<Op(Cl("FIXED"), 0), Tk("~"), Cl("RID")>>)
]

GramLang == Gram({})
NonTerminals == DOMAIN GramLang

\* the deviation clauses that describe textx.tx
TxDevs == {"TxNoRulesOk", "TxRrelRequired", "TxFlagOnlyM", "TxNoFixedName", "TxModifiersNotMixed",
           "TxIdentIsID", "TxBuiltinPrefix", "TxBuiltinBeforeDot", "TxRegexSplit"}

----------------------------------------------------------------------------
\* PEG interpreter.
\* A position is 2*i (before token i) or 2*i+1: inside token i, after the built-in type
\* name an identifier such as INTEGER starts with -- reachable only with TxBuiltinPrefix,
\* where the rule-reference production of textx.tx takes `INT` and leaves `EGER`, and with
\* TxBuiltinBeforeDot, where it takes the `ID` of `ID.x` and leaves `.x`, which nothing matches.

MatchTok(t, v, p) ==
  IF p % 2 = 0 /\ p \div 2 <= Len(t) /\ t[p \div 2] = v THEN p + 2 ELSE 0

MatchCls(D, t, c, p) ==
  IF p % 2 = 1
  THEN IF Kind(t[p \div 2]) = "bident" /\ "word" \in ClsKinds(c, D) THEN p + 1 ELSE 0
  ELSE IF p \div 2 > Len(t) THEN 0
       ELSE LET k == Kind(t[p \div 2]) IN
            IF c = "RULEREF" /\ "TxBuiltinPrefix" \in D /\ k = "bident" THEN p + 1
            ELSE IF c = "RULEREF" /\ "TxBuiltinBeforeDot" \in D /\ k = "bqname" THEN p + 1
            ELSE IF k \in ClsKinds(c, D) THEN p + 2 ELSE 0

Fail  == [p |-> 0, ev |-> <<>>]
Ok(p) == [p |-> p, ev |-> <<>>]

RECURSIVE P(_, _, _, _, _), PSeq(_, _, _, _, _, _, _), PAlt(_, _, _, _, _, _), PStar(_, _, _, _, _, _)

P(G, D, t, e, p) ==
  CASE e.op = "tok"  -> LET q == MatchTok(t, e.v, p) IN IF q = 0 THEN Fail ELSE Ok(q)
    [] e.op = "cls"  -> LET q == MatchCls(D, t, e.c, p) IN IF q = 0 THEN Fail ELSE Ok(q)
    [] e.op = "nt"   -> LET r == P(G, D, t, G[e.n], p) IN
                        IF r.p = 0 THEN Fail
                        ELSE [p |-> r.p, ev |-> Append(r.ev, [r |-> e.n, a |-> p, b |-> r.p])]
    [] e.op = "seq"  -> PSeq(G, D, t, e.xs, 1, p, <<>>)
    [] e.op = "alt"  -> PAlt(G, D, t, e.xs, 1, p)
    [] e.op = "opt"  -> LET r == P(G, D, t, e.x, p) IN IF r.p = 0 THEN Ok(p) ELSE r
    [] e.op = "star" -> PStar(G, D, t, e.x, p, <<>>)
    [] e.op = "plus" -> LET r == P(G, D, t, e.x, p) IN
                        IF r.p = 0 THEN Fail ELSE PStar(G, D, t, e.x, r.p, r.ev)

PSeq(G, D, t, xs, i, p, ev) ==
  IF i > Len(xs) THEN [p |-> p, ev |-> ev]
  ELSE LET r == P(G, D, t, xs[i], p) IN
       IF r.p = 0 THEN Fail ELSE PSeq(G, D, t, xs, i + 1, r.p, ev \o r.ev)

PAlt(G, D, t, xs, i, p) ==
  IF i > Len(xs) THEN Fail
  ELSE LET r == P(G, D, t, xs[i], p) IN
       IF r.p # 0 THEN r ELSE PAlt(G, D, t, xs, i + 1, p)

PStar(G, D, t, x, p, ev) ==
  LET r == P(G, D, t, x, p) IN
  IF r.p = 0 \/ r.p = p THEN [p |-> p, ev |-> ev]
  ELSE PStar(G, D, t, x, r.p, ev \o r.ev)

EndPos(t) == 2 * (Len(t) + 1)

\* the parse of a text with the grammar under deviation set D: [p, ev]; accepted iff p = EndPos
Parse(text, D) == LET t == Strip(text) IN P(Gram(D), D, t, Nt("textx_model"), 2)
ParseLang(text) == LET t == Strip(text) IN P(GramLang, {}, t, Nt("textx_model"), 2)

InL(text, D) == IF D = {} THEN ParseLang(text).p = EndPos(Strip(text))
                ELSE Parse(text, D).p = EndPos(Strip(text))

----------------------------------------------------------------------------
\* The documented checks of the grammar compiler on a parsed grammar (C23).
\* t = Strip(text), ev = events of the successful parse, in visitor order.

Tok(t, p) == t[p \div 2]
Inside(x, y) == y.a <= x.a /\ x.b <= y.b
EvOf(ev, r) == {i \in 1..Len(ev) : ev[i].r = r}
NTok(e) == (e.b - e.a) \div 2                   \* number of tokens of an event
ToksOf(t, e) == [j \in 1..NTok(e) |-> t[(e.a \div 2) + j - 1]]
Range(s) == {s[i] : i \in 1..Len(s)}

RuleNames(t, ev) == {Tok(t, ev[i].a) : i \in EvOf(ev, "rule_name")}
Defined(t, ev)   == RuleNames(t, ev) \cup Builtins \cup {"OBJECT"}

\* a phrase that the visitor reduces to a bare rule reference: `A`, `(A)`, `A-`, `((A)-)` ...
BareRef(toks) ==
  /\ \A x \in Range(toks) : x \in {"(", ")", "-"} \/ Kind(x) \in {"word", "bident", "dident"}
  /\ Cardinality({i \in 1..Len(toks) : Kind(toks[i]) \in {"word", "bident", "dident"}}) = 1
BareTarget(toks) == toks[CHOOSE i \in 1..Len(toks) : Kind(toks[i]) \in {"word", "bident", "dident"}]

\* the repeat operator of a repeatable_expr event R (index of the repeat_operator event, or 0)
ExprOf(ev, R) == CHOOSE i \in EvOf(ev, "expression") : ev[i].a = R.a /\ Inside(ev[i], R)
               /\ \A j \in EvOf(ev, "expression") : (ev[j].a = R.a /\ Inside(ev[j], R)) => ev[j].b <= ev[i].b
OpOf(ev, R) == LET E == ev[ExprOf(ev, R)]
                   I == {i \in EvOf(ev, "repeat_operator") : ev[i].a = E.b /\ Inside(ev[i], R)}
               IN IF I = {} THEN 0 ELSE CHOOSE i \in I : TRUE

ParamBase(name, hasval) ==
  IF hasval THEN name
  ELSE CASE name = "noskipws" -> "skipws" [] name = "nows" -> "ws" [] name = "nosplit" -> "split" [] OTHER -> name

\* index of the textx_rule event an event belongs to (rules complete after their parts)
RuleOf(ev, i) == CHOOSE j \in EvOf(ev, "textx_rule") : j >= i /\ \A k \in EvOf(ev, "textx_rule") : k >= i => j <= k

\* outcome of the visitor at one node: "" | "syntax" | "semantic" | "textx" | "unknown"
RECURSIVE ParamErr(_, _, _)
ParamErr(t, ps, k) ==          \* ps: the rule_param events of one rule_params, in order
  IF k > Len(ps) THEN ""
  ELSE LET q == ps[k]
           hasval == NTok(q) > 1
           base == ParamBase(Tok(t, q.a), hasval)
       IN IF base \notin {"skipws", "ws", "split"} THEN "syntax"
          ELSE IF base = "split" /\ (~hasval \/ Tok(t, q.b - 2) \in EmptyStrs) THEN "textx"
          ELSE IF base = "ws" /\ ~hasval THEN "textx"
          ELSE ParamErr(t, ps, k + 1)

SeqOfIdx(ev, I) == LET RECURSIVE F(_, _)
                       F(J, acc) == IF J = {} THEN acc
                                    ELSE LET m == CHOOSE x \in J : \A y \in J : x <= y
                                         IN F(J \ {m}, Append(acc, ev[m]))
                   IN F(I, <<>>)

NodeErr(t, ev, i) ==
  LET e == ev[i] IN
  CASE e.r = "rule_params" ->
         ParamErr(t, SeqOfIdx(ev, {j \in EvOf(ev, "rule_param") : Inside(ev[j], e)}), 1)
    [] e.r = "re_match"  -> IF Tok(t, e.a) \in BadRes THEN "syntax" ELSE ""
    [] e.r = "str_match" -> IF Tok(t, e.a) \in BadEscStrs THEN "syntax" ELSE ""
    [] e.r = "rule_name" -> IF Tok(t, e.a) \in AsgnNames THEN "semantic" ELSE ""    \* reserved prefix
    [] e.r = "obj_ref"   -> IF Tok(t, e.a + 2) \in Builtins THEN "semantic" ELSE ""
    [] e.r = "repeatable_expr" ->
         LET o == OpOf(ev, e) IN
         IF o = 0 THEN ""
         ELSE IF Tok(t, ev[o].a) = "?" /\ NTok(ev[o]) > 1 THEN "syntax"
         ELSE ""
    [] e.r = "assignment" ->
         LET attr == Tok(t, e.a)
             aop  == Tok(t, e.a + 2)
             ru   == RuleOf(ev, i)
             earlier == {j \in EvOf(ev, "assignment") : j < i /\ RuleOf(ev, j) = ru /\ Tok(t, ev[j].a) = attr}
             mods == {j \in EvOf(ev, "repeat_modifiers") : Inside(ev[j], e)}
         IN IF aop = "?=" /\ earlier # {} THEN "semantic"
            ELSE IF aop \in {"=", "?="} /\ mods # {} THEN "syntax"
            ELSE ""
    [] e.r = "textx_rule" ->
         LET bools == {j \in EvOf(ev, "assignment") : Inside(ev[j], e) /\ Tok(t, ev[j].a + 2) = "?="}
             reps  == {j \in EvOf(ev, "repeatable_expr") : Inside(ev[j], e) /\ OpOf(ev, ev[j]) # 0
                                                         /\ Tok(t, ev[OpOf(ev, ev[j])].a) \in {"*", "+"}}
         IN IF \E j \in bools, k \in reps : Inside(ev[j], ev[k]) THEN "semantic"
            ELSE ""
    [] OTHER -> ""

RECURSIVE FirstErr(_, _, _)
FirstErr(t, ev, i) == IF i > Len(ev) THEN ""
                      ELSE LET x == NodeErr(t, ev, i) IN IF x # "" THEN x ELSE FirstErr(t, ev, i + 1)

\* alias rules: a rule without parameters whose body is a bare rule reference
AliasEdges(t, ev) ==
  {<<Tok(t, ev[i].a), BareTarget(ToksOf(t, ev[CHOOSE j \in EvOf(ev, "textx_rule_body") : Inside(ev[j], ev[i])]))>> :
     i \in {i \in EvOf(ev, "textx_rule") :
              /\ {j \in EvOf(ev, "rule_params") : Inside(ev[j], ev[i])} = {}
              /\ BareRef(ToksOf(t, ev[CHOOSE j \in EvOf(ev, "textx_rule_body") : Inside(ev[j], ev[i])]))}}

RECURSIVE Reach(_, _, _)
Reach(E, S, n) == IF n = 0 THEN S ELSE Reach(E, S \cup {e[2] : e \in {e \in E : e[1] \in S}}, n - 1)
HasAliasCycle(t, ev) ==
  LET E == AliasEdges(t, ev) IN
  \E e \in E : e[1] \in Reach(E, {e[2]}, Cardinality(E))

HasImport(ev)    == EvOf(ev, "import_stm") # {}
HasReference(ev) == EvOf(ev, "reference_stm") # {}

\* second pass of the compiler: unresolved rule references, then unresolved classes
Unresolved(t, ev) ==
  \/ \E i \in EvOf(ev, "rule_ref") \cup EvOf(ev, "obj_ref_rule") : Tok(t, ev[i].a) \notin Defined(t, ev)
  \/ \E i \in EvOf(ev, "class_name") : Tok(t, ev[i].a) \notin Defined(t, ev)
UsesReferencedLanguage(t, ev) ==
  HasReference(ev) /\ \E i \in EvOf(ev, "class_name") : Kind(Tok(t, ev[i].a)) = "qname"

\* Facts(text): the parse of the text with the compiler's grammar, shared by the operators below
Facts(text) == LET t == Strip(text)
                   r == P(GramLang, {}, t, Nt("textx_model"), 2)
               IN [t |-> t, ok |-> r.p = EndPos(t), ev |-> IF r.p = EndPos(t) THEN r.ev ELSE <<>>]

\* Class(text): what the grammar compiler is documented to do with the text
\*   "syntax"   TextXSyntaxError (parse error, invalid rule parameter, modifiers on ? = ?=, invalid regex)
\*   "semantic" TextXSemanticError (?= reuse, ?= in repetition, primitive-type link, unknown rule / class)
\*   "textx"    plain TextXError (split parameter without a non-empty string)
\*   "import"   the documented exception: import in a grammar given as a string
\*   "ok"       a metamodel
\*   "unknown"  registry-dependent references (the documentation does not say)
ClassF(f) ==
  IF ~f.ok THEN "syntax"
  ELSE IF HasImport(f.ev) THEN "import"
  ELSE LET x == FirstErr(f.t, f.ev, 1) IN
       IF x # "" THEN x
       ELSE IF UsesReferencedLanguage(f.t, f.ev) THEN "unknown"
       ELSE IF HasAliasCycle(f.t, f.ev) THEN "semantic"      \* a rule defined only by a reference to itself
       ELSE IF Unresolved(f.t, f.ev) THEN "semantic"
       ELSE "ok"
Class(text) == ClassF(Facts(text))

\* C23 deviation clauses: inputs on which the compiler raises something else (named after what leaks)
C23Devs == {"BadRegexTypeError", "BadEscapeUnicodeError", "AliasCycleRecursionError",
            "UnorderedGroupOnRuleRef", "AsgnPrefixedRuleName", "WsParamWithoutValue"}

LeaksF(f, D) ==
  LET t == f.t  ev == f.ev IN
  IF ~f.ok \/ D \cap C23Devs = {} THEN {}
  ELSE (IF "BadRegexTypeError" \in D /\ \E i \in EvOf(ev, "re_match") : Tok(t, ev[i].a) \in BadRes
        THEN {"TypeError"} ELSE {})
   \cup (IF "BadEscapeUnicodeError" \in D /\ \E i \in EvOf(ev, "str_match") : Tok(t, ev[i].a) \in BadEscStrs
        THEN {"UnicodeDecodeError"} ELSE {})
   \cup (IF "AliasCycleRecursionError" \in D /\ HasAliasCycle(t, ev) THEN {"RecursionError"} ELSE {})
   \cup (IF "UnorderedGroupOnRuleRef" \in D
            /\ \E i \in EvOf(ev, "repeatable_expr") :
                  LET o == OpOf(ev, ev[i]) IN
                  o # 0 /\ Tok(t, ev[o].a) = "#" /\ BareRef(ToksOf(t, ev[ExprOf(ev, ev[i])]))
        THEN {"AttributeError"} ELSE {})
   \cup (IF "AsgnPrefixedRuleName" \in D /\ \E i \in EvOf(ev, "rule_name") : Tok(t, ev[i].a) \in AsgnNames
        THEN {"AttributeError"} ELSE {})
   \cup (IF "WsParamWithoutValue" \in D
            /\ \E i \in EvOf(ev, "rule_param") : NTok(ev[i]) = 1 /\ ParamBase(Tok(t, ev[i].a), FALSE) = "ws"
        THEN {"TypeError"} ELSE {})
Leaks(text, D) == IF D \cap C23Devs = {} THEN {} ELSE LeaksF(Facts(text), D)

\* Allowed(text, D): outcome kinds of metamodel_from_str(text) that C23 admits.
\*   "ok" a metamodel, "textx" a TextXError (subclass) with a message,
\*   "AssertionError" only for an import statement in the (string) grammar.
AllowedF(f, D) == {"ok", "textx"} \cup (IF f.ok /\ HasImport(f.ev) THEN {"AssertionError"} ELSE {}) \cup LeaksF(f, D)
Allowed(text, D) == AllowedF(Facts(text), D)

\* production coverage of one text: the non-terminals that matched, and for the
\* token-level choices the token that was taken
CoverageF(f) ==
  {f.ev[i].r : i \in 1..Len(f.ev)}
    \cup {f.ev[i].r \o " " \o Tok(f.t, f.ev[i].a) :
            i \in {i \in 1..Len(f.ev) : f.ev[i].r \in {"repeat_sign", "syntactic_predicate", "assignment_op",
                                                      "obj_ref_sep", "rrel_anchor"}}}
Coverage(text) == CoverageF(Facts(text))
=============================================================================
