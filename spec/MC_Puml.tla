------------------------------- MODULE MC_Puml -------------------------------
(* (M) for the PlantUML recogniser: all short sequences of a few concrete     *)
(* lines; and I->S: exported texts as traces, one line per step.              *)
EXTENDS Puml, IOUtils, Json

LStart == KStart
LClassA == <<99, 108, 97, 115, 115, 32, 65, 32, 32, 123>>
LClassB == <<99, 108, 97, 115, 115, 32, 109, 46, 66, 32, 60, 60, 97, 98, 115, 116, 114, 97, 99, 116, 62, 62, 32, 123>>
LAttr == <<32, 32, 120, 32, 58, 32, 73, 78, 84>>
LRel == <<65, 32, 42, 45, 45, 62, 32, 34, 48, 46, 46, 42, 34, 32, 109, 46, 66, 58, 32, 98, 115>>
Lines == {KStart, LClassA, LClassB, LAttr, KClose, LRel, KLegend, KEndLeg, KEnd, <<>>}
MaxLen == CHOOSE n \in 1..9 : ToString(n) = IOEnv.VT_MAXLEN

VARIABLES ls, c, tid, pos
pvars == <<ls, c, tid, pos>>

MInit == ls = <<>> /\ c = PInit0 /\ tid = 0 /\ pos = 0
MNext == /\ Len(ls) < MaxLen
         /\ \E l \in Lines : ls' = Append(ls, l) /\ c' = PStep(c, l)
         /\ UNCHANGED <<tid, pos>>
MSpec == MInit /\ [][MNext]_pvars

Count(s, l) == Cardinality({k \in 1..Len(s) : s[k] = l})
NonBlank(s) == SelectSeq(s, LAMBDA l : l # <<>>)
\* accepted texts start with @startuml, end with @enduml, and every opened class and legend is closed
AcceptBalanced ==
  PAccepting(c) =>
    LET nb == NonBlank(ls) IN
    /\ nb[1] = KStart /\ nb[Len(nb)] = KEnd
    /\ Count(ls, KEndLeg) <= Count(ls, KLegend) /\ (Count(ls, KLegend) > 0 => Count(ls, KEndLeg) > 0)
    /\ Cardinality(c.names) <= c.classes
    \* (the text of a legend is free: the counts are compared on texts without one)
    /\ (Count(ls, KLegend) = 0 =>
          /\ Count(ls, LClassA) + Count(ls, LClassB) = Count(ls, KClose)
          /\ c.classes = Count(ls, LClassA) + Count(ls, LClassB))
\* inside a class block no other block starts; the state agrees with the open/close counts
StateAgrees == c.err = "" /\ Count(ls, KLegend) = 0 =>
  (c.st = "class" <=> Count(ls, LClassA) + Count(ls, LClassB) = Count(ls, KClose) + 1)
ErrSticky == [][c.err # "" => c'.err = c.err]_pvars
FoldAgrees == c = PRun(PInit0, ls, 1)

\* ---- traces
Traces == IF IOEnv.VT_TRACES = "" THEN <<>> ELSE JsonDeserialize(IOEnv.VT_TRACES)   \* Seq of [id, lines]
TInit == tid \in 1..Len(Traces) /\ pos = 0 /\ c = PInit0 /\ ls = <<>>
TNext == /\ pos < Len(Traces[tid].lines) /\ c.err = ""
         /\ c' = PStep(c, Traces[tid].lines[pos + 1])
         /\ pos' = pos + 1 /\ UNCHANGED <<tid, ls>>
TSpec == TInit /\ [][TNext]_pvars
Emit == (pos' = Len(Traces[tid].lines) \/ c'.err # "") =>
  PrintT("RESULT|" \o ToJson([id |-> Traces[tid].id, accept |-> PAccepting(c') /\ pos' = Len(Traces[tid].lines),
                              err |-> IF c'.err # "" THEN c'.err ELSE IF PAccepting(c') THEN "" ELSE "eof-" \o c'.st,
                              at |-> pos', classes |-> c'.classes, rels |-> c'.rels,
                              names |-> c'.names]))
=============================================================================
