SPECIFICATION TraceSpec
CONSTANTS
  Pool <- ThePool
CONSTRAINT Progress
POSTCONDITION Report
CHECK_DEADLOCK FALSE
