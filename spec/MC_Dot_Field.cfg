SPECIFICATION FSpec
CONSTANTS
  Dev <- DevSet
INVARIANT RecBalanced
INVARIANT EscapeSuffices
PROPERTY RecPrefixClosed
CHECK_DEADLOCK FALSE
