SPECIFICATION Spec
CONSTANTS
  Pool <- ThePool
CONSTRAINT Bound
INVARIANT OutcomeIsFresh
INVARIANT IdentOnlyFromRepo
INVARIANT SharedQuiescent
INVARIANT RepoSane
PROPERTY GrammarParserSticky
PROPERTY RepoMonotone
PROPERTY OthersUntouched
CHECK_DEADLOCK FALSE
