SPECIFICATION Spec
CONSTANTS
  Meta <- CarrierMeta
  Scenarios <- MCScenarios
  Dev <- EnvDev
  Family <- EnvFamily
  MaxObjs <- EnvMaxObjs
  MaxFiles <- EnvMaxFiles
  MaxRefs <- EnvMaxRefs
  MaxPostpone <- EnvMaxPostpone
INVARIANT ScenarioOK
INVARIANT C13_Order
INVARIANT C13_OwnFirst
INVARIANT C13_Once
INVARIANT C13_Replaced
INVARIANT C13_WalkIsBehaviour
CONSTRAINT EmitInit
CHECK_DEADLOCK FALSE
