SPECIFICATION Spec
CONSTANTS
  Pool <- ThePool
ACTION_CONSTRAINT EmitStep
INVARIANT OutcomeIsFresh
INVARIANT SharedQuiescent
CHECK_DEADLOCK FALSE
