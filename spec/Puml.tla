-------------------------------- MODULE Puml --------------------------------
(***************************************************************************)
(* A line-level recogniser of the PlantUML class diagrams written by       *)
(* textx/export.py (PlantUmlRenderer), property C29: `@startuml`, settings, *)
(* balanced `class X { ... }` blocks with attribute lines, relation lines,  *)
(* an optional `legend ... end legend` block, `@enduml`.  One line (a       *)
(* sequence of character codes, without the newline) per step.  Declared    *)
(* classes are counted and their names collected.                           *)
(***************************************************************************)
EXTENDS Naturals, Sequences, FiniteSets, TLC

SP == 32
KStart   == <<64, 115, 116, 97, 114, 116, 117, 109, 108>>
KEnd     == <<64, 101, 110, 100, 117, 109, 108>>
KSet     == <<115, 101, 116, 32>>
KSkin    == <<115, 107, 105, 110, 112, 97, 114, 97, 109, 32>>
KClass   == <<99, 108, 97, 115, 115, 32>>
KLegend  == <<108, 101, 103, 101, 110, 100>>
KEndLeg  == <<101, 110, 100, 32, 108, 101, 103, 101, 110, 100>>
KClose   == <<125>>
OpInh    == <<32, 60, 124, 45, 45, 32>>
OpRef    == <<32, 45, 45, 62, 32>>
OpCont   == <<32, 42, 45, 45, 62, 32>>
AttrSep  == <<32, 58, 32>>

StartsWith(l, p) == Len(l) >= Len(p) /\ SubSeq(l, 1, Len(p)) = p
EndsWith(l, p) == Len(l) >= Len(p) /\ SubSeq(l, Len(l) - Len(p) + 1, Len(l)) = p
Contains(l, p) == \E k \in 1..(Len(l) - Len(p) + 1) : SubSeq(l, k, k + Len(p) - 1) = p
Blank(l) == \A k \in 1..Len(l) : l[k] \in {32, 9, 13}
\* the word after `class `
RECURSIVE WordEnd(_, _)
WordEnd(l, k) == IF k > Len(l) \/ l[k] = SP THEN k - 1 ELSE WordEnd(l, k + 1)
ClassName(l) == SubSeq(l, Len(KClass) + 1, WordEnd(l, Len(KClass) + 1))

PInit0 == [st |-> "start", classes |-> 0, names |-> {}, rels |-> 0, attrs |-> 0, err |-> ""]
PErr(c, e) == IF c.err = "" THEN [c EXCEPT !.err = e] ELSE c

IsClassOpen(l) == StartsWith(l, KClass) /\ EndsWith(l, <<123>>) /\ Len(ClassName(l)) > 0
IsRelation(l) == ~StartsWith(l, <<SP>>) /\ (Contains(l, OpInh) \/ Contains(l, OpRef) \/ Contains(l, OpCont))

PStep(c, l) ==
  IF c.err # "" THEN c ELSE
  CASE c.st = "start" -> IF l = KStart THEN [c EXCEPT !.st = "body"] ELSE PErr(c, "no-startuml")
    [] c.st = "body" ->
         CASE Blank(l) -> c
           [] StartsWith(l, KSet) \/ StartsWith(l, KSkin) -> c
           \* (a class may be declared more than once: PlantUML merges the declarations)
           [] IsClassOpen(l) -> [c EXCEPT !.st = "class", !.classes = @ + 1, !.names = @ \cup {ClassName(l)}]
           [] l = KLegend -> [c EXCEPT !.st = "legend"]
           [] l = KEnd -> [c EXCEPT !.st = "end"]
           [] l = KClose -> PErr(c, "unbalanced-close")
           [] IsRelation(l) -> [c EXCEPT !.rels = @ + 1]
           [] OTHER -> PErr(c, "line")
    [] c.st = "class" ->
         CASE l = KClose -> [c EXCEPT !.st = "body"]
           [] StartsWith(l, <<SP, SP>>) /\ Contains(l, AttrSep) -> [c EXCEPT !.attrs = @ + 1]
           [] Blank(l) -> c
           [] OTHER -> PErr(c, "unclosed-class")
    [] c.st = "legend" -> IF l = KEndLeg THEN [c EXCEPT !.st = "body"]
                          ELSE IF l = KEnd THEN PErr(c, "unclosed-legend") ELSE c
    [] c.st = "end" -> IF Blank(l) THEN c ELSE PErr(c, "trailing")
    [] OTHER -> PErr(c, "state")

PAccepting(c) == c.err = "" /\ c.st = "end"

RECURSIVE PRun(_, _, _)
PRun(c, ls, k) == IF k > Len(ls) THEN c ELSE PRun(PStep(c, ls[k]), ls, k + 1)
PumlOK(ls) == PAccepting(PRun(PInit0, ls, 1))
=============================================================================
