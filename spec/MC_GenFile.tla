---------------------------- MODULE MC_GenFile ----------------------------
EXTENDS GenFile
NoDev        == {}
DevTruncates == {"OpenTruncatesTarget"}
DevNoCleanup == {"NoCleanup"}
=============================================================================
