-------------------------------- MODULE Cli --------------------------------
(***************************************************************************)
(* The `textx generate` and `textx check` commands as a function           *)
(*        case  |->  (exit status, generator calls / error location)       *)
(* (property C30; docs/src/registration.md "textX generators",             *)
(*  docs/src/textx_command.md, DESIGN.md Appendix H).                      *)
(*                                                                         *)
(* Text is a sequence of code points (TLC cannot index strings), so a      *)
(* command-line token such as  --a-b  is  <<45,45,97,45,98>>.              *)
(*                                                                         *)
(* A case is a record                                                      *)
(*   cmd    "generate" | "check"                                           *)
(*   mode   how the language is chosen: "language" (--language NAME),      *)
(*          "grammar" (--grammar FILE), "ext" (deduced per file from the   *)
(*          file name and the registered patterns)                         *)
(*   sel    which language --language / --grammar names (index in langs)   *)
(*   argv   the tokens after the options above (custom arguments, their    *)
(*          values, model files, possibly --overwrite)                     *)
(*   langs  the registered languages, Seq of                               *)
(*            [name, suffix, mparams, decl]                                *)
(*          pattern "*<suffix>"; mparams = names of the model parameters   *)
(*          the language's meta-model defines; decl = [declared, params]   *)
(*          what the language's generator for the target declares,         *)
(*          params = Seq of [name, mandatory]                              *)
(*   anydecl what the generator registered for language "any" declares     *)
(*          (it serves --grammar)                                          *)
(*   files  Seq of [name, lang, status, line, col]: the model files that   *)
(*          exist; lang = the language the content is written in; status   *)
(*          "ok" | "syntax" | "semantic" under that language, (line, col)  *)
(*          = where the offending text is when status # "ok".  Every file  *)
(*          starts with its language's keyword at 1:1, so under any other  *)
(*          language it is a syntax error at 1:1.                          *)
(*                                                                         *)
(* Every operator that depends on a deviation clause takes the deviation   *)
(* set D explicitly, so that one TLC run can evaluate the documented       *)
(* semantics (D = {}) and the listed deviations side by side.              *)
(***************************************************************************)
EXTENDS Naturals, Sequences, FiniteSets, TLC

CONSTANT Dev        \* deviation clauses switched on for model checking ({} = documented)

DeviationNames == {"BareFlagKeepsDashes"}

Dash == 45   Under == 95   DQuote == 34   SQuote == 39

Range(s) == {s[i] : i \in 1..Len(s)}

----------------------------------------------------------------------------
\* Tokens

IsOpt(t)   == Len(t) >= 2 /\ t[1] = Dash /\ t[2] = Dash     \* starts with "--"
RawName(t) == SubSeq(t, 3, Len(t))                           \* the text after "--"

\* dashes turned into underscores
Norm(s) == [i \in 1..Len(s) |-> IF s[i] = Dash THEN Under ELSE s[i]]

IsQuote(ch) == ch = DQuote \/ ch = SQuote
RECURSIVE StripL(_), StripR(_)
StripL(s) == IF s # <<>> /\ IsQuote(s[1]) THEN StripL(Tail(s)) ELSE s
StripR(s) == IF s # <<>> /\ IsQuote(s[Len(s)]) THEN StripR(SubSeq(s, 1, Len(s) - 1)) ELSE s
Strip(s)  == StripR(StripL(s))                               \* surrounding quotes removed

\* --overwrite is an option of the command itself: it is taken out of the
\* argument list wherever it stands and reaches the generator as `overwrite`
TokOverwrite == <<45,45,111,118,101,114,119,114,105,116,101>>
Own(argv)    == SelectSeq(argv, LAMBDA t : t # TokOverwrite)
Overwrite(argv) == \E i \in 1..Len(argv) : argv[i] = TokOverwrite

\* the key a bare flag is passed under
FlagKey(n, D) == IF "BareFlagKeepsDashes" \in D THEN n ELSE Norm(n)

(* The argument scan (Appendix H): a token starting with "--" is a custom  *)
(* argument; followed by a token that does not start with "--" it takes it *)
(* as value (surrounding quotes stripped), otherwise it is the flag True;  *)
(* every other token is a model file.                                      *)
RECURSIVE Scan(_, _, _, _)
Scan(ts, args, files, D) ==
  IF ts = <<>> THEN [args |-> args, files |-> files]
  ELSE LET t == Head(ts)
           r == Tail(ts)
       IN IF IsOpt(t)
          THEN IF r = <<>> \/ IsOpt(Head(r))
               THEN Scan(r, Append(args, [key |-> FlagKey(RawName(t), D), ty |-> "bool", val |-> <<>>]),
                         files, D)
               ELSE Scan(Tail(r), Append(args, [key |-> Norm(RawName(t)), ty |-> "str",
                                                val |-> Strip(Head(r))]), files, D)
          ELSE Scan(r, args, Append(files, t), D)

\* keyword arguments: the last occurrence of a key wins
Kwargs(args) == {args[i] : i \in {j \in 1..Len(args) :
                                    \A k \in (j + 1)..Len(args) : args[k].key # args[j].key}}
Keys(kw) == {a.key : a \in kw}

----------------------------------------------------------------------------
\* Files, languages and declarations

FileNames(c)  == {c.files[i].name : i \in 1..Len(c.files)}
FileRec(c, t) == c.files[CHOOSE i \in 1..Len(c.files) : c.files[i].name = t]

EndsWith(t, suf) == Len(t) >= Len(suf) /\ SubSeq(t, Len(t) - Len(suf) + 1, Len(t)) = suf
IsPrefix(a, b)   == Len(a) <= Len(b) /\ SubSeq(b, 1, Len(a)) = a

\* the languages whose pattern matches the file name (language_for_file wants exactly one)
Matching(c, t) == {k \in 1..Len(c.langs) : EndsWith(t, c.langs[k].suffix)}
\* the language a model file is loaded with: deduced per file, or the one named on the command line
UsedLang(c, t) == IF c.mode = "ext" THEN CHOOSE k \in Matching(c, t) : TRUE ELSE c.sel

\* what loading file t gives in this case
LoadResult(c, t) ==
  LET f == FileRec(c, t) IN
  IF f.lang = UsedLang(c, t) THEN [status |-> f.status, line |-> f.line, col |-> f.col]
                             ELSE [status |-> "syntax", line |-> 1, col |-> 1]
Loads(c, t) == LoadResult(c, t).status = "ok"
Loc(c, t)   == [file |-> t, line |-> LoadResult(c, t).line, col |-> LoadResult(c, t).col]

AnyName == <<97, 110, 121>>                                   \* "any"
\* the generator that serves a model file (t = <<>>: the run without a model), its declaration,
\* and the model parameters defined for the file's meta-model (a meta-model built from a bare
\* grammar file defines none)
GenOf(c, t)   == IF c.mode = "grammar" THEN AnyName
                 ELSE c.langs[IF t = <<>> THEN c.sel ELSE UsedLang(c, t)].name
DeclOf(c, t)  == IF c.mode = "grammar" THEN c.anydecl
                 ELSE c.langs[IF t = <<>> THEN c.sel ELSE UsedLang(c, t)].decl
MParams(c, t) == IF c.mode = "grammar" \/ t = <<>> THEN {} ELSE Range(c.langs[UsedLang(c, t)].mparams)

ParamNames(decl) == {decl.params[i].name : i \in 1..Len(decl.params)}
Missing(decl, kw)    == {p \in Range(decl.params) : p.mandatory /\ p.name \notin Keys(kw)}
Undeclared(decl, kw) == {k \in Keys(kw) : k \notin ParamNames(decl)}
ArgsRejected(decl, kw) == decl.declared /\ (Missing(decl, kw) # {} \/ Undeclared(decl, kw) # {})

----------------------------------------------------------------------------
\* The fragment the documentation is unambiguous about (everything else is not judged)

NameChars == {97, 98, 99, 120, 49, 50, Dash, Under}   \* a b c x 1 2 - _ : cannot spell an option of the command
GoodOpt(t)  == /\ Len(t) >= 3 /\ t[3] # Dash
               /\ \A i \in 3..Len(t) : t[i] \in NameChars
GoodWord(t) == t = <<>> \/ t[1] # Dash
\* A token in value position (directly after a custom --name) may also start with a single
\* dash -- a negative number, a lone "-": the documented rule is "followed by a token that
\* does not start with `--`".  Its characters are restricted to ones click cannot read as
\* a short option of the command itself (-o, -i, -h): digits, '.', a b c x.
DashValueChars == {46} \cup 48..57 \cup {97, 98, 99, 120}
GoodValue(t) == \/ GoodWord(t)
                \/ (t[1] = Dash /\ (Len(t) = 1 \/ t[2] # Dash) /\ \A i \in 2..Len(t) : t[i] \in DashValueChars)
IsValuePos(ts, i) == i > 1 /\ IsOpt(ts[i - 1]) /\ ~IsOpt(ts[i])
LangChars == 97..122 \cup 48..57                              \* a-z 0-9
LangsInFragment(langs, sel) ==
  /\ langs # <<>> /\ sel \in 1..Len(langs)
  /\ \A i \in 1..Len(langs) :
        /\ Len(langs[i].name) >= 3 /\ langs[i].name[1] = 118 /\ langs[i].name[2] = 116   \* carrier languages: vt...
        /\ \A k \in 1..Len(langs[i].name) : langs[i].name[k] \in LangChars
        /\ langs[i].suffix # <<>>
        /\ \A k, m \in 1..Len(langs[i].mparams) :
              /\ langs[i].mparams[k] = Norm(langs[i].mparams[k]) /\ langs[i].mparams[k] # <<>>
              /\ (langs[i].mparams[k] = langs[i].mparams[m] => k = m)
  \* names are told apart by their first differing character, patterns never match the same file twice
  /\ \A i, j \in 1..Len(langs) : i # j =>
        /\ ~IsPrefix(langs[i].name, langs[j].name)
        /\ ~EndsWith(langs[i].suffix, langs[j].suffix)

FilesInFragment(files, nlangs) ==
  /\ \A i, j \in 1..Len(files) : files[i].name = files[j].name => i = j
  /\ \A i \in 1..Len(files) :
        /\ files[i].name # <<>> /\ GoodWord(files[i].name)
        /\ files[i].lang \in 1..nlangs
        /\ files[i].status # "ok" => (files[i].line >= 2 /\ files[i].col >= 1)   \* line 1 is the language keyword
        /\ files[i].status = "semantic" => files[i].col >= 5

ArgvInFragment(cmd, mode, argv, fnames) ==
  /\ argv # <<>>
  /\ IF cmd = "check"
     THEN \A i \in 1..Len(argv) : argv[i] \in fnames
     ELSE LET own == Own(argv)
              s   == Scan(own, <<>>, <<>>, {})
          IN /\ \A i \in 1..Len(own) : IF IsOpt(own[i]) THEN GoodOpt(own[i])
                                       ELSE IF IsValuePos(own, i) THEN GoodValue(own[i])
                                       ELSE GoodWord(own[i])
             /\ \A i \in 1..Len(s.files) : s.files[i] \in fnames        \* existing model files only
             /\ s.files = <<>> => (mode = "language" /\ s.args # <<>>)  \* model-less run: explicit language

\* the tokens of argv that stand for model files
ModelFiles(c) == IF c.cmd = "check" THEN c.argv ELSE Scan(Own(c.argv), <<>>, <<>>, {}).files

DeclInFragment(decl) ==
  /\ decl.declared => decl.params # <<>>
  /\ ~decl.declared => decl.params = <<>>
  /\ \A i, j \in 1..Len(decl.params) :
        /\ decl.params[i].name = Norm(decl.params[i].name)   \* Python identifiers
        /\ (decl.params[i].name = decl.params[j].name => i = j)

InFragment(c) ==
  /\ LangsInFragment(c.langs, c.sel)
  /\ FilesInFragment(c.files, Len(c.langs))
  /\ ArgvInFragment(c.cmd, c.mode, c.argv, FileNames(c))
  \* a deduced language must be deducible: exactly one pattern matches each model file
  /\ c.mode = "ext" => \A i \in 1..Len(ModelFiles(c)) : Cardinality(Matching(c, ModelFiles(c)[i])) = 1
  /\ c.cmd = "generate" => /\ DeclInFragment(c.anydecl)
                            /\ \A i \in 1..Len(c.langs) : DeclInFragment(c.langs[i].decl)

----------------------------------------------------------------------------
\* generate: every model file is loaded, the arguments are validated, the
\* generator is called once per model (once with no model if none is given)

\* one call of a generator: for which model file, which generator (the language it is registered
\* for), the keyword arguments, the overwrite flag, and the model parameters the model was loaded with
Call(file, gen, kw, ow, mp) == [file |-> file, gen |-> gen, kw |-> kw, ow |-> ow, mp |-> mp]

\* Every custom argument goes to the generator; those that are also model parameters of the
\* file's meta-model are, in addition, given to the model when it is loaded (registration.md).
CallFor(c, t, kw, ow) == Call(t, GenOf(c, t), kw, ow, {a \in kw : a.key \in MParams(c, t)})

Generate(c, D) ==
  LET own   == Own(c.argv)
      s     == Scan(own, <<>>, <<>>, D)
      kw    == Kwargs(s.args)
      ow    == Overwrite(c.argv)
      fs    == IF s.files = <<>> THEN << <<>> >> ELSE s.files        \* <<>> : the run without a model
      \* each model is served by its own generator: the declaration is consulted per file
      rej   == {i \in 1..Len(fs) : ArgsRejected(DeclOf(c, fs[i]), kw)}
      bad   == {i \in 1..Len(s.files) : ~Loads(c, s.files[i])}
      why   == (IF bad # {} THEN {"load"} ELSE {})
               \cup (IF \E i \in 1..Len(fs) : DeclOf(c, fs[i]).declared /\ Missing(DeclOf(c, fs[i]), kw) # {}
                     THEN {"missing"} ELSE {})
               \cup (IF \E i \in 1..Len(fs) : DeclOf(c, fs[i]).declared /\ Undeclared(DeclOf(c, fs[i]), kw) # {}
                     THEN {"undeclared"} ELSE {})
      calls == [i \in 1..Len(fs) |-> CallFor(c, fs[i], kw, ow)]
  IN IF why = {}
     THEN [exit |-> 0, calls |-> calls, allowed |-> Range(calls), why |-> {"none"}, locs |-> {}]
     ELSE [exit |-> 1, calls |-> <<>>,
           \* a generator is never called with arguments it rejects, nor for a model that does not load
           allowed |-> {calls[i] : i \in {j \in 1..Len(fs) : j \notin rej /\ j \notin bad}},
           why |-> why,
           locs |-> {Loc(c, s.files[i]) : i \in bad}]

\* check: exit 0 iff every file loads, else 1 and the message locates a failing file
Check(c) ==
  LET bad == {i \in 1..Len(c.argv) : ~Loads(c, c.argv[i])}
  IN IF bad = {}
     THEN [exit |-> 0, calls |-> <<>>, allowed |-> {}, why |-> {"none"}, locs |-> {}]
     ELSE [exit |-> 1, calls |-> <<>>, allowed |-> {}, why |-> {"load"},
           locs |-> {Loc(c, c.argv[i]) : i \in bad}]

ExpectedD(c, D) == IF c.cmd = "check" THEN Check(c) ELSE Generate(c, D)
Expected(c)     == ExpectedD(c, Dev)

----------------------------------------------------------------------------
\* An observation of the real command:
\*   exit   exit status
\*   calls  Seq of [file, gen, kw (Seq of [key, ty, val]), ow, mp (like kw)]  as received by the generators
\*   why    class of the ERROR message: "none" "load" "missing" "undeclared" "other"
\*   locs   Seq of [file, line, col] found in ERROR messages
\*   oks    Seq of file names reported "OK."

ObsCall(x) == Call(x.file, x.gen, Range(x.kw), x.ow, Range(x.mp))
NoDupKeys(x) == \A i, j \in 1..Len(x.kw) : x.kw[i].key = x.kw[j].key => i = j

AcceptsD(c, o, D) ==
  LET e == ExpectedD(c, D) IN
  /\ o.exit = e.exit
  /\ \A i \in 1..Len(o.calls) : NoDupKeys(o.calls[i])
  /\ e.exit = 0 =>
       /\ [i \in 1..Len(o.calls) |-> ObsCall(o.calls[i])] = e.calls
       /\ c.cmd = "check" => Range(o.oks) = Range(c.argv)        \* every file was checked
  /\ e.exit = 1 =>
       /\ o.why \in e.why
       /\ \A i \in 1..Len(o.calls) : ObsCall(o.calls[i]) \in e.allowed
       /\ Range(o.locs) \subseteq e.locs
       /\ (c.cmd = "check" \/ o.why = "load") => Range(o.locs) # {}   \* located error message
       /\ c.cmd = "check" => \A i \in 1..Len(o.oks) : Loads(c, o.oks[i])

----------------------------------------------------------------------------
\* Properties (C30), stated over the argv itself -- not over Scan -- and
\* checked by TLC for every case of the bounded universe (MC_Cli).

OptPositions(argv)  == {i \in 1..Len(argv) : IsOpt(argv[i])}
LastPos(argv, k)    == CHOOSE i \in OptPositions(argv) :
                          /\ Norm(RawName(argv[i])) = k
                          /\ \A j \in OptPositions(argv) : Norm(RawName(argv[j])) = k => j <= i
IsBare(argv, i)     == i = Len(argv) \/ IsOpt(argv[i + 1])
ModelPositions(argv) == {i \in 1..Len(argv) : ~IsOpt(argv[i]) /\ (i = 1 \/ ~IsOpt(argv[i - 1]))}
GivenNames(argv)    == {Norm(RawName(argv[i])) : i \in OptPositions(argv)}

\* In the clauses below  e  is Expected(c)  (passed in so that TLC evaluates it once per case).

\* exit status is 0 or 1
ExitStatus(c, e) == e.exit \in {0, 1}

\* every custom --name reaches the generator as name with dashes turned into
\* underscores, in every call, and nothing else does
NamesNormalised(c, e) ==
  c.cmd = "generate" =>
    LET given == GivenNames(Own(c.argv)) IN
    \A x \in Range(e.calls) : Keys(x.kw) = given

\* a bare flag arrives as True, a valued argument as its value without the surrounding quotes
FlagsAndValues(c, e) ==
  c.cmd = "generate" =>
    LET av    == Own(c.argv)
        given == GivenNames(av)
    IN \A x \in Range(e.calls) : \A a \in x.kw :
         a.key \in given =>
           LET i == LastPos(av, a.key) IN
           IF IsBare(av, i) THEN a.ty = "bool"
           ELSE /\ a.ty = "str" /\ a.val = Strip(av[i + 1])
                /\ (a.val # <<>> => ~IsQuote(a.val[1]) /\ ~IsQuote(a.val[Len(a.val)]))

\* what the property calls unacceptable arguments for the generator serving model file t
\* (t = <<>>: the run without a model), read off the argv
WrongArgs(c, t) ==
  LET given == GivenNames(Own(c.argv))
      decl  == DeclOf(c, t)
  IN decl.declared /\ (\/ \E k \in given : k \notin ParamNames(decl)
                       \/ \E p \in Range(decl.params) : p.mandatory /\ p.name \notin given)

Served(c) == LET av == Own(c.argv)
                 mp == ModelPositions(av)
             IN IF mp = {} THEN {<<>>} ELSE {av[i] : i \in mp}

\* generators that declare their parameters: undeclared or missing mandatory => exit 1, and
\* that generator is not called; this holds for the generator of every model file
DeclaredEnforced(c, e) ==
  c.cmd = "generate" =>
    \A t \in Served(c) :
      /\ WrongArgs(c, t) => (e.exit = 1 /\ e.calls = <<>> /\ \A x \in e.allowed : x.file # t)
      /\ e.exit = 0 => ~WrongArgs(c, t)

\* generate succeeds exactly when every generator accepts the arguments and every model loads,
\* and then each model's generator was called once, in order, with the overwrite flag
GenerateOutcome(c, e) ==
  c.cmd = "generate" =>
    /\ e.exit = 0 <=> \A t \in Served(c) : ~WrongArgs(c, t) /\ (t # <<>> => Loads(c, t))
    /\ e.exit = 0 =>
         /\ Len(e.calls) = IF ModelPositions(Own(c.argv)) = {} THEN 1 ELSE Cardinality(ModelPositions(Own(c.argv)))
         /\ {x.file : x \in Range(e.calls)} = Served(c)
         /\ \A x \in Range(e.calls) : x.ow = (TokOverwrite \in Range(c.argv)) /\ x.gen = GenOf(c, x.file)

\* a custom argument that is also a model parameter of the model's language still reaches the
\* generator (NamesNormalised) and is, in addition, what the model was loaded with
ModelParamsPassed(c, e) ==
  c.cmd = "generate" =>
    \A x \in Range(e.calls) :
      /\ x.mp \subseteq x.kw
      /\ Keys(x.mp) = GivenNames(Own(c.argv)) \cap MParams(c, x.file)

\* check: 0 iff every model loads with the language that applies to it (the one named, or the
\* one whose pattern matches its name); otherwise 1 with the location of a failing file
CheckOutcome(c, e) ==
  c.cmd = "check" =>
    /\ e.exit = 0 <=> \A i \in 1..Len(c.argv) :
                        LET f == FileRec(c, c.argv[i])
                            L == IF c.mode = "ext" THEN CHOOSE k \in 1..Len(c.langs) : EndsWith(f.name, c.langs[k].suffix)
                                 ELSE c.sel
                        IN f.lang = L /\ f.status = "ok"
    /\ e.exit = 1 =>
         /\ e.locs # {}
         /\ \A l \in e.locs :
               /\ ~Loads(c, l.file)
               /\ IF FileRec(c, l.file).lang = UsedLang(c, l.file)
                  THEN l.line = FileRec(c, l.file).line /\ l.col = FileRec(c, l.file).col
                  ELSE l.line = 1 /\ l.col = 1
=============================================================================
