-------------------------------- MODULE Cli --------------------------------
(***************************************************************************)
(* The `textx generate` and `textx check` commands as a function           *)
(*        case  |->  (exit status, generator calls / error location)       *)
(* (property C30; docs/src/registration.md "textX generators",             *)
(*  docs/src/textx_command.md, DESIGN.md Appendix H).                      *)
(*                                                                         *)
(* Text is a sequence of code points (TLC cannot index strings), so a      *)
(* command-line token such as  --a-b  is  <<45,45,97,45,98>>.              *)
(*                                                                         *)
(* A case is a record                                                      *)
(*   cmd   "generate" | "check"                                            *)
(*   mode  how the language is chosen: "language" (--language NAME),       *)
(*         "grammar" (--grammar FILE), "ext" (deduced from the file name)  *)
(*   argv  the tokens after the options above (custom arguments, their     *)
(*         values, model files, possibly --overwrite)                      *)
(*   decl  [declared, params]  what the generator declares:                *)
(*         params = Seq of [name, mandatory]                               *)
(*   files Seq of [name, status, line, col]: the model files that exist;   *)
(*         status "ok" | "syntax" | "semantic", (line, col) = where the    *)
(*         offending text is when status # "ok"                            *)
(*                                                                         *)
(* Every operator that depends on a deviation clause takes the deviation   *)
(* set D explicitly, so that one TLC run can evaluate the documented       *)
(* semantics (D = {}) and the listed deviations side by side.              *)
(***************************************************************************)
EXTENDS Naturals, Sequences, FiniteSets, TLC

CONSTANT Dev        \* deviation clauses switched on for model checking ({} = documented)

DeviationNames == {"BareFlagKeepsDashes"}

Dash == 45   Under == 95   DQuote == 34   SQuote == 39

Range(s) == {s[i] : i \in 1..Len(s)}

----------------------------------------------------------------------------
\* Tokens

IsOpt(t)   == Len(t) >= 2 /\ t[1] = Dash /\ t[2] = Dash     \* starts with "--"
RawName(t) == SubSeq(t, 3, Len(t))                           \* the text after "--"

\* dashes turned into underscores
Norm(s) == [i \in 1..Len(s) |-> IF s[i] = Dash THEN Under ELSE s[i]]

IsQuote(ch) == ch = DQuote \/ ch = SQuote
RECURSIVE StripL(_), StripR(_)
StripL(s) == IF s # <<>> /\ IsQuote(s[1]) THEN StripL(Tail(s)) ELSE s
StripR(s) == IF s # <<>> /\ IsQuote(s[Len(s)]) THEN StripR(SubSeq(s, 1, Len(s) - 1)) ELSE s
Strip(s)  == StripR(StripL(s))                               \* surrounding quotes removed

\* --overwrite is an option of the command itself: it is taken out of the
\* argument list wherever it stands and reaches the generator as `overwrite`
TokOverwrite == <<45,45,111,118,101,114,119,114,105,116,101>>
Own(argv)    == SelectSeq(argv, LAMBDA t : t # TokOverwrite)
Overwrite(argv) == \E i \in 1..Len(argv) : argv[i] = TokOverwrite

\* the key a bare flag is passed under
FlagKey(n, D) == IF "BareFlagKeepsDashes" \in D THEN n ELSE Norm(n)

(* The argument scan (Appendix H): a token starting with "--" is a custom  *)
(* argument; followed by a token that does not start with "--" it takes it *)
(* as value (surrounding quotes stripped), otherwise it is the flag True;  *)
(* every other token is a model file.                                      *)
RECURSIVE Scan(_, _, _, _)
Scan(ts, args, files, D) ==
  IF ts = <<>> THEN [args |-> args, files |-> files]
  ELSE LET t == Head(ts)
           r == Tail(ts)
       IN IF IsOpt(t)
          THEN IF r = <<>> \/ IsOpt(Head(r))
               THEN Scan(r, Append(args, [key |-> FlagKey(RawName(t), D), ty |-> "bool", val |-> <<>>]),
                         files, D)
               ELSE Scan(Tail(r), Append(args, [key |-> Norm(RawName(t)), ty |-> "str",
                                                val |-> Strip(Head(r))]), files, D)
          ELSE Scan(r, args, Append(files, t), D)

\* keyword arguments: the last occurrence of a key wins
Kwargs(args) == {args[i] : i \in {j \in 1..Len(args) :
                                    \A k \in (j + 1)..Len(args) : args[k].key # args[j].key}}
Keys(kw) == {a.key : a \in kw}

----------------------------------------------------------------------------
\* Files and declarations

FileNames(c)  == {c.files[i].name : i \in 1..Len(c.files)}
FileRec(c, t) == c.files[CHOOSE i \in 1..Len(c.files) : c.files[i].name = t]
Loads(c, t)   == FileRec(c, t).status = "ok"
Loc(c, t)     == [file |-> t, line |-> FileRec(c, t).line, col |-> FileRec(c, t).col]

ParamNames(decl) == {decl.params[i].name : i \in 1..Len(decl.params)}
Missing(decl, kw)    == {p \in Range(decl.params) : p.mandatory /\ p.name \notin Keys(kw)}
Undeclared(decl, kw) == {k \in Keys(kw) : k \notin ParamNames(decl)}
ArgsRejected(decl, kw) == decl.declared /\ (Missing(decl, kw) # {} \/ Undeclared(decl, kw) # {})

----------------------------------------------------------------------------
\* The fragment the documentation is unambiguous about (everything else is not judged)

NameChars == {97, 98, 99, 120, 49, 50, Dash, Under}   \* a b c x 1 2 - _ : cannot spell an option of the command
GoodOpt(t)  == /\ Len(t) >= 3 /\ t[3] # Dash
               /\ \A i \in 3..Len(t) : t[i] \in NameChars
GoodWord(t) == t = <<>> \/ t[1] # Dash
\* A token in value position (directly after a custom --name) may also start with a single
\* dash -- a negative number, a lone "-": the documented rule is "followed by a token that
\* does not start with `--`".  Its characters are restricted to ones click cannot read as
\* a short option of the command itself (-o, -i, -h): digits, '.', a b c x.
DashValueChars == {46} \cup 48..57 \cup {97, 98, 99, 120}
GoodValue(t) == \/ GoodWord(t)
                \/ (t[1] = Dash /\ (Len(t) = 1 \/ t[2] # Dash) /\ \A i \in 2..Len(t) : t[i] \in DashValueChars)
IsValuePos(ts, i) == i > 1 /\ IsOpt(ts[i - 1]) /\ ~IsOpt(ts[i])
\* model files carry the extension of the carrier language (needed when the language is deduced)
FileExt    == <<46, 118, 116, 109>>                          \* .vtm
HasExt(t)  == Len(t) > Len(FileExt) /\ SubSeq(t, Len(t) - Len(FileExt) + 1, Len(t)) = FileExt

FilesInFragment(files) ==
  /\ \A i, j \in 1..Len(files) : files[i].name = files[j].name => i = j
  /\ \A i \in 1..Len(files) : HasExt(files[i].name) /\ GoodWord(files[i].name)

ArgvInFragment(cmd, mode, argv, fnames) ==
  /\ argv # <<>>
  /\ IF cmd = "check"
     THEN \A i \in 1..Len(argv) : argv[i] \in fnames
     ELSE LET own == Own(argv)
              s   == Scan(own, <<>>, <<>>, {})
          IN /\ \A i \in 1..Len(own) : IF IsOpt(own[i]) THEN GoodOpt(own[i])
                                       ELSE IF IsValuePos(own, i) THEN GoodValue(own[i])
                                       ELSE GoodWord(own[i])
             /\ \A i \in 1..Len(s.files) : s.files[i] \in fnames        \* existing model files only
             /\ s.files = <<>> => (mode = "language" /\ s.args # <<>>)  \* model-less run: explicit language

DeclInFragment(decl) ==
  /\ decl.declared => decl.params # <<>>
  /\ ~decl.declared => decl.params = <<>>
  /\ \A i, j \in 1..Len(decl.params) :
        /\ decl.params[i].name = Norm(decl.params[i].name)   \* Python identifiers
        /\ (decl.params[i].name = decl.params[j].name => i = j)

InFragment(c) ==
  /\ FilesInFragment(c.files)
  /\ ArgvInFragment(c.cmd, c.mode, c.argv, FileNames(c))
  /\ c.cmd = "generate" => DeclInFragment(c.decl)

----------------------------------------------------------------------------
\* generate: every model file is loaded, the arguments are validated, the
\* generator is called once per model (once with no model if none is given)

Call(file, kw, ow) == [file |-> file, kw |-> kw, ow |-> ow]

Generate(c, D) ==
  LET own   == Own(c.argv)
      s     == Scan(own, <<>>, <<>>, D)
      kw    == Kwargs(s.args)
      ow    == Overwrite(c.argv)
      rej   == ArgsRejected(c.decl, kw)
      bad   == {i \in 1..Len(s.files) : ~Loads(c, s.files[i])}
      why   == (IF bad # {} THEN {"load"} ELSE {})
               \cup (IF c.decl.declared /\ Missing(c.decl, kw) # {} THEN {"missing"} ELSE {})
               \cup (IF c.decl.declared /\ Undeclared(c.decl, kw) # {} THEN {"undeclared"} ELSE {})
      calls == IF s.files = <<>> THEN << Call(<<>>, kw, ow) >>
               ELSE [i \in 1..Len(s.files) |-> Call(s.files[i], kw, ow)]
  IN IF why = {}
     THEN [exit |-> 0, calls |-> calls, allowed |-> Range(calls), why |-> {"none"}, locs |-> {}]
     ELSE [exit |-> 1, calls |-> <<>>,
           \* a generator is never called with rejected arguments, nor for a model that does not load
           allowed |-> IF rej THEN {}
                       ELSE {Call(s.files[i], kw, ow) : i \in {j \in 1..Len(s.files) : Loads(c, s.files[j])}},
           why |-> why,
           locs |-> {Loc(c, s.files[i]) : i \in bad}]

\* check: exit 0 iff every file loads, else 1 and the message locates a failing file
Check(c) ==
  LET bad == {i \in 1..Len(c.argv) : ~Loads(c, c.argv[i])}
  IN IF bad = {}
     THEN [exit |-> 0, calls |-> <<>>, allowed |-> {}, why |-> {"none"}, locs |-> {}]
     ELSE [exit |-> 1, calls |-> <<>>, allowed |-> {}, why |-> {"load"},
           locs |-> {Loc(c, c.argv[i]) : i \in bad}]

ExpectedD(c, D) == IF c.cmd = "check" THEN Check(c) ELSE Generate(c, D)
Expected(c)     == ExpectedD(c, Dev)

----------------------------------------------------------------------------
\* An observation of the real command:
\*   exit   exit status
\*   calls  Seq of [file, kw (Seq of [key, ty, val]), ow]  as received by the generator
\*   why    class of the ERROR message: "none" "load" "missing" "undeclared" "other"
\*   locs   Seq of [file, line, col] found in ERROR messages
\*   oks    Seq of file names reported "OK."

ObsCall(x) == Call(x.file, Range(x.kw), x.ow)
NoDupKeys(x) == \A i, j \in 1..Len(x.kw) : x.kw[i].key = x.kw[j].key => i = j

AcceptsD(c, o, D) ==
  LET e == ExpectedD(c, D) IN
  /\ o.exit = e.exit
  /\ \A i \in 1..Len(o.calls) : NoDupKeys(o.calls[i])
  /\ e.exit = 0 =>
       /\ [i \in 1..Len(o.calls) |-> ObsCall(o.calls[i])] = e.calls
       /\ c.cmd = "check" => Range(o.oks) = Range(c.argv)        \* every file was checked
  /\ e.exit = 1 =>
       /\ o.why \in e.why
       /\ \A i \in 1..Len(o.calls) : ObsCall(o.calls[i]) \in e.allowed
       /\ Range(o.locs) \subseteq e.locs
       /\ (c.cmd = "check" \/ o.why = "load") => Range(o.locs) # {}   \* located error message
       /\ c.cmd = "check" => \A i \in 1..Len(o.oks) : Loads(c, o.oks[i])

----------------------------------------------------------------------------
\* Properties (C30), stated over the argv itself -- not over Scan -- and
\* checked by TLC for every case of the bounded universe (MC_Cli).

OptPositions(argv)  == {i \in 1..Len(argv) : IsOpt(argv[i])}
LastPos(argv, k)    == CHOOSE i \in OptPositions(argv) :
                          /\ Norm(RawName(argv[i])) = k
                          /\ \A j \in OptPositions(argv) : Norm(RawName(argv[j])) = k => j <= i
IsBare(argv, i)     == i = Len(argv) \/ IsOpt(argv[i + 1])
ModelPositions(argv) == {i \in 1..Len(argv) : ~IsOpt(argv[i]) /\ (i = 1 \/ ~IsOpt(argv[i - 1]))}
GivenNames(argv)    == {Norm(RawName(argv[i])) : i \in OptPositions(argv)}

\* In the clauses below  e  is Expected(c)  (passed in so that TLC evaluates it once per case).

\* exit status is 0 or 1
ExitStatus(c, e) == e.exit \in {0, 1}

\* every custom --name reaches the generator as name with dashes turned into
\* underscores, in every call, and nothing else does
NamesNormalised(c, e) ==
  c.cmd = "generate" =>
    LET given == GivenNames(Own(c.argv)) IN
    \A x \in Range(e.calls) : Keys(x.kw) = given

\* a bare flag arrives as True, a valued argument as its value without the surrounding quotes
FlagsAndValues(c, e) ==
  c.cmd = "generate" =>
    LET av    == Own(c.argv)
        given == GivenNames(av)
    IN \A x \in Range(e.calls) : \A a \in x.kw :
         a.key \in given =>
           LET i == LastPos(av, a.key) IN
           IF IsBare(av, i) THEN a.ty = "bool"
           ELSE /\ a.ty = "str" /\ a.val = Strip(av[i + 1])
                /\ (a.val # <<>> => ~IsQuote(a.val[1]) /\ ~IsQuote(a.val[Len(a.val)]))

\* what the property calls unacceptable arguments, read off the argv
WrongArgs(c) ==
  LET given == GivenNames(Own(c.argv)) IN
  c.decl.declared /\ (\/ \E k \in given : k \notin ParamNames(c.decl)
                      \/ \E p \in Range(c.decl.params) : p.mandatory /\ p.name \notin given)

\* generators that declare their parameters: undeclared or missing mandatory => exit 1, no call
DeclaredEnforced(c, e) ==
  (c.cmd = "generate" /\ c.decl.declared) =>
    LET wrong == WrongArgs(c) IN
    /\ wrong => (e.exit = 1 /\ e.calls = <<>> /\ e.allowed = {})
    /\ e.exit = 0 => ~wrong

\* generate succeeds exactly when the arguments are acceptable and every model loads,
\* and then the generator was called once per model file, in order
GenerateOutcome(c, e) ==
  c.cmd = "generate" =>
    LET av == Own(c.argv)
        mp == ModelPositions(av)
    IN /\ e.exit = 0 <=> (~WrongArgs(c) /\ \A i \in mp : Loads(c, av[i]))
       /\ e.exit = 0 =>
            /\ Len(e.calls) = IF mp = {} THEN 1 ELSE Cardinality(mp)
            /\ {x.file : x \in Range(e.calls)} = IF mp = {} THEN {<<>>} ELSE {av[i] : i \in mp}
            /\ \A x \in Range(e.calls) : x.ow = (TokOverwrite \in Range(c.argv))

\* check: 0 iff every model loads; otherwise 1 with the location of a failing file
CheckOutcome(c, e) ==
  c.cmd = "check" =>
    /\ e.exit = 0 <=> \A i \in 1..Len(c.argv) : Loads(c, c.argv[i])
    /\ e.exit = 1 =>
         /\ e.locs # {}
         /\ \A l \in e.locs :
               ~Loads(c, l.file) /\ l.line = FileRec(c, l.file).line /\ l.col = FileRec(c, l.file).col
=============================================================================
