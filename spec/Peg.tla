-------------------------------- MODULE Peg --------------------------------
(***************************************************************************)
(* The documented PEG semantics of textX grammars, meta-model inference     *)
(* and model construction (properties C01 C02 C03 C06 C19 C20 C21 C22).    *)
(*                                                                         *)
(* A case is an environment E = [g, cfg, D, s]:                            *)
(*   g   grammar: [rules |-> Seq([name, skipws, ws, body])], rule 1 is the *)
(*       root, a rule called "Comment" is the comment rule;                *)
(*   cfg metamodel options [skipws, ws, icase, autokwd, memo, regroup,     *)
(*       autoinit];                                                        *)
(*   D   the set of named deviation clauses switched on ({} = documented   *)
(*       semantics; every clause describes what the implementation is      *)
(*       known to do instead, see known_findings.json);                    *)
(*   s   the input text as a sequence of character codes.                  *)
(*                                                                         *)
(* Expressions (field k):                                                  *)
(*   str(lit) re(pre,set,min,post,grp) ref(name) seq(es) alt(es) opt(e)    *)
(*   star/plus(e,sep,eol) unord(es,sep,eol) and(e) not(e)                  *)
(*   asg(attr,op,rhs,sep,eol); every expression has a suppress flag `sup`  *)
(*   and a unique id `eid` (identity of the parsing expression, used only  *)
(*   by the memoization clauses).                                          *)
(*                                                                         *)
(* The interpreter threads st = [far, memo, cpos]: the furthest position   *)
(* at which a terminal failed (the reported syntax-error position), the    *)
(* packrat table and the table of positions after comments.  With D = {}   *)
(* the tables are keyed by (expression, position, context) -- semantically *)
(* transparent, which is property C19 stated on the module (checked by     *)
(* TLC in MC_Peg) -- and the deviations key them by position only.         *)
(***************************************************************************)
EXTENDS Naturals, Integers, Sequences, FiniteSets, TLC

SP == 32  NL == 10  TAB == 9  CR == 13
DefaultWs == {SP, NL, TAB, CR}
Digit  == 48..57
Upper  == 65..90
LowerC == 97..122
Letter == Upper \cup LowerC \cup {95, 233}          \* ASCII letters, '_', and one non-ASCII letter
Word   == Letter \cup Digit
BaseNames == {"ID", "INT", "BOOL", "STRING"}

Max(a, b) == IF a > b THEN a ELSE b
ToLower(c) == IF c \in Upper THEN c + 32 ELSE c
LowerSeq(t) == [i \in 1..Len(t) |-> ToLower(t[i])]
SeqSet(q) == {q[i] : i \in 1..Len(q)}

----------------------------------------------------------------------------
\* results and parse-tree nodes
Ok(p, ns, st) == [ok |-> TRUE, pos |-> p, ns |-> ns, st |-> st]
FailAt(st, fp) == [ok |-> FALSE, pos |-> 0, ns |-> <<>>, st |-> [st EXCEPT !.far = Max(@, fp)]]
FailQ(st) == [ok |-> FALSE, pos |-> 0, ns |-> <<>>, st |-> st]

\* conv: how the leaf converts ("str" "id" "int" "bool" "string"); grp: regex group span or <<0,0>>
Leaf(txt, s, e, conv, sep) == [t |-> "leaf", txt |-> txt, full |-> txt, s |-> s, e |-> e, conv |-> conv, sep |-> sep, kw |-> FALSE]
RuleN(name, kids) == [t |-> "rule", name |-> name, kids |-> kids]
AsgN(attr, op, kids) == [t |-> "asg", attr |-> attr, op |-> op, kids |-> kids]

St0 == [far |-> 0, memo |-> <<>>, cpos |-> <<>>]

RuleIdx(g, n) == CHOOSE i \in 1..Len(g.rules) : g.rules[i].name = n
Rule(g, n) == g.rules[RuleIdx(g, n)]
HasRule(g, n) == \E i \in 1..Len(g.rules) : g.rules[i].name = n

----------------------------------------------------------------------------
\* whitespace
EffWs(ctx) == IF ctx.eol THEN ctx.ws \ {NL, CR} ELSE ctx.ws
RECURSIVE RunOf(_,_,_)
RunOf(s, p, S) == IF p <= Len(s) /\ s[p] \in S THEN RunOf(s, p+1, S) ELSE p
SkipWs(s, p, ctx) == IF ctx.skipws THEN RunOf(s, p, EffWs(ctx)) ELSE p

StartsWith(s, p, lit, ic) ==
  /\ p + Len(lit) - 1 <= Len(s)
  /\ \A i \in 1..Len(lit) : IF ic THEN ToLower(s[p+i-1]) = ToLower(lit[i]) ELSE s[p+i-1] = lit[i]

\* a literal that looks like an identifier: full match of [^\d\W]\w*
KeywordLike(lit) == lit # <<>> /\ lit[1] \in Letter /\ \A i \in 1..Len(lit) : lit[i] \in Word

----------------------------------------------------------------------------
\* terminals.  Each returns [ok, end, leaves]
TOk(e, lv) == [ok |-> TRUE, end |-> e, lv |-> lv]
TNo == [ok |-> FALSE, end |-> 0, lv |-> <<>>]

InSet(c, S, ic) == IF ic THEN \E d \in S : ToLower(d) = ToLower(c) ELSE c \in S
RECURSIVE RunOfIc(_,_,_,_)
RunOfIc(s, p, S, ic) == IF p <= Len(s) /\ InSet(s[p], S, ic) THEN RunOfIc(s, p+1, S, ic) ELSE p

\* string match; with autokwd a keyword-like literal needs a word boundary after it
MatchStr(E, e, q) ==
  LET s == E.s  lit == e.lit  ic == E.cfg.icase
      n == q + Len(lit)
  IN IF StartsWith(s, q, lit, ic)
        /\ (E.cfg.autokwd /\ KeywordLike(lit) => ~(n <= Len(s) /\ s[n] \in Word))
     THEN \* the value is the literal as written in the grammar; a keyword matched through autokwd is a regex
          \* match and keeps the text as written in the input (they differ only under ignore_case)
          LET txt == IF E.cfg.autokwd /\ KeywordLike(lit) THEN SubSeq(s, q, n-1) ELSE lit IN
          TOk(n, <<[Leaf(txt, q, n, "str", FALSE) EXCEPT !.kw = KeywordLike(lit)]>>)
     ELSE TNo

\* regex of the shape  pre [set]{min,} post  with optionally the class repetition as group 1
\* (post never starts with a character of set, so greedy matching needs no backtracking)
MatchRe(E, e, q) ==
  LET s == E.s  ic == E.cfg.icase
      S == SeqSet(e.set)
      b == q + Len(e.pre)
      z == IF StartsWith(s, q, e.pre, ic) THEN RunOfIc(s, b, S, ic) ELSE b
      n == z + Len(e.post)
  IN IF StartsWith(s, q, e.pre, ic) /\ z - b >= e.min /\ StartsWith(s, z, e.post, ic)
     THEN (IF n = q THEN TOk(q, <<>>)                     \* an empty regex match yields no node
           ELSE LET txt == IF E.cfg.regroup /\ e.grp THEN SubSeq(s, b, z-1) ELSE SubSeq(s, q, n-1)
                IN TOk(n, <<[Leaf(txt, q, n, "str", FALSE) EXCEPT !.full = SubSeq(s, q, n-1)]>>))
     ELSE TNo

\* base types (C04 treats their conversions in depth; here: ID, INT, BOOL, STRING)
BoolWords == << <<84,114,117,101>>, <<116,114,117,101>>, <<70,97,108,115,101>>, <<102,97,108,115,101>>, <<48>>, <<49>> >>
RECURSIVE StrEnd(_,_,_)
\* position just after the closing quote qc of a string whose body starts at p, or 0
StrEnd(s, p, qc) ==
  IF p > Len(s) THEN 0
  ELSE IF s[p] = 92 /\ p + 1 <= Len(s) /\ s[p+1] = qc THEN StrEnd(s, p+2, qc)
  ELSE IF s[p] = qc THEN p + 1
  ELSE StrEnd(s, p+1, qc)

MatchBase(E, name, q) ==
  LET s == E.s IN
  CASE name = "ID" ->
         IF q <= Len(s) /\ s[q] \in Letter
         THEN LET e == RunOf(s, q, Word) IN TOk(e, <<Leaf(SubSeq(s, q, e-1), q, e, "id", FALSE)>>)
         ELSE TNo
    [] name = "INT" ->
         LET d == IF q <= Len(s) /\ s[q] \in {43, 45} THEN q + 1 ELSE q
             e == RunOf(s, d, Digit)
         IN IF e > d THEN TOk(e, <<Leaf(SubSeq(s, q, e-1), q, e, "int", FALSE)>>) ELSE TNo
    [] name = "BOOL" ->
         LET I == {i \in 1..Len(BoolWords) :
                      /\ StartsWith(s, q, BoolWords[i], FALSE)
                      /\ LET n == q + Len(BoolWords[i]) IN ~(n <= Len(s) /\ s[n] \in Word)}
         IN IF I = {} THEN TNo
            ELSE LET i == CHOOSE i \in I : \A j \in I : i <= j
                     n == q + Len(BoolWords[i])
                 IN TOk(n, <<Leaf(BoolWords[i], q, n, "bool", FALSE)>>)
    [] name = "STRING" ->
         IF q <= Len(s) /\ s[q] \in {34, 39}
         THEN LET e == StrEnd(s, q+1, s[q]) IN
              IF e = 0 THEN TNo ELSE TOk(e, <<Leaf(SubSeq(s, q, e-1), q, e, "string", FALSE)>>)
         ELSE TNo

----------------------------------------------------------------------------
\* the interpreter
RECURSIVE Parse(_,_,_,_,_)          \* (E, e, p, ctx, st)
RECURSIVE ParseRaw(_,_,_,_,_)
RECURSIVE ParseRule(_,_,_,_,_)      \* (E, name, p, ctx, st)
RECURSIVE ParseSeq(_,_,_,_,_,_,_)   \* (E, es, i, p, ctx, st, acc)
RECURSIVE ParseAlt(_,_,_,_,_,_)     \* (E, es, i, p, ctx, st)
RECURSIVE ParseRep(_,_,_,_,_,_,_,_) \* (E, e, sep, p, ctx, st, acc, first)
RECURSIVE ParseUnord(_,_,_,_,_,_,_,_)
RECURSIVE FirstMatching(_,_,_,_,_,_)
RECURSIVE AllEmpty(_,_,_,_,_,_)
RECURSIVE SkipComments(_,_,_,_)     \* (E, q, ctx, st) -> [pos, st]

MemoMode(E) == IF ~E.cfg.memo THEN "none"
               ELSE IF "MemoKeyIgnoresCtx" \in E.D THEN "pos" ELSE "ctx"

\* whitespace, then comments (each followed by whitespace when skipping is on)
SkipComments(E, q, ctx, st) ==
  IF ~HasRule(E.g, "Comment") THEN [pos |-> q, st |-> st]
  ELSE LET r == ParseRule(E, "Comment", q, [ctx EXCEPT !.incomment = TRUE], st) IN
       IF r.ok /\ r.pos > q
       THEN SkipComments(E, SkipWs(E.s, r.pos, ctx), ctx, r.st)
       ELSE [pos |-> q, st |-> [r.st EXCEPT !.far = st.far]]   \* failures inside comments are not reported

CposGet(st, q) == LET I == {i \in 1..Len(st.cpos) : st.cpos[i][1] = q} IN
                  IF I = {} THEN 0 ELSE st.cpos[CHOOSE i \in I : \A j \in I : i >= j][2]

\* position where a terminal is tried: after whitespace and comments
Pre(E, p, ctx, st) ==
  LET q == SkipWs(E.s, p, ctx) IN
  IF ctx.incomment THEN [pos |-> q, st |-> st]
  ELSE IF "CommentCacheIgnoresCtx" \in E.D
       THEN (IF ctx.skipws /\ CposGet(st, q) # 0
             THEN [pos |-> CposGet(st, q), st |-> st]
             ELSE LET r == SkipComments(E, q, ctx, st) IN
                  [pos |-> r.pos, st |-> [r.st EXCEPT !.cpos = Append(@, <<q, r.pos>>)]])
       ELSE SkipComments(E, q, ctx, st)

Term(E, e, p, ctx, st, m(_)) ==
  LET pr == Pre(E, p, ctx, st)
      r  == m(pr.pos)
  IN IF r.ok THEN Ok(r.end, IF e.sup THEN <<>> ELSE r.lv, pr.st)
     ELSE IF ctx.incomment THEN FailQ(pr.st) ELSE FailAt(pr.st, pr.pos)

DropSup(e, r) == IF r.ok /\ e.sup THEN [r EXCEPT !.ns = <<>>] ELSE r

WithEol(ctx, e) == [ctx EXCEPT !.eol = ctx.eol \/ e.eol]

MemoKinds == {"seq", "alt", "opt", "star", "plus", "unord", "and", "not", "asg"}

MemoFind(E, st, eid, p, ctx) ==
  LET md == MemoMode(E)
      I  == {i \in 1..Len(st.memo) : /\ st.memo[i].eid = eid /\ st.memo[i].pos = p
                                     /\ (md = "pos" \/ st.memo[i].ctx = ctx)}
  IN IF I = {} THEN 0 ELSE CHOOSE i \in I : \A j \in I : i >= j

\* memoised evaluation of the expression with identity eid
Memo(E, eid, p, ctx, st, body(_)) ==
  IF MemoMode(E) = "none" \/ ctx.incomment THEN body(st)
  ELSE LET i == MemoFind(E, st, eid, p, ctx) IN
       IF i # 0
       THEN LET c == st.memo[i] IN
            IF c.ok THEN Ok(c.npos, c.ns, st) ELSE FailQ(st)
       ELSE LET r == body(st)
                en == [eid |-> eid, pos |-> p, ctx |-> ctx, ok |-> r.ok, npos |-> r.pos, ns |-> r.ns]
            IN [r EXCEPT !.st = [r.st EXCEPT !.memo = Append(@, en)]]

Parse(E, e, p, ctx, st) ==
  IF e.k \in MemoKinds
  THEN Memo(E, e.eid, p, ctx, st, LAMBDA t : ParseRaw(E, e, p, ctx, t))
  ELSE ParseRaw(E, e, p, ctx, st)

ParseRaw(E, e, p, ctx, st) ==
  CASE e.k = "str" -> Term(E, e, p, ctx, st, LAMBDA q : MatchStr(E, e, q))
    [] e.k = "re"  -> Term(E, e, p, ctx, st, LAMBDA q : MatchRe(E, e, q))
    [] e.k = "ref" ->
         IF e.name \in BaseNames
         THEN Term(E, e, p, ctx, st, LAMBDA q : MatchBase(E, e.name, q))
         ELSE IF e.sup
              THEN Memo(E, e.eid, p, ctx, st, LAMBDA t : DropSup(e, ParseRule(E, e.name, p, ctx, t)))
              ELSE ParseRule(E, e.name, p, ctx, st)
    [] e.k = "seq" -> DropSup(e, ParseSeq(E, e.es, 1, p, ctx, st, <<>>))
    [] e.k = "alt" -> DropSup(e, ParseAlt(E, e.es, 1, p, ctx, st))
    [] e.k = "opt" -> LET r == Parse(E, e.e, p, ctx, st) IN
                      IF r.ok THEN DropSup(e, r) ELSE Ok(p, <<>>, r.st)
    [] e.k = "star" -> DropSup(e, ParseRep(E, e.e, e.sep, p, WithEol(ctx, e), st, <<>>, TRUE))
    [] e.k = "plus" -> LET r == ParseRep(E, e.e, e.sep, p, WithEol(ctx, e), st, <<>>, TRUE) IN
                       IF r.pos > p THEN DropSup(e, r) ELSE FailQ(r.st)
    [] e.k = "unord" -> DropSup(e, ParseUnord(E, e.es, e.sep, p, WithEol(ctx, e), st, <<>>, TRUE))
    [] e.k = "and" -> LET r == Parse(E, e.e, p, ctx, st) IN IF r.ok THEN Ok(p, <<>>, r.st) ELSE FailQ(r.st)
    [] e.k = "not" -> LET r == Parse(E, e.e, p, ctx, st) IN
                      IF r.ok THEN FailAt(r.st, p) ELSE Ok(p, <<>>, r.st)
    [] e.k = "asg" ->
         CASE e.op = "=" ->
                LET r == Parse(E, e.rhs, p, ctx, st) IN
                IF r.ok THEN Ok(r.pos, IF r.ns = <<>> THEN <<>> ELSE <<AsgN(e.attr, "=", r.ns)>>, r.st)
                ELSE FailQ(r.st)
           [] e.op = "?=" ->
                LET r == Parse(E, e.rhs, p, ctx, st) IN
                IF r.ok /\ r.ns # <<>> THEN Ok(r.pos, <<AsgN(e.attr, "?=", r.ns)>>, r.st) ELSE Ok(p, <<>>, r.st)
           [] e.op = "*=" ->
                LET r == ParseRep(E, e.rhs, e.sep, p, WithEol(ctx, e), st, <<>>, TRUE) IN
                Ok(r.pos, IF r.ns = <<>> THEN <<>> ELSE <<AsgN(e.attr, "*=", r.ns)>>, r.st)
           [] e.op = "+=" ->
                LET r == ParseRep(E, e.rhs, e.sep, p, WithEol(ctx, e), st, <<>>, TRUE) IN
                IF r.pos > p THEN Ok(r.pos, <<AsgN(e.attr, "+=", r.ns)>>, r.st) ELSE FailQ(r.st)

ParseSeq(E, es, i, p, ctx, st, acc) ==
  IF i > Len(es) THEN Ok(p, acc, st)
  ELSE LET r == Parse(E, es[i], p, ctx, st) IN
       IF r.ok THEN ParseSeq(E, es, i+1, r.pos, ctx, r.st, acc \o r.ns) ELSE FailQ(r.st)

\* ordered choice: the first alternative that succeeds
ParseAlt(E, es, i, p, ctx, st) ==
  IF i > Len(es) THEN FailQ(st)
  ELSE LET r == Parse(E, es[i], p, ctx, st) IN
       IF r.ok THEN r ELSE ParseAlt(E, es, i+1, p, ctx, r.st)

MarkSep(ns) == [i \in 1..Len(ns) |-> IF ns[i].t = "leaf" THEN [ns[i] EXCEPT !.sep = TRUE] ELSE ns[i]]

\* zero or more e separated by sep: stops when the separator or the element fails or nothing is consumed
ParseRep(E, e, sep, p, ctx, st, acc, first) ==
  LET sr == IF first \/ sep.k = "none" THEN Ok(p, <<>>, st) ELSE Parse(E, sep, p, ctx, st) IN
  IF ~sr.ok THEN Ok(p, acc, sr.st)
  ELSE LET r == Parse(E, e, sr.pos, ctx, sr.st) IN
       IF r.ok /\ r.pos > p
       THEN ParseRep(E, e, sep, r.pos, ctx, r.st, acc \o MarkSep(sr.ns) \o r.ns, FALSE)
       ELSE \* the separator consumed before a failing element is given back ...
            IF "SepKeptAfterFailedElement" \in E.D
            THEN Ok(p, acc \o MarkSep(sr.ns), r.st)   \* ... but its node stays in the result (deviation)
            ELSE Ok(p, acc, r.st)

\* index of the first remaining element (listed order) that matches at p with a result; 0 if none
FirstMatching(E, es, j, p, ctx, st) ==
  IF j > Len(es) THEN [j |-> 0, st |-> st]
  ELSE LET r == Parse(E, es[j], p, ctx, st) IN
       IF r.ok /\ r.ns # <<>> THEN [j |-> j, st |-> r.st, r |-> r]
       ELSE FirstMatching(E, es, j+1, p, ctx, r.st)
AllEmpty(E, es, j, p, ctx, st) ==
  IF j > Len(es) THEN [ok |-> TRUE, st |-> st]
  ELSE LET r == Parse(E, es[j], p, ctx, st) IN
       IF r.ok THEN AllEmpty(E, es, j+1, p, ctx, r.st) ELSE [ok |-> FALSE, st |-> r.st]
RemoveAt(sq, j) == SubSeq(sq, 1, j-1) \o SubSeq(sq, j+1, Len(sq))

\* unordered group: each element once, any order (greedy: first remaining element that matches),
\* separator between matched elements, elements that can match empty may be absent
ParseUnord(E, es, sep, p, ctx, st, acc, first) ==
  IF es = <<>> THEN Ok(p, acc, st)
  ELSE LET sr == IF first \/ sep.k = "none" THEN Ok(p, <<>>, st) ELSE Parse(E, sep, p, ctx, st)
           q  == IF sr.ok THEN sr.pos ELSE p
           fm == FirstMatching(E, es, 1, q, ctx, sr.st)
       IN IF fm.j # 0 /\ sr.ok
          THEN ParseUnord(E, RemoveAt(es, fm.j), sep, fm.r.pos, ctx, fm.st,
                          acc \o MarkSep(sr.ns) \o fm.r.ns, FALSE)
          ELSE LET ae == AllEmpty(E, es, 1, p, ctx, fm.st) IN
               IF ae.ok /\ fm.j = 0 THEN Ok(p, acc, ae.st) ELSE FailQ(ae.st)

\* do the rule's modifiers take effect?  (documented: always)
BodyKindsHonoured == {"seq", "alt", "str", "re", "ref", "asg"}
Honoured(E, ru) == "ModifierOnlyOnSeqOrChoice" \notin E.D \/ ru.body.k \in BodyKindsHonoured

ParseRule(E, name, p, ctx, st) ==
  LET ru == Rule(E.g, name)
      h  == Honoured(E, ru)
      c2 == [ctx EXCEPT !.skipws = IF h /\ ru.skipws = "on" THEN TRUE
                                   ELSE IF h /\ ru.skipws = "off" THEN FALSE ELSE ctx.skipws,
                        !.ws = IF h /\ ru.ws # <<>> THEN SeqSet(ru.ws) ELSE ctx.ws]
      run(t) == LET r == Parse(E, ru.body, p, c2, t) IN
                IF r.ok THEN Ok(r.pos, IF r.ns = <<>> THEN <<>> ELSE <<RuleN(name, r.ns)>>, r.st)
                ELSE FailQ(r.st)
  IN Memo(E, 0 - RuleIdx(E.g, name), p, ctx, st, run)

----------------------------------------------------------------------------
\* meta-model inference (grammar.md: rule types, multiple assignment)
RECURSIVE HasAsg(_)
RECURSIVE AnySeq(_,_)
AnySeq(es, i) == IF i > Len(es) THEN FALSE ELSE HasAsg(es[i]) \/ AnySeq(es, i+1)
HasAsg(e) == CASE e.k = "asg" -> TRUE
               [] e.k \in {"seq", "alt", "unord"} -> AnySeq(e.es, 1)
               [] e.k \in {"opt", "star", "plus", "and", "not"} -> HasAsg(e.e)
               [] OTHER -> FALSE
RECURSIVE RefsOf(_)
RECURSIVE RefsSeq(_,_)
RefsSeq(es, i) == IF i > Len(es) THEN {} ELSE RefsOf(es[i]) \cup RefsSeq(es, i+1)
RefsOf(e) == CASE e.k = "ref" -> IF e.name \in BaseNames THEN {} ELSE {e.name}
               [] e.k \in {"seq", "alt", "unord"} -> RefsSeq(e.es, 1)
               [] e.k \in {"opt", "star", "plus", "and", "not"} -> RefsOf(e.e)
               [] OTHER -> {}
Names(g) == {g.rules[i].name : i \in 1..Len(g.rules)}
Common(g) == {n \in Names(g) : HasAsg(Rule(g, n).body)}
RECURSIVE AbstractFix(_,_)
AbstractFix(g, A) ==
  LET B == A \cup {n \in Names(g) \ Common(g) : RefsOf(Rule(g, n).body) \cap (Common(g) \cup A) # {}} IN
  IF B = A THEN A ELSE AbstractFix(g, B)
\* common: has assignments; abstract: no assignments and references a non-match rule; match otherwise
Kind(g, n) == IF n \in BaseNames THEN "match"
              ELSE IF n \in Common(g) THEN "common"
              ELSE IF n \in AbstractFix(g, {}) THEN "abstract" ELSE "match"

\* attribute names in order of first appearance
RECURSIVE Attrs(_)
RECURSIVE AttrsSeq(_,_)
Uniq(a, b) == a \o SelectSeq(b, LAMBDA x : \A i \in 1..Len(a) : a[i] # x)
RECURSIVE UniqSelf(_)
UniqSelf(a) == IF a = <<>> THEN <<>> ELSE Uniq(<<Head(a)>>, UniqSelf(Tail(a)))
AttrsSeq(es, i) == IF i > Len(es) THEN <<>> ELSE Attrs(es[i]) \o AttrsSeq(es, i+1)
Attrs(e) == CASE e.k = "asg" -> <<e.attr>>
              [] e.k \in {"seq", "alt", "unord"} -> AttrsSeq(e.es, 1)
              [] e.k \in {"opt", "star", "plus", "and", "not"} -> Attrs(e.e)
              [] OTHER -> <<>>
AttrNames(g, n) == UniqSelf(Attrs(Rule(g, n).body))

\* how many values one object can collect for attribute a: 0, 1, 2 (= many)
Cap(x) == IF x > 2 THEN 2 ELSE x
RECURSIVE Cnt(_,_)
RECURSIVE CntSum(_,_,_)
RECURSIVE CntMax(_,_,_)
CntSum(es, i, a) == IF i > Len(es) THEN 0 ELSE Cap(Cnt(es[i], a) + CntSum(es, i+1, a))
CntMax(es, i, a) == IF i > Len(es) THEN 0 ELSE Max(Cnt(es[i], a), CntMax(es, i+1, a))
Cnt(e, a) == CASE e.k = "asg" -> IF e.attr = a THEN (IF e.op \in {"+=", "*="} THEN 2 ELSE 1) ELSE 0
               [] e.k \in {"seq", "unord"} -> CntSum(e.es, 1, a)
               [] e.k = "alt" -> CntMax(e.es, 1, a)
               [] e.k \in {"opt", "and", "not"} -> Cnt(e.e, a)
               [] e.k \in {"star", "plus"} -> IF Cnt(e.e, a) > 0 THEN 2 ELSE 0
               [] OTHER -> 0

\* deviation MultResetAtChoice: multiplicities as lang.py computes them -- a set of names
\* assigned so far in the current branch that is emptied on entering a choice and not
\* merged back on leaving it.  Returns [set, lists].
RECURSIVE Upd(_,_,_,_)
RECURSIVE UpdSeq(_,_,_,_,_)
RECURSIVE UpdAlt(_,_,_,_)
UpdSeq(es, i, S, many, L) ==
  IF i > Len(es) THEN [set |-> S, lists |-> L]
  ELSE LET r == Upd(es[i], S, many, L) IN UpdSeq(es, i+1, r.set, many, r.lists)
UpdAlt(es, i, many, L) ==
  IF i > Len(es) THEN L ELSE UpdAlt(es, i+1, many, Upd(es[i], {}, many, L).lists)
Upd(e, S, many, L) ==
  CASE e.k = "alt" -> [set |-> S, lists |-> UpdAlt(e.es, 1, many, L)]
    [] e.k = "asg" ->
         IF many \/ e.op \in {"+=", "*="} THEN [set |-> S, lists |-> L \cup {e.attr}]
         ELSE IF e.attr \in S THEN [set |-> S, lists |-> L \cup {e.attr}]
         ELSE [set |-> S \cup {e.attr}, lists |-> L]
    [] e.k \in {"seq", "unord"} -> UpdSeq(e.es, 1, S, many, L)
    [] e.k \in {"opt", "and", "not"} -> Upd(e.e, S, many, L)
    [] e.k \in {"star", "plus"} -> Upd(e.e, S, TRUE, L)
    [] OTHER -> [set |-> S, lists |-> L]

\* an attribute is a list exactly when one object can collect more than one value for it
IsList(E, n, a) ==
  IF "MultResetAtChoice" \in E.D
  THEN a \in Upd(Rule(E.g, n).body, {}, FALSE, {}).lists
  ELSE Cnt(Rule(E.g, n).body, a) = 2

\* type of an attribute: the common type of all its assignments, else OBJECT
RECURSIVE Asgs(_,_)
RECURSIVE AsgsSeq(_,_,_)
AsgsSeq(es, i, a) == IF i > Len(es) THEN <<>> ELSE Asgs(es[i], a) \o AsgsSeq(es, i+1, a)
Asgs(e, a) == CASE e.k = "asg" -> IF e.attr = a THEN <<e>> ELSE <<>>
                [] e.k \in {"seq", "alt", "unord"} -> AsgsSeq(e.es, 1, a)
                [] e.k \in {"opt", "star", "plus", "and", "not"} -> Asgs(e.e, a)
                [] OTHER -> <<>>
TypeOfAsg(x) == IF x.op = "?=" THEN "BOOL"
                ELSE IF x.rhs.k \in {"str", "re"} THEN "STRING" ELSE x.rhs.name
AttrType(g, n, a) == LET xs == Asgs(Rule(g, n).body, a)
                         ts == {TypeOfAsg(xs[i]) : i \in 1..Len(xs)}
                     IN IF Cardinality(ts) = 1 THEN CHOOSE t \in ts : TRUE ELSE "OBJECT"

\* line and column (both 1-based) of the 0-based offset p0 in text s
LineOf(s, p0) == 1 + Cardinality({i \in 1..p0 : s[i] = NL})
ColOf(s, p0) == LET N == {i \in 1..p0 : s[i] = NL}
                    l == IF N = {} THEN 0 ELSE CHOOSE i \in N : \A j \in N : i >= j
                IN p0 - l + 1

\* which rules can be the result of an expression of an abstract rule: in a sequence the first
\* part that refers to a common/abstract rule, in a choice any alternative
RECURSIVE ResultRefs(_,_)
RECURSIVE ResultRefsSeq(_,_,_)
ResultRefsSeq(g, es, i) == IF i > Len(es) THEN {}
                           ELSE LET X == ResultRefs(g, es[i]) IN IF X # {} THEN X ELSE ResultRefsSeq(g, es, i+1)
ResultRefs(g, e) ==
  CASE e.k = "ref" -> IF e.name \notin BaseNames /\ Kind(g, e.name) # "match" THEN {e.name} ELSE {}
    [] e.k = "alt" -> UNION {ResultRefs(g, e.es[i]) : i \in 1..Len(e.es)}
    [] e.k \in {"seq", "unord"} -> ResultRefsSeq(g, e.es, 1)
    [] e.k \in {"opt", "star", "plus"} -> ResultRefs(g, e.e)
    [] OTHER -> {}
InhBy(g, r) == IF Kind(g, r) = "abstract" THEN ResultRefs(g, Rule(g, r).body) ELSE {}
RECURSIVE Below(_,_)
Below(g, S) == LET T == S \cup UNION {InhBy(g, r) : r \in S} IN IF T = S THEN S ELSE Below(g, T)
\* textx_isinstance(object of rule c, R): c is R, or reachable from R through abstract-rule alternatives (or R is OBJECT)
Conforms(g, cl, r) == cl \in Below(g, {r})
ConfPairs(g) == {<<cl, r>> \in Common(g) \X Names(g) : Conforms(g, cl, r)}

----------------------------------------------------------------------------
\* values
VNone == [t |-> "none"]
VStr(x) == [t |-> "str", v |-> x]
VInt(x) == [t |-> "int", v |-> x]
VBool(x) == [t |-> "bool", v |-> x]
VList(x) == [t |-> "list", v |-> x]
VErr(x) == [t |-> "err", v |-> x]

RECURSIVE DigitsVal(_,_)
DigitsVal(ds, acc) == IF ds = <<>> THEN acc ELSE DigitsVal(Tail(ds), acc * 10 + (Head(ds) - 48))
IntOf(txt) == IF Head(txt) = 45 THEN 0 - DigitsVal(Tail(txt), 0)
              ELSE IF Head(txt) = 43 THEN DigitsVal(Tail(txt), 0) ELSE DigitsVal(txt, 0)
RECURSIVE NatText(_)
NatText(n) == IF n < 10 THEN <<48 + n>> ELSE NatText(n \div 10) \o <<48 + (n % 10)>>
IntText(n) == IF n < 0 THEN <<45>> \o NatText(0 - n) ELSE NatText(n)
BoolOf(txt) == txt \in {<<84,114,117,101>>, <<116,114,117,101>>, <<49>>}
RECURSIVE Unesc(_,_)
\* only the delimiting quote can be escaped
Unesc(t, qc) == IF t = <<>> THEN <<>>
                ELSE IF Len(t) >= 2 /\ t[1] = 92 /\ t[2] = qc THEN <<qc>> \o Unesc(SubSeq(t, 3, Len(t)), qc)
                ELSE <<t[1]>> \o Unesc(Tail(t), qc)
StringOf(txt) == Unesc(SubSeq(txt, 2, Len(txt) - 1), txt[1])
ToText(v) == CASE v.t = "int" -> IntText(v.v)
               [] v.t = "bool" -> IF v.v THEN <<84,114,117,101>> ELSE <<70,97,108,115,101>>
               [] OTHER -> v.v
Truthy(v) == CASE v.t = "none" -> FALSE
               [] v.t = "int" -> v.v # 0
               [] v.t = "bool" -> v.v
               [] v.t \in {"str", "list"} -> v.v # <<>>
               [] OTHER -> TRUE

Default(E, n, a) ==
  LET ty == AttrType(E.g, n, a) IN
  IF IsList(E, n, a) THEN VList(<<>>)
  ELSE IF ty = "BOOL" /\ (\E x \in SeqSet(Asgs(Rule(E.g, n).body, a)) : x.op = "?=") THEN VBool(FALSE)
  ELSE IF ~E.cfg.autoinit THEN VNone
  ELSE CASE ty = "BOOL" -> VBool(FALSE)
         [] ty = "INT" -> VInt(0)
         [] ty \in {"ID", "STRING"} -> VStr(<<>>)
         [] OTHER -> VNone

RECURSIVE NodeStart(_)
RECURSIVE NodeEnd(_)
NodeStart(n) == IF n.t = "leaf" THEN n.s ELSE NodeStart(n.kids[1])
NodeEnd(n) == IF n.t = "leaf" THEN n.e ELSE NodeEnd(n.kids[Len(n.kids)])

\* does the rule produce a terminal node (its body is a single match, possibly through single references)?
RECURSIVE IsTermRule(_,_)
IsTermRule(g, n) ==
  LET ru == Rule(g, n) IN
  /\ ru.skipws = "inherit" /\ ru.ws = <<>>
  /\ \/ ru.body.k \in {"str", "re"}
     \/ (ru.body.k = "ref" /\ ~ru.body.sup /\ (ru.body.name \in BaseNames \/ IsTermRule(g, ru.body.name)))

RECURSIVE MatchVal(_,_,_)
RECURSIVE ConcatVals(_,_,_)
RECURSIVE ConcatRaw(_,_,_)
RECURSIVE RawText(_,_)
RECURSIVE BuildNode(_,_)
RECURSIVE ApplyAsgs(_,_,_,_,_)
RECURSIVE ListVals(_,_,_,_)

LeafVal(n) == CASE n.conv = "int" -> VInt(IntOf(n.txt))
                [] n.conv = "bool" -> VBool(BoolOf(n.txt))
                [] n.conv = "string" -> VStr(StringOf(n.txt))
                [] OTHER -> VStr(n.txt)
\* deviation RegroupOnlyDirect: inside a composite match rule the regex group is not applied
LeafValIn(E, n, direct) == IF "RegroupOnlyDirect" \in E.D /\ ~direct THEN LeafVal([n EXCEPT !.txt = n.full]) ELSE LeafVal(n)

\* value of a node produced by a match rule: a single leaf is converted, several are concatenated as text
MatchVal(E, n, direct) ==
  IF n.t = "leaf" THEN LeafValIn(E, n, direct)
  ELSE LET d2 == direct /\ IsTermRule(E.g, n.name) IN
       IF Len(n.kids) = 1 THEN MatchVal(E, n.kids[1], d2)
       ELSE VStr(ConcatVals(E, n.kids, 1))
ConcatVals(E, kids, i) == IF i > Len(kids) THEN <<>> ELSE ToText(MatchVal(E, kids[i], FALSE)) \o ConcatVals(E, kids, i+1)

\* text matched by a node: the matched text of terminals, the result (as text) of multi-part match rules
RawText(E, n) == IF n.t = "leaf" THEN n.full
                 ELSE IF IsTermRule(E.g, n.name) /\ Len(n.kids) = 1 THEN RawText(E, n.kids[1])
                 ELSE ToText(MatchVal(E, n, FALSE))
ConcatRaw(E, kids, i) == IF i > Len(kids) THEN <<>> ELSE RawText(E, kids[i]) \o ConcatRaw(E, kids, i+1)

\* abstract rule: the result of the first non-match reference of the alternative that matched
FirstNonMatch(E, kids) ==
  LET I == IF "AbstractTakesFirstNonTerminal" \in E.D
           THEN {i \in 1..Len(kids) : kids[i].t = "rule" /\ ~IsTermRule(E.g, kids[i].name)}
           ELSE {i \in 1..Len(kids) : kids[i].t = "rule" /\ Kind(E.g, kids[i].name) # "match"}
  IN IF I = {} THEN 0 ELSE CHOOSE i \in I : \A j \in I : i <= j

SetAttr(pairs, a, v) == [i \in 1..Len(pairs) |-> IF pairs[i][1] = a THEN <<a, v>> ELSE pairs[i]]
GetAttr(pairs, a) == LET i == CHOOSE i \in 1..Len(pairs) : pairs[i][1] = a IN pairs[i][2]
HasErr(vs) == \E i \in 1..Len(vs) : vs[i].t = "err"

ListVals(E, kids, i, acc) ==
  IF i > Len(kids) THEN acc
  ELSE IF kids[i].t = "leaf" /\ kids[i].sep THEN ListVals(E, kids, i+1, acc)
  ELSE ListVals(E, kids, i+1, Append(acc, BuildNode(E, kids[i])))

ApplyAsgs(E, rn, kids, i, pairs) ==
  IF i > Len(kids) THEN pairs
  ELSE LET k == kids[i] IN
       IF k.t # "asg" THEN ApplyAsgs(E, rn, kids, i+1, pairs)
       ELSE LET cur == GetAttr(pairs, k.attr) IN
            IF k.op = "?=" THEN ApplyAsgs(E, rn, kids, i+1, SetAttr(pairs, k.attr, VBool(TRUE)))
            ELSE IF k.op = "="
            THEN (IF cur.t # "list" /\ Truthy(cur)
                  THEN <<<<"!", VErr("Multiple assignments")>>>>      \* only reachable under a deviation
                  ELSE LET v == BuildNode(E, k.kids[1]) IN
                       IF v.t = "err" THEN <<<<"!", v>>>>
                       ELSE ApplyAsgs(E, rn, kids, i+1,
                                      SetAttr(pairs, k.attr, IF cur.t = "list" THEN VList(Append(cur.v, v)) ELSE v)))
            ELSE LET vs == ListVals(E, k.kids, 1, <<>>) IN
                 IF HasErr(vs) THEN <<<<"!", VErr("Multiple assignments")>>>>
                 ELSE ApplyAsgs(E, rn, kids, i+1,
                                SetAttr(pairs, k.attr, VList((IF cur.t = "list" THEN cur.v ELSE <<>>) \o vs)))

BuildNode(E, n) ==
  IF n.t = "leaf" THEN LeafVal(n)
  ELSE LET kd == Kind(E.g, n.name) IN
       CASE kd = "match" -> MatchVal(E, n, TRUE)
         [] kd = "abstract" ->
              LET f == FirstNonMatch(E, n.kids)
                  NT == {i \in 1..Len(n.kids) : n.kids[i].t = "rule" /\ ~IsTermRule(E.g, n.kids[i].name)}
              IN IF f # 0 THEN BuildNode(E, n.kids[f])
                 ELSE IF Len(n.kids) = 1 THEN BuildNode(E, n.kids[1])
                 \* only match rules in the alternative that matched: the concatenated text ...
                 ELSE IF "AbstractAllMatchTakesFirstNonTerminal" \in E.D /\ NT # {}
                      THEN BuildNode(E, n.kids[CHOOSE i \in NT : \A j \in NT : i <= j])   \* ... (deviation: one part only)
                      ELSE VStr(ConcatRaw(E, n.kids, 1))
         [] kd = "common" ->
              LET names == AttrNames(E.g, n.name)
                  init == [i \in 1..Len(names) |-> <<names[i], Default(E, n.name, names[i])>>]
                  prs == ApplyAsgs(E, n.name, n.kids, 1, init)
              IN IF prs # <<>> /\ prs[1][1] = "!" THEN prs[1][2]
                 ELSE [t |-> "obj", cls |-> n.name, attrs |-> prs,
                       s |-> NodeStart(n) - 1, e |-> NodeEnd(n) - 1,
                       ln |-> LineOf(E.s, NodeStart(n) - 1), co |-> ColOf(E.s, NodeStart(n) - 1)]

----------------------------------------------------------------------------
\* The fragment on which the documented semantics is unambiguous (DESIGN.md section 7).
\* "Result-less" = can succeed without producing a parse-tree node.  textX does not document
\* what happens when an alternative, a repetition body, an optional body, an assignment
\* right-hand side or a rule body succeeds result-less, so such grammars are not judged.
RECURSIVE MayRl(_,_,_)
RECURSIVE AllRl(_,_,_,_)
RECURSIVE AnyRl(_,_,_,_)
AllRl(g, es, i, seen) == IF i > Len(es) THEN TRUE ELSE MayRl(g, es[i], seen) /\ AllRl(g, es, i+1, seen)
AnyRl(g, es, i, seen) == IF i > Len(es) THEN FALSE ELSE MayRl(g, es[i], seen) \/ AnyRl(g, es, i+1, seen)
MayRl(g, e, seen) ==
  IF e.sup THEN TRUE
  ELSE CASE e.k = "str" -> e.lit = <<>>
         [] e.k = "re" -> e.min = 0 /\ e.pre = <<>> /\ e.post = <<>>
         [] e.k = "ref" -> IF e.name \in BaseNames \/ e.name \in seen THEN FALSE
                           ELSE MayRl(g, Rule(g, e.name).body, seen \cup {e.name})
         [] e.k \in {"seq", "unord"} -> AllRl(g, e.es, 1, seen)
         [] e.k = "alt" -> AnyRl(g, e.es, 1, seen)
         [] e.k \in {"opt", "star", "and", "not"} -> TRUE
         [] e.k = "plus" -> MayRl(g, e.e, seen)
         [] e.k = "asg" -> e.op \in {"?=", "*="} \/ MayRl(g, e.rhs, seen)

RECURSIVE SubExprs(_)
RECURSIVE SubSeqs(_,_)
SubSeqs(es, i) == IF i > Len(es) THEN {} ELSE SubExprs(es[i]) \cup SubSeqs(es, i+1)
SubExprs(e) == {e} \cup
  CASE e.k \in {"seq", "alt", "unord"} -> SubSeqs(e.es, 1)
    [] e.k \in {"opt", "star", "plus", "and", "not"} -> SubExprs(e.e)
    [] e.k = "asg" -> SubExprs(e.rhs)
    [] OTHER -> {}

\* rules reachable as the first thing parsed (without consuming input before)
RECURSIVE FirstRefs(_)
RECURSIVE FirstRefsSeq(_,_)
RECURSIVE Nullable(_)
RECURSIVE NullAll(_,_)
RECURSIVE NullAny(_,_)
NullAll(es, i) == IF i > Len(es) THEN TRUE ELSE Nullable(es[i]) /\ NullAll(es, i+1)
NullAny(es, i) == IF i > Len(es) THEN FALSE ELSE Nullable(es[i]) \/ NullAny(es, i+1)
\* can e succeed without consuming input (references are taken as consuming: rule bodies must produce a result)
Nullable(e) == CASE e.k = "str" -> e.lit = <<>>
                 [] e.k = "re" -> e.min = 0 /\ e.pre = <<>> /\ e.post = <<>>
                 [] e.k = "ref" -> FALSE
                 [] e.k \in {"opt", "star", "and", "not"} -> TRUE
                 [] e.k = "plus" -> Nullable(e.e)
                 [] e.k \in {"seq", "unord"} -> NullAll(e.es, 1)
                 [] e.k = "alt" -> NullAny(e.es, 1)
                 [] e.k = "asg" -> e.op \in {"?=", "*="} \/ Nullable(e.rhs)
FirstRefsSeq(es, i) == IF i > Len(es) THEN {}
                       ELSE FirstRefs(es[i]) \cup (IF Nullable(es[i]) THEN FirstRefsSeq(es, i+1) ELSE {})
FirstRefs(e) == CASE e.k = "ref" -> IF e.name \in BaseNames THEN {} ELSE {e.name}
                  [] e.k = "seq" -> FirstRefsSeq(e.es, 1)
                  [] e.k \in {"alt", "unord"} -> UNION {FirstRefs(e.es[i]) : i \in 1..Len(e.es)}
                  [] e.k \in {"opt", "star", "plus", "and", "not"} -> FirstRefs(e.e)
                  [] e.k = "asg" -> FirstRefs(e.rhs)
                  [] OTHER -> {}
RECURSIVE ReachFirst(_,_)
ReachFirst(g, S) == LET T == S \cup UNION {FirstRefs(Rule(g, n).body) : n \in S} IN
                    IF T = S THEN S ELSE ReachFirst(g, T)
LeftRecursive(g) == \E n \in {g.rules[i].name : i \in 1..Len(g.rules)} :
                       n \in ReachFirst(g, FirstRefs(Rule(g, n).body))

WellFormedRule(g, ru) ==
  LET X == SubExprs(ru.body)
      A == {e \in X : e.k = "asg"}
  IN /\ ~MayRl(g, ru.body, {})
     /\ \A e \in X :
          /\ e.k = "alt" => ~AnyRl(g, e.es, 1, {})
          /\ e.k \in {"star", "plus", "opt"} => ~MayRl(g, e.e, {})
          /\ e.k \in {"star", "plus"} => \A x \in SubExprs(e.e) : ~(x.k = "asg" /\ x.op = "?=")
          \* an element of an unordered group either always yields a result or is a plain optional part
          \* (a result-less success that consumed input, e.g. a suppressed match, is not defined for groups)
          /\ e.k = "unord" =>
                /\ Len(e.es) >= 2
                /\ \A i \in 1..Len(e.es) :
                      LET x == e.es[i] IN
                      /\ ~x.sup
                      /\ \/ ~MayRl(g, x, {})
                         \/ (x.k \in {"opt", "star"} /\ ~MayRl(g, x.e, {}))
                         \/ (x.k = "asg" /\ x.op \in {"?=", "*="})
          /\ e.k = "asg" => ~MayRl(g, e.rhs, {})
          /\ e.k \in {"and", "not"} => \A x \in SubExprs(e.e) : x.k # "asg"
          /\ e.k = "ref" => e.name \in BaseNames \/ HasRule(g, e.name)
          /\ e.k = "str" => e.lit # <<>>
     \* an attribute assigned with ?= is assigned exactly once and with no other operator
     /\ \A a \in A : a.op = "?=" => Cardinality({b \in A : b.attr = a.attr}) = 1

\* An abstract-rule alternative without a common/abstract reference yields "the concatenated text".
\* The documentation speaks of "a concatenation of all match rule results"; whether plain string and
\* regex matches standing next to match-rule references take part is not said, so such alternatives are
\* judged only when they consist of rule references only or of plain matches only.
PureMatchAlt(g, e) ==
  ResultRefs(g, e) = {} /\ e.k = "seq" =>
    /\ \A i \in 1..Len(e.es) : e.es[i].k \in {"str", "re", "ref"} /\ ~e.es[i].sup
    /\ \/ \A i \in 1..Len(e.es) : e.es[i].k = "ref"
       \/ \A i \in 1..Len(e.es) : e.es[i].k \in {"str", "re"}
AbstractAltsPure(g, ru) ==
  Kind(g, ru.name) = "abstract" =>
    IF ru.body.k = "alt" THEN \A i \in 1..Len(ru.body.es) : PureMatchAlt(g, ru.body.es[i])
    ELSE PureMatchAlt(g, ru.body)

\* A rule-level ws modifier inside an eolterm repetition is not judged: Arpeggio restores the
\* whitespace set from the value already stripped of newlines (finding F-C22-1, replayed from its witness).
UsesEol(g) == \E i \in 1..Len(g.rules) : \E e \in SubExprs(g.rules[i].body) :
                 e.k \in {"star", "plus", "unord", "asg"} /\ e.eol
UsesWsMod(g) == \E i \in 1..Len(g.rules) : g.rules[i].ws # <<>>

WellFormed(g) ==
  /\ ~(UsesEol(g) /\ UsesWsMod(g))
  /\ \A i \in 1..Len(g.rules) : WellFormedRule(g, g.rules[i])
  /\ \A i \in 1..Len(g.rules) : AbstractAltsPure(g, g.rules[i])
  /\ \A i, j \in 1..Len(g.rules) : g.rules[i].name = g.rules[j].name => i = j
  /\ ~LeftRecursive(g)
  \* the Comment rule: a regex, a reference to a rule that is a regex, or a choice of those; never matching empty
  /\ HasRule(g, "Comment") =>
       LET CommentAtom(c) == \/ (c.k = "re" /\ ~c.sup /\ ~(c.min = 0 /\ c.pre = <<>> /\ c.post = <<>>))
                             \/ (c.k = "ref" /\ ~c.sup /\ HasRule(g, c.name) /\ c.name # "Comment"
                                   /\ LET d == Rule(g, c.name) IN
                                      d.body.k = "re" /\ ~d.body.sup /\ d.skipws = "inherit" /\ d.ws = <<>>
                                      /\ ~(d.body.min = 0 /\ d.body.pre = <<>> /\ d.body.post = <<>>))
           c == Rule(g, "Comment")
       IN /\ c.skipws = "inherit" /\ c.ws = <<>>
          /\ \/ CommentAtom(c.body)
             \/ (c.body.k = "alt" /\ ~c.body.sup /\ \A i \in 1..Len(c.body.es) : CommentAtom(c.body.es[i]))

----------------------------------------------------------------------------
\* cfg.ws = <<>> is "option not given" (the default set); the optional field wsnone says ws='' was given:
\* no character is whitespace (comments are still skipped)
WsNone(c) == "wsnone" \in DOMAIN c /\ c.wsnone
Ctx0(E) == [skipws |-> E.cfg.skipws, ws |-> IF WsNone(E.cfg) THEN {} ELSE IF E.cfg.ws = <<>> THEN DefaultWs ELSE SeqSet(E.cfg.ws),
            eol |-> FALSE, incomment |-> FALSE]
Root(g) == g.rules[1].name

\* the parse alone: [ok, pos, ns, far]
ParseAll(E) ==
  LET r == ParseRule(E, Root(E.g), 1, Ctx0(E), St0) IN
  IF ~r.ok THEN [ok |-> FALSE, ns |-> <<>>, far |-> r.st.far]
  ELSE LET pr == Pre(E, r.pos, Ctx0(E), r.st) IN
       IF pr.pos # Len(E.s) + 1 THEN [ok |-> FALSE, ns |-> <<>>, far |-> Max(pr.st.far, pr.pos)]
       ELSE [ok |-> TRUE, ns |-> r.ns, far |-> pr.st.far]

\* far is 1-based (position of the character at which a terminal failed); reported 0-based
Outcome(E) ==
  LET r == ParseAll(E) IN
  IF ~r.ok THEN [accept |-> FALSE, far |-> r.far - 1, model |-> VNone]
  ELSE IF r.ns = <<>> THEN [accept |-> TRUE, far |-> 0, model |-> VNone]
  ELSE [accept |-> TRUE, far |-> 0, model |-> BuildNode(E, r.ns[1])]
=============================================================================
